"""C09 (xz --memlimit-* part): the xz tool run with a user-specified memory
limit either stays within it (lowering threads or the dictionary size when
allowed) or fails with an error.

The whole heap of the process (xz and liblzma: malloc/calloc/realloc/free are
behind the shim and counted by usable size) is measured; the worker threads run
under the deterministic scheduler, so the peak is a function of the case."""
import random

import xzsim

MiB = 1 << 20
LIMITS = [1 * MiB, 2 * MiB, 3 * MiB, 5 * MiB, 9 * MiB, 14 * MiB, 20 * MiB, 33 * MiB, 50 * MiB, 100 * MiB, 200 * MiB]
# what xz itself (not liblzma) may hold: option parsing, file-name buffers, stdio
ALLOWANCE = 256 * 1024


def cases(rng, n):
    out = []
    for _ in range(n):
        threads = rng.choice([1, 1, 2, 4, 6])
        limit = rng.choice(LIMITS) + rng.choice([0, 0, 1, 4096, 123456])
        ln = rng.choice([0, 3000, 200000, 900000, 2500000])
        f = {"name": "m.dat", "class": rng.choice(["text", "random", "sparse"]), "len": ln, "seed": rng.getrandbits(30)}
        if rng.random() < 0.5:
            # compression
            if rng.random() < 0.6:
                opts = ["-%d" % rng.randint(0, 7)]
            else:
                opts = ["--lzma2=preset=%d,dict=%s,mf=%s" % (rng.randint(0, 6), rng.choice(["64KiB", "1MiB", "3MiB", "8MiB", "24MiB"]), rng.choice(["hc3", "hc4", "bt2", "bt3", "bt4"]))]
                if rng.random() < 0.3:
                    opts.insert(0, rng.choice(["--x86", "--delta=dist=4", "--arm64"]))
            if rng.random() < 0.4:
                opts.append("--block-size=%s" % rng.choice(["64KiB", "300KiB", "1MiB", "4MiB"]))
            elif rng.random() < 0.35:
                # several filter chains selected per Block: each chain has to fit the limit (or be adjusted) on its own
                opts.append("--filters1=lzma2:preset=%d,dict=%s" % (rng.randint(0, 6), rng.choice(["1MiB", "8MiB", "32MiB", "64MiB"])))
                if rng.random() < 0.4:
                    opts.append("--filters2=delta:dist=4 lzma2:preset=%d,dict=%s" % (rng.randint(0, 3), rng.choice(["256KiB", "16MiB"])))
                    opts.append("--block-list=0:100KiB,1:100KiB,2:100KiB,1:50KiB")
                else:
                    opts.append("--block-list=%s" % rng.choice(["0:200KiB,1:200KiB,0:100KiB", "1:100KiB,0:100KiB", "0:50KiB,1:0"]))
            if rng.random() < 0.25:
                opts.append("--no-adjust")
            fmt = "xz"
            if rng.random() < 0.1 and not any(o.startswith(("--x86", "--delta", "--arm64", "--block-size")) for o in opts):
                opts = ["--format=lzma"] + [o.replace("--lzma2", "--lzma1") for o in opts]
                fmt = "lzma"
            lim = rng.choice(["--memlimit-compress=%d", "-M%d", "--memlimit=%d"]) % limit
            c = {"kind": "c09mem", "tool": "xz", "files": [f], "args": ["-c", "-T%d" % threads, lim] + opts + ["m.dat"], "stdout": "pipe", "_what": "compress", "_fmt": fmt,
                 "_limit": limit, "_threads": threads, "_noadjust": "--no-adjust" in opts}
        else:
            cargs = ["--lzma2=preset=%d,dict=%s" % (rng.randint(0, 2), rng.choice(["4KiB", "64KiB", "1MiB", "3MiB", "8MiB", "16MiB", "40MiB"]))]
            if rng.random() < 0.6:
                cargs += ["-T2", "--block-size=%s" % rng.choice(["64KiB", "300KiB", "1MiB"])]
            fmt = "xz"
            if rng.random() < 0.15:
                cargs = ["--format=lzma", cargs[0].replace("--lzma2", "--lzma1")]
                fmt = "lzma"
            f = dict(f, name="m." + fmt, compress_args=cargs)
            kind = rng.choice(["hard", "hard", "soft", "both"])
            if kind == "hard":
                lims = [rng.choice(["--memlimit-decompress=%d", "-M%d"]) % limit]
            elif kind == "soft":
                lims = ["--memlimit-mt-decompress=%d" % limit]
            else:
                lims = ["--memlimit-mt-decompress=%d" % limit, "--memlimit-decompress=%d" % (limit * rng.choice([1, 2, 8]))]
            mode = rng.choice(["-dc", "-dc", "-t"])
            c = {"kind": "c09mem", "tool": "xz", "files": [f], "args": [mode, "-T%d" % threads] + lims + ["m." + fmt], "stdout": "pipe", "_what": "decompress", "_fmt": fmt,
                 "_limit": limit, "_limkind": kind, "_hard": None if kind == "soft" else (limit if kind == "hard" else int(lims[1].split("=")[1])), "_threads": threads, "_mode": mode}
        c.update({"env": {"XZSIM_HEAP": "1"}, "sched_seed": rng.getrandbits(30), "sched_preempt": rng.choice([50, 300, 900]), "sched_strategy": rng.choice([0, 1, 2]), "faults": []})
        out.append(c)
    return out


def judge_mem(case, res):
    counters = {"runs.total": 1, "runs.xz_memlimit_" + case["_what"]: 1}
    feats = []
    peak = res.get("heap_peak")
    ctx = " [xz %s; input %s %d bytes; heap peak %s]" % (" ".join(case["args"]), case["files"][0]["class"], case["files"][0]["len"], peak)

    def viol(cls, msg):
        return {"cls": cls, "sig": "C09/xz-" + cls, "msg": msg + ctx + "\nstderr: " + res["stderr"][-400:]}, feats, counters
    if res["rc"] == -999:
        return viol("hang", "xz did not terminate")
    if peak is None:
        return {"cls": "harness", "sig": "harness", "msg": "no heap report in the log" + ctx}, feats, counters
    rc = res["rc"]
    err = res["stderr"]
    adjusted = "Adjusted" in err or "Switching to single-threaded" in err or "Reduced the number of threads" in err
    feats.append("%s|T%d|%s|rc%d|%s" % (case["_what"], case["_threads"], case.get("_limkind", "c"), rc, "adj" if adjusted else "-"))
    if case["_what"] == "compress":
        plain = res["orig"]["m.dat"]
        if rc in (0, 2):
            if peak > case["_limit"] + ALLOWANCE:
                return viol("limit-exceeded", "xz succeeded but held %d bytes with a limit of %d" % (peak, case["_limit"]))
            ref = xzsim.lib_decode(res["stdout"], "lzma" if case["_fmt"] == "lzma" else "auto")
            if ref["status"] != 1 or ref["out"] != plain:
                return viol("roundtrip", "output written under a memory limit does not decode to the input (status %d)" % ref["status"])
            if adjusted and case["_noadjust"] and "Adjusted" in err:
                return viol("adjusted-despite-no-adjust", "the dictionary size was lowered although --no-adjust was given")
            counters["outcome.compress_ok_adjusted" if adjusted else "outcome.compress_ok"] = 1
        else:
            if "limit" not in err.lower():
                return viol("failed-without-reason", "xz failed (exit %d) without naming the memory limit" % rc)
            if res["stdout"]:
                return viol("output-after-refusal", "xz refused the limit but wrote %d bytes" % len(res["stdout"]))
            counters["outcome.compress_refused"] = 1
        return None, feats, counters
    # decompression
    data = res["orig"][case["files"][0]["name"]]
    ref = xzsim.lib_decode(data, "auto")
    if ref["status"] != 1:
        return {"cls": "harness", "sig": "harness", "msg": "artefact does not decode" + ctx}, feats, counters
    hard = case["_hard"]
    if rc in (0, 2):
        if case["_mode"] == "-dc" and res["stdout"] != ref["out"]:
            return viol("output-differs", "decompression under a memory limit gave different bytes")
        if hard is not None and peak > hard + ALLOWANCE:
            return viol("limit-exceeded", "xz succeeded but held %d bytes with a hard limit of %d" % (peak, hard))
        if case["_limkind"] in ("soft", "both") and case["_threads"] > 1:
            # the threading limit: within it whenever a single thread fits; otherwise no more than one thread needs
            st = xzsim.execute(dict(case, args=[case["_mode"], "-T1", case["files"][0]["name"]], faults=[]))
            need1 = st.get("heap_peak") or 0
            bound = max(case["_limit"], need1) + ALLOWANCE + 64 * 1024 * case["_threads"]
            if peak > bound:
                return viol("threading-limit-exceeded", "xz -T%d held %d bytes; threading limit %d, one thread needs %d" % (case["_threads"], peak, case["_limit"], need1))
            counters["reach.xz_soft_limit_checked"] = 1
        counters["outcome.decompress_ok"] = 1
    else:
        if hard is None:
            return viol("soft-limit-failed", "xz failed (exit %d) although only the threading limit was set" % rc)
        if "limit" not in err.lower():
            return viol("failed-without-reason", "xz failed (exit %d) without naming the memory limit" % rc)
        # must not have been avoidable: an unlimited single-threaded run needs more than the hard limit
        st = xzsim.execute(dict(case, args=[case["_mode"], "-T1", case["files"][0]["name"]], faults=[]))
        need1 = st.get("heap_peak") or 0
        if need1 + ALLOWANCE < hard and st["rc"] == 0:
            # liblzma's accounting is an upper estimate of its real allocations; allow the documented base + estimate slack
            if need1 * 2 + (1 << 20) < hard:
                return viol("spurious-memlimit-error", "xz refused a hard limit of %d although a single-threaded run peaks at %d" % (hard, need1))
        counters["outcome.decompress_refused"] = 1
    return None, feats, counters
