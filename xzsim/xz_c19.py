"""C19 — xz naming, overwrite protection and metadata handling. Real xz runs
on scratch directories; the oracle is a small model of the rules in the
property statement (written from the xz(1) manual), evaluated on the directory
before and after. Faults: fchown/fchmod/futimens failures (the only way to
reach the restricted-permission branch in a root sandbox), a simulated
non-root effective uid."""
import errno
import os
import random
import stat

import xzsim

BUILTIN_DEC = [(".xz", ""), (".txz", ".tar"), (".lzma", ""), (".tlz", ".tar"), (".lz", "")]
COMP_SUFFIXES = {"xz": [".xz", ".txz"], "lzma": [".lzma", ".tlz"]}


def has_suffix(name, suf):
    return len(name) > len(suf) and name.endswith(suf) and name[-len(suf) - 1] != "/"


def model_compressed(name, fmt, custom):
    for s in COMP_SUFFIXES[fmt]:
        if has_suffix(name, s):
            return None
    if custom and has_suffix(name, custom):
        return None
    return name + (custom if custom else ("." + fmt))


def model_uncompressed(name, custom):
    for s, rep in BUILTIN_DEC:
        if has_suffix(name, s):
            return name[:-len(s)] + rep
    if custom and has_suffix(name, custom):
        return name[:-len(custom)]
    return None


NAMES = ["a", "a.txt", "a b.txt", "-dash", "ünï.dat", "new\nline", "x.tar", "y.xz", "y.txz", "y.lzma", "y.tlz", "y.lz", "z.foo", "quote'\"$(id);&|.c", ".hidden", "a.x", "a.tx", "..", "a.", "b.XZ",
         "c.tar.xz", "long" * 40]


def cases(rng, n, thorough):
    out = []
    for _ in range(n):
        kind = rng.choice(["name", "name", "name", "overwrite", "special", "meta", "meta", "keep", "status"])
        c = {"kind": "c19-" + kind, "tool": "xz", "files": [], "args": [], "stdout": "pipe", "faults": [], "sched_seed": rng.getrandbits(30), "_k": kind}
        if kind == "name":
            name = rng.choice(NAMES)
            if name in ("..",):
                name = "dd"
            fmt = rng.choice(["xz", "xz", "lzma"])
            custom = rng.choice([None, None, ".foo", "z", ".x", "xz", ".tar", "_suf", ".lzma"])
            args = ["--format=" + fmt] + (["-S", custom] if custom else [])
            c["files"] = [{"name": name, "class": "text", "len": rng.choice([0, 50, 3000]), "seed": rng.getrandbits(30)}]
            c["args"] = args + ["--", name]
            tgt = model_compressed(name, fmt, custom)
            c["_name"] = name; c["_fmt"] = fmt; c["_custom"] = custom; c["_target"] = tgt
            if tgt is not None:
                c["then"] = ["-d"] + (["-S", custom] if custom else []) + ["--", tgt]
        elif kind == "overwrite":
            force = rng.random() < 0.5
            dirn = rng.choice(["c", "d"])
            if dirn == "c":
                c["files"] = [{"name": "f.txt", "class": "text", "len": 2000, "seed": rng.getrandbits(30)}, {"name": "f.txt.xz", "class": "random", "len": 77, "seed": 3}]
                c["args"] = (["-f"] if force else []) + ["f.txt"]
            else:
                c["files"] = [{"name": "f.txt.xz", "class": "text", "len": 2000, "seed": rng.getrandbits(30), "compress_args": ["-0"]}, {"name": "f.txt", "class": "random", "len": 77, "seed": 3}]
                c["args"] = ["-d"] + (["-f"] if force else []) + ["f.txt.xz"]
            c["_force"] = force; c["_dir"] = dirn
        elif kind == "special":
            what = rng.choice(["dir", "fifo", "symlink", "hardlink", "setuid", "setgid", "sticky"])
            flag = rng.choice([[], ["-f"], ["-k"], ["-c"]])
            if what == "fifo" and flag == ["-c"]:
                flag = []   # with --stdout a FIFO is a legitimate source (xz reads from it like from a pipe)
            c["_what"] = what; c["_flag"] = flag
            c["files"] = [{"name": "real.txt", "class": "text", "len": 1500, "seed": rng.getrandbits(30)}]
            target = "real.txt"
            if what == "dir":
                c["specials"] = [{"name": "sub", "kind": "dir"}]; target = "sub"
            elif what == "fifo":
                c["specials"] = [{"name": "pipe", "kind": "fifo"}]; target = "pipe"
            elif what == "symlink":
                c["links"] = [{"name": "lnk.txt", "kind": "sym", "target": "real.txt"}]; target = "lnk.txt"
            elif what == "hardlink":
                c["links"] = [{"name": "hard.txt", "kind": "hard", "target": "real.txt"}]; target = "hard.txt"
            else:
                c["files"][0]["mode"] = {"setuid": 0o4755, "setgid": 0o2755, "sticky": 0o1644}[what]
            c["_arg"] = target
            c["args"] = flag + [target]
            if what == "fifo":
                c["timeout"] = 10
        elif kind == "meta":
            mode = rng.choice([0o644, 0o600, 0o640, 0o604, 0o664, 0o666, 0o400, 0o755, 0o750, 0o705, 0o777, 0o444, 0o000 | 0o400])
            owner = rng.choice([None, (1234, 5678), (0, 5678), (1234, 0)])
            c["files"] = [{"name": "m.txt", "class": "text", "len": 2500, "seed": rng.getrandbits(30), "mode": mode, "mtime": rng.choice([1000000000, 1234567890, 86400 * 365 * 40]), "mtime_nsec": rng.choice([0, 1, 123456789, 999999999]), "atime_nsec": rng.choice([0, 987654321, 5]), "owner": owner}]
            c["args"] = ["m.txt"]
            f = rng.random()
            if f < 0.25:
                c["faults"] = ["f fchown dest 2 errno %d" % errno.EPERM]      # the group cannot be set
            elif f < 0.35:
                c["faults"] = ["f fchown dest 1 errno %d" % errno.EPERM]
            elif f < 0.45:
                c["faults"] = ["f fchmod dest 1 errno %d" % errno.EPERM]
            elif f < 0.55:
                c["faults"] = ["f futimens dest 1 errno %d" % errno.EPERM]
            elif f < 0.65:
                c["faults"] = ["euid 1000", "f fchown dest 1 errno %d" % errno.EPERM, "f fchown dest 2 errno %d" % errno.EPERM]
            c["_mode"] = mode; c["_owner"] = owner
        elif kind == "keep":
            flag = rng.choice(["-k", "-c"])
            dirn = rng.choice(["c", "d"])
            if dirn == "c":
                c["files"] = [{"name": "k.txt", "class": "text", "len": 900, "seed": rng.getrandbits(30)}]; c["args"] = [flag, "k.txt"]
            else:
                c["files"] = [{"name": "k.txt.xz", "class": "text", "len": 900, "seed": rng.getrandbits(30), "compress_args": ["-0"]}]; c["args"] = ["-d", flag, "k.txt.xz"]
            c["_flag"] = flag; c["_dir"] = dirn
        else:  # status
            what = rng.choice(["ok", "warn", "warn-quiet", "error", "missing", "mixed"])
            c["_what"] = what
            good = {"name": "g.txt", "class": "text", "len": 800, "seed": rng.getrandbits(30)}
            if what == "ok":
                c["files"] = [good]; c["args"] = ["g.txt"]
            elif what in ("warn", "warn-quiet"):
                c["files"] = [good, {"name": "w.xz", "class": "text", "len": 10, "seed": 1}]; c["args"] = (["-Q"] if what == "warn-quiet" else []) + ["g.txt", "w.xz"]
            elif what == "error":
                c["files"] = [{"name": "bad.xz", "class": "random", "len": 300, "seed": 2}]; c["args"] = ["-d", "bad.xz"]
            elif what == "missing":
                c["files"] = [good]; c["args"] = ["nonexistent", "g.txt"]
            else:
                c["files"] = [good, {"name": "w.xz", "class": "text", "len": 10, "seed": 1}, {"name": "bad2.xz", "class": "random", "len": 300, "seed": 2}]; c["args"] = ["-d", "bad2.xz", "w.xz"]
                c["args"] = ["w.xz", "g.txt", "nonexistent"]
        out.append(c)
    return out


def judge_c19(case, res):
    k = case["_k"]
    feats = ["c19|" + k]
    counters = {"runs.total": 1, "kind." + k: 1}
    tree, orig, rc = res["tree"], res["orig"], res["rc"]
    ctx = " [%s: xz %s -> exit %s]\nstderr: %s" % (case["kind"], " ".join(repr(a) for a in case["args"]), rc, res["stderr"][-400:])

    def viol(cls, msg):
        return {"cls": cls, "sig": "C19/" + cls, "msg": msg + ctx}, feats, counters
    if rc == -999:
        if k == "special" and case["_what"] == "fifo":
            return viol("hang", "xz blocked on a FIFO instead of skipping it")
        return viol("hang", "xz did not terminate")
    if k == "name":
        name, tgt = case["_name"], case["_target"]
        feats.append("name|%s|%s|%s" % (name[:12], case["_fmt"], case["_custom"]))
        s2 = res["step2"]
        if tgt is None:
            # already has the suffix: skipped with a warning, left untouched
            if rc != 2 or name not in tree or tree[name].get("data") != orig[name] or len(tree) != 1:
                return viol("suffix-skip", "a name that already carries the target suffix must be skipped with a warning (exit 2) and left untouched")
            return None, feats, counters
        t1 = s2["tree1"] if s2 else tree
        if rc != 0 or tgt not in t1 or name in t1 or len(t1) != 1:
            return viol("target-name", "compressing %r should create exactly %r; directory after the first step: %r" % (name, tgt, sorted(t1)))
        back = model_uncompressed(tgt, case["_custom"])
        custom = case["_custom"]
        if back is None:
            if s2["rc"] != 2 or tgt not in tree:
                return viol("unknown-suffix", "decompressing %r (no known suffix) must be skipped with a warning" % tgt)
            return None, feats, counters
        if s2["rc"] != 0 or back not in tree or len(tree) != 1 or tree[back].get("data") != orig[name]:
            return viol("name-inverse", "decompressing %r should give %r with the original content; directory now: %r, exit %s, stderr %s" % (tgt, back, sorted(tree), s2["rc"], s2["stderr"][-200:]))
        # invertibility, except the documented precedence of a longer built-in suffix
        if back != name:
            dotless = custom is not None and not custom.startswith(".")
            builtin_hit = any(has_suffix(tgt, s) for s, _ in BUILTIN_DEC)
            if not (custom is not None and builtin_hit):
                return viol("not-invertible", "%r -> %r -> %r" % (name, tgt, back))
            counters["reach.builtin_suffix_precedence"] = 1
            feats.append("precedence|%s" % dotless)
        return None, feats, counters
    if k == "overwrite":
        src, dst = ("f.txt", "f.txt.xz") if case["_dir"] == "c" else ("f.txt.xz", "f.txt")
        feats.append("overwrite|%s|%s" % (case["_dir"], case["_force"]))
        if not case["_force"]:
            if tree.get(dst, {}).get("data") != orig[dst]:
                return viol("overwrote-existing", "an existing target was overwritten without --force")
            if tree.get(src, {}).get("data") != orig[src]:
                return viol("source-touched", "the source was changed although the operation was refused")
            if rc != 1:
                return viol("exit-status", "refusing to overwrite is an error (exit 1)")
        else:
            if rc != 0 or src in tree or dst not in tree or tree[dst]["data"] == orig[dst]:
                return viol("force-failed", "--force did not replace the existing target")
        return None, feats, counters
    if k == "special":
        what, flag, arg = case["_what"], case["_flag"], case["_arg"]
        feats.append("special|%s|%s" % (what, "".join(flag)))
        new = [n for n in tree if n not in ("real.txt", "sub", "pipe", "lnk.txt", "hard.txt")]
        real_ok = tree.get("real.txt", {}).get("data") == orig["real.txt"]
        if what in ("dir", "fifo"):
            if new or not real_ok or rc != 2 or (flag == ["-c"] and res["stdout"]):
                return viol("non-regular-source", "a non-regular source (%s) must be skipped with a warning, writing nothing" % what)
            return None, feats, counters
        allowed = flag in (["-f"], ["-k"], ["-c"])   # --force, and since 5.2.6 --keep/--stdout
        if not allowed:
            if new or not real_ok or rc != 2 or arg not in tree:
                return viol("unsafe-source-processed", "without --force/--keep a %s must be skipped with a warning and left alone; new files %r" % (what, new))
            return None, feats, counters
        if rc != 0:
            return viol("exit-status", "processing a %s with %s should succeed" % (what, flag))
        if flag == ["-c"]:
            if new or not real_ok:
                return viol("stdout-touched-files", "--stdout must not create or remove files")
            return None, feats, counters
        tgt = arg + ".xz"
        if tgt not in tree:
            return viol("target-missing", "target %r missing" % tgt)
        m = tree[tgt]["mode"]
        if m & 0o7000:
            return viol("special-bits-copied", "setuid/setgid/sticky bits were copied to the target (mode %o)" % m)
        if flag == ["-k"] and (arg not in tree or not real_ok):
            return viol("source-removed-despite-keep", "--keep removed the source")
        if not real_ok and what in ("symlink", "hardlink") and "real.txt" not in tree and flag != ["-f"]:
            return viol("data-loss", "the linked file disappeared")
        return None, feats, counters
    if k == "meta":
        mode, owner = case["_mode"], case["_owner"]
        fault = case["faults"][-1].split()[1:3] if case["faults"] else ["none", ""]
        feats.append("meta|%o|%s|%s" % (mode, owner is not None, "-".join(case["faults"])[:40]))
        tgt = tree.get("m.txt.xz")
        if tgt is None or "m.txt" in tree:
            return viol("meta-failed", "compression did not complete")
        tm = stat.S_IMODE(tgt["mode"])
        if tm & 0o7000:
            return viol("special-bits-copied", "special bits on the target: %o" % tm)
        gid_failed = any(f.startswith("f fchown dest 2") for f in case["faults"])
        fchmod_failed = any(f.startswith("f fchmod") for f in case["faults"])
        # (when fchmod itself fails the file keeps the owner-only mode it was created
        # with; group and others still never get more than the source gave them)
        if tm & ~mode & (0o077 if fchmod_failed else 0o777):
            return viol("mode-broader", "target mode %o is broader than the source mode %o" % (tm, mode))
        src_gid = owner[1] if owner else 0
        if not fchmod_failed:
            if gid_failed and src_gid != 0:
                want = (mode & 0o700) | ((((mode & 0o070) >> 3) & (mode & 0o007)) * 0o11)
                if tm != want:
                    return viol("mode-restricted", "group could not be set: target mode should be %o, is %o (source %o)" % (want, tm, mode))
            elif tm != (mode & 0o777):
                return viol("mode-not-copied", "target mode %o, source mode %o" % (tm, mode))
        if owner and not case["faults"]:
            if (tgt["uid"], tgt["gid"]) != owner:
                return viol("owner-not-copied", "target owner %s:%s, source %s:%s" % (tgt["uid"], tgt["gid"], owner[0], owner[1]))
        if not any(f.startswith("f futimens") for f in case["faults"]):
            want_m = case["files"][0]["mtime"]
            if tgt["mtime"] != want_m:
                return viol("mtime-not-copied", "target mtime %s, source mtime %s" % (tgt["mtime"], want_m))
            want_ns = want_m * 10**9 + case["files"][0].get("mtime_nsec", 0)
            if tgt.get("mtime_ns") != want_ns:
                return viol("mtime-not-copied", "target mtime %s ns, source mtime %s ns" % (tgt.get("mtime_ns"), want_ns))
        if rc not in (0, 2):
            return viol("exit-status", "metadata problems are warnings at most")
        if not case["faults"] and rc != 0:
            return viol("exit-status", "no fault but exit %s" % rc)
        return None, feats, counters
    if k == "keep":
        src = "k.txt" if case["_dir"] == "c" else "k.txt.xz"
        feats.append("keep|%s|%s" % (case["_flag"], case["_dir"]))
        if rc != 0 or tree.get(src, {}).get("data") != orig[src]:
            return viol("source-removed-despite-keep", "%s must never remove or change the source" % case["_flag"])
        if case["_flag"] == "-c" and len(tree) != 1:
            return viol("stdout-touched-files", "--stdout created files: %r" % sorted(tree))
        return None, feats, counters
    # status
    what = case["_what"]
    feats.append("status|" + what)
    want = {"ok": 0, "warn": 2, "warn-quiet": 0, "error": 1, "missing": 1, "mixed": 1}[what]
    if rc != want:
        return viol("exit-status", "scenario %s: exit status %s, expected %s (0 nothing, 1 error, 2 warning only)" % (what, rc, want))
    return None, feats, counters
