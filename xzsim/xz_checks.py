"""Checks served by the xzsim engine: C17 (xz never loses user data), C18 (the
tools deliver the library's decoding whatever the sink), C19 (naming,
overwrite protection, metadata)."""
import errno
import json
import os
import random
import re
import signal
import sys
import time

import xzsim
from xzsim import V, log

sys.path.insert(0, os.path.join(V, "bin"))

SIGNALS = {"INT": signal.SIGINT, "TERM": signal.SIGTERM, "HUP": signal.SIGHUP, "PIPE": signal.SIGPIPE}


# =====================================================================
# C17
# =====================================================================
def c17_scenes(rng, thorough):
    """Seed-chosen scenes. Each scene: case dict with '_pairs' describing what
    xz is asked to replace by what."""
    scenes = []
    classes = ["text", "sparse", "random", "zeros"]

    def f(name, cls=None, n=None, **kw):
        d = {"name": name, "class": cls or rng.choice(classes), "len": n if n is not None else rng.choice([0, 1, 700, 9000, 30000, 100000]), "seed": rng.getrandbits(30)}
        d.update(kw)
        return d

    def add(kind, files, args, pairs, **kw):
        c = {"kind": kind, "files": files, "args": args, "_pairs": pairs, "sched_seed": rng.getrandbits(30),
             "sched_preempt": rng.choice([50, 300, 900]), "sched_strategy": rng.choice([0, 1, 2])}
        c.update(kw)
        scenes.append(c)

    blk = rng.choice([4096, 20000, 65536])
    # compress
    add("compress", [f("a.txt")], ["a.txt"], [{"src": "a.txt", "dst": "a.txt.xz", "dir": "c"}])
    add("compress-T4", [f("b.bin", n=rng.choice([30000, 120000]))], ["-T4", "--block-size=%d" % blk, "b.bin"], [{"src": "b.bin", "dst": "b.bin.xz", "dir": "c"}])
    add("compress-keep", [f("k.txt")], ["-k", "k.txt"], [{"src": "k.txt", "dst": "k.txt.xz", "dir": "c", "keep": True}])
    add("compress-force", [f("o.txt"), f("o.txt.xz", cls="text", n=333)], ["-f", "o.txt"], [{"src": "o.txt", "dst": "o.txt.xz", "dir": "c", "force": True}])
    add("compress-nosync", [f("n.txt")], ["--no-sync", "n.txt"], [{"src": "n.txt", "dst": "n.txt.xz", "dir": "c", "nosync": True}])
    add("compress-lzma", [f("l.txt")], ["--format=lzma", "l.txt"], [{"src": "l.txt", "dst": "l.txt.lzma", "dir": "c", "fmt": "lzma"}])
    add("compress-existing", [f("e.txt"), f("e.txt.xz", cls="text", n=200)], ["e.txt"], [{"src": "e.txt", "dst": "e.txt.xz", "dir": "c", "blocked": True}])
    # decompress
    add("decompress", [f("d.txt.xz", compress_args=["-1"])], ["-d", "d.txt.xz"], [{"src": "d.txt.xz", "dst": "d.txt", "dir": "d"}])
    add("decompress-T4", [f("m.bin.xz", n=rng.choice([40000, 150000]), compress_args=["-0", "-T2", "--block-size=%d" % blk])], ["-d", "-T4", "m.bin.xz"], [{"src": "m.bin.xz", "dst": "m.bin", "dir": "d"}])
    add("decompress-sparse", [f("s.img.xz", cls="sparse", n=rng.choice([50000, 200000]), compress_args=["-0"])], ["-d", "s.img.xz"], [{"src": "s.img.xz", "dst": "s.img", "dir": "d"}])
    add("decompress-sparse-tail", [f("h.img.xz", cls="sparse_tail", n=rng.choice([30000, 90000, 200000]), compress_args=["-0"])], ["-d", "h.img.xz"], [{"src": "h.img.xz", "dst": "h.img", "dir": "d"}])
    add("decompress-keep", [f("q.txt.xz", compress_args=["-0"])], ["-dk", "q.txt.xz"], [{"src": "q.txt.xz", "dst": "q.txt", "dir": "d", "keep": True}])
    add("decompress-corrupt", [f("c.txt.xz", n=20000, compress_args=["-0"], corrupt_seed=rng.getrandbits(20) + 1)], ["-d", "c.txt.xz"], [{"src": "c.txt.xz", "dst": "c.txt", "dir": "d", "invalid": True}])
    add("decompress-truncated", [f("t.txt.xz", n=20000, compress_args=["-0"], truncate=rng.choice([0.3, 0.9, 0.99]))], ["-d", "t.txt.xz"], [{"src": "t.txt.xz", "dst": "t.txt", "dir": "d", "invalid": True}])
    add("two-files-one-bad", [f("x.txt.xz", n=9000, compress_args=["-0"], corrupt_seed=rng.getrandbits(20) + 1), f("y.txt.xz", n=9000, compress_args=["-0"])], ["-d", "x.txt.xz", "y.txt.xz"],
        [{"src": "x.txt.xz", "dst": "x.txt", "dir": "d", "invalid": True}, {"src": "y.txt.xz", "dst": "y.txt", "dir": "d"}])
    # several files in one run: whatever happens to one must not leak into the next
    add("compress-two", [f("g.bin", cls="random", n=rng.choice([20000, 70000])), f("h.txt", cls="text", n=rng.choice([700, 9000, 30000]))], ["-T1", "g.bin", "h.txt"],
        [{"src": "g.bin", "dst": "g.bin.xz", "dir": "c"}, {"src": "h.txt", "dst": "h.txt.xz", "dir": "c"}])
    add("compress-three-lzma", [f("u.bin", cls="random", n=30000), f("v.txt", cls="text", n=9000), f("w.bin", cls="sparse", n=40000)], ["--format=lzma", "u.bin", "v.txt", "w.bin"],
        [{"src": "u.bin", "dst": "u.bin.lzma", "dir": "c", "fmt": "lzma"}, {"src": "v.txt", "dst": "v.txt.lzma", "dir": "c", "fmt": "lzma"}, {"src": "w.bin", "dst": "w.bin.lzma", "dir": "c", "fmt": "lzma"}])
    add("decompress-two-good", [f("r1.bin.xz", cls="random", n=40000, compress_args=["-0"]), f("r2.txt.xz", cls="text", n=9000, compress_args=["-0"])], ["-d", "r1.bin.xz", "r2.txt.xz"],
        [{"src": "r1.bin.xz", "dst": "r1.bin", "dir": "d"}, {"src": "r2.txt.xz", "dst": "r2.txt", "dir": "d"}])
    # an operand that only earns a warning (a directory) next to the real work, with --no-warn: a failure
    # elsewhere in the same run must still give a non-zero exit status
    add("decompress-corrupt-warn-Q", [f("z.txt.xz", n=20000, compress_args=["-0"], corrupt_seed=rng.getrandbits(20) + 1)], ["-dQ"] + rng.choice([["z.txt.xz", "zdir"], ["zdir", "z.txt.xz"]]),
        [{"src": "z.txt.xz", "dst": "z.txt", "dir": "d", "invalid": True}], specials=[{"name": "zdir", "kind": "dir"}])
    add("compress-warn-Q", [f("j.bin", cls="random", n=30000)], ["-Q"] + rng.choice([["j.bin", "jdir"], ["jdir", "j.bin"]]),
        [{"src": "j.bin", "dst": "j.bin.xz", "dir": "c"}], specials=[{"name": "jdir", "kind": "dir"}])
    add("compress-stdout", [f("p.txt")], ["-c", "p.txt"], [{"src": "p.txt", "dst": None, "dir": "c", "keep": True}], stdout="file")
    add("stdin-stdout", [f("i.txt")], [], [{"src": "i.txt", "dst": None, "dir": "c", "keep": True}], stdin_file="i.txt", stdout="file")
    rng.shuffle(scenes)
    return scenes


DATA_CALLS = {("read", "src"), ("write", "dest"), ("lseek", "dest"), ("fsync", "dest"), ("fsync", "dir"), ("close", "dest"), ("open", "dest"),
              ("open", "src"), ("read", "stdin"), ("write", "stdout"), ("open", "dir")}
ERRNOS = {"read": [errno.EIO], "write": [errno.EIO, errno.ENOSPC, errno.EPIPE], "lseek": [errno.EINVAL], "fsync": [errno.EIO], "close": [errno.EIO],
          "open": [errno.EACCES, errno.ENOSPC], "unlink": [errno.EACCES, errno.EBUSY], "fchown": [errno.EPERM], "fchmod": [errno.EPERM],
          "futimens": [errno.EPERM]}
# Not injected: failures of fstat/lstat/stat on descriptors and names xz has
# just opened, and of pipe()/poll() - the property speaks of read, write,
# seek, sync and close; xz treats a failing fstat(target) as "cannot verify
# the file identity" and then deliberately refuses to unlink.


def c17_fault_cases(scene, ref_events, rng, thorough):
    """Single-fault space of a scene, derived from its fault-free event log."""
    cases = []
    K = len(ref_events)

    def mk(faults, tag):
        c = dict(scene)
        c["faults"] = faults
        c["_tag"] = tag
        return c
    # process death before every call, and after the last one
    for k in range(1, K + 2):
        cases.append(mk(["at %d exit" % k], "kill"))
    # a termination signal before every call
    signames = list(SIGNALS)
    for k in range(1, K + 2):
        s = signames[k % 4] if not thorough else None
        for name in ([s] if s else signames):
            cases.append(mk(["at %d signal %d" % (k, SIGNALS[name])], "signal"))
    # call-specific faults: (call, role, nth)
    seen = {}
    for e in ref_events:
        key = (e["call"], e["role"])
        seen[key] = seen.get(key, 0) + 1
        nth = seen[key]
        call, role = key
        for en in ERRNOS.get(call, []):
            cases.append(mk(["f %s %s %d errno %d" % (call, role, nth, en)], "errno"))
        if call in ("read", "write"):
            m = re.match(r"(\d+)", e["arg"])
            n = int(m.group(1)) if m else 0
            if n >= 2:
                cases.append(mk(["f %s %s %d short %d" % (call, role, nth, rng.choice([1, n // 2, n - 1]))], "short"))
            cases.append(mk(["f %s %s %d eintr %d" % (call, role, nth, SIGNALS[rng.choice(signames)])], "eintr"))
    return cases


def c17_multi_fault_cases(scene, ref_events, rng, n):
    cases = []
    K = len(ref_events)
    keys = []
    seen = {}
    for e in ref_events:
        key = (e["call"], e["role"])
        seen[key] = seen.get(key, 0) + 1
        keys.append((e["call"], e["role"], seen[key], e))
    for _ in range(n):
        faults = []
        for _ in range(rng.choice([2, 2, 3])):
            r = rng.random()
            if r < 0.15:
                faults.append("at %d exit" % rng.randint(1, K + 1))
            elif r < 0.35:
                faults.append("at %d signal %d" % (rng.randint(1, K + 1), SIGNALS[rng.choice(list(SIGNALS))]))
            else:
                call, role, nth, e = rng.choice(keys)
                if call in ("read", "write") and rng.random() < 0.5:
                    faults.append("f %s %s %d short %d" % (call, role, nth, rng.choice([1, 2, 100, 4000])))
                elif call in ERRNOS:
                    faults.append("f %s %s %d errno %d" % (call, role, nth, rng.choice(ERRNOS[call])))
        c = dict(scene)
        c["faults"] = faults
        c["_tag"] = "multi"
        cases.append(c)
    return cases


def fired_faults(events):
    out = []
    for e in events:
        m = re.search(r"FAULT:(\w+)", e["note"])
        if m:
            out.append((m.group(1), e))
    return out


def pair_state(pair, res, case):
    tree, orig = res["tree"], res["orig"]
    src, dst = pair["src"], pair["dst"]
    plain = None
    for f in case["files"]:
        if f["name"] == src:
            plain = xzsim.gen_content(f["class"], f["len"], f["seed"])
    src_ok = src in tree and tree[src].get("data") == orig[src]
    if dst is None:
        return src_ok, "none", plain
    if dst not in tree:
        return src_ok, "absent", plain
    data = tree[dst].get("data")
    if pair.get("blocked"):
        return src_ok, ("untouched" if data == orig.get(dst) else "bad"), plain
    if pair["dir"] == "c":
        ok = data is not None and xzsim.decodes_to(data, plain, pair.get("fmt", "auto"))
    else:
        ok = data == plain
    if ok:
        return src_ok, "complete", plain
    if pair.get("force") and data == orig.get(dst):
        return src_ok, "old", plain   # the old target is still there: nothing was replaced yet
    return src_ok, "bad", plain


def judge_c17(case, res):
    ev = res["events"]
    fired = fired_faults(ev)
    kinds = [k for k, _ in fired]
    killed = "exit" in kinds
    rc = res["rc"]
    feats = []
    counters = {"runs.total": 1}
    for k, e in fired:
        counters["fault.%s_%s_%s" % (k, e["call"], e["role"])] = counters.get("fault.%s_%s_%s" % (k, e["call"], e["role"]), 0) + 1
        feats.append("%s|%s|%s|%s" % (case["kind"], e["call"], e["role"], k))
    if not fired and case.get("faults"):
        counters["runs.fault_not_fired"] = 1
    ctx = " [scene %s, args %s, faults %s, exit %s]" % (case["kind"], " ".join(case["args"]), case.get("faults"), rc)

    def viol(cls, msg):
        return {"cls": cls, "sig": "C17/" + cls, "msg": msg + ctx + "\nstderr: " + res["stderr"][-400:]}, feats, counters

    if rc == -999:
        return viol("hang", "xz did not terminate within the time limit")
    failing_data = False
    meta_fail = False
    unlink_fail = False
    signalled = False
    specials = {"path=" + sp["name"] for sp in case.get("specials", [])}
    for k, e in fired:
        if k in ("errno", "eagain"):
            if any(e["arg"].endswith(sp) for sp in specials):
                continue   # the fault hit an operand that is only skipped with a warning anyway (a directory)
            if (e["call"], e["role"]) in DATA_CALLS:
                failing_data = True
            elif e["call"] in ("fchown", "fchmod", "futimens"):
                meta_fail = True
            elif e["call"] == "unlink":
                # removing the old target under --force is part of the
                # operation; removing the source afterwards is not
                if any(e["arg"] == "path=" + p["dst"] for p in case["_pairs"] if p["dst"]):
                    failing_data = True
                else:
                    unlink_fail = True
        if k.startswith("signal") or k == "eintr":
            signalled = True
    for pair in case["_pairs"]:
        src_ok, tstate, plain = pair_state(pair, res, case)
        where = " [pair %s -> %s: source %s, target %s]" % (pair["src"], pair["dst"], "intact" if src_ok else "GONE/CHANGED", tstate)
        # R1: nothing is ever lost
        if not src_ok and tstate not in ("complete",):
            return viol("data-loss", "the source is gone or changed and no complete valid target exists" + where)
        if pair.get("keep") and not src_ok:
            return viol("source-removed-despite-keep", "--keep/--stdout but the source was removed or changed" + where)
        if pair.get("blocked") and tstate != "untouched":
            return viol("overwrote-existing", "an existing target was overwritten without --force" + where)
        # R2: a self-terminating xz leaves no partial target behind
        unlink_dst_failed = any(k == "errno" and e["call"] == "unlink" and e["arg"] == "path=%s" % pair["dst"] for k, e in fired)
        if not killed and tstate == "bad" and not unlink_dst_failed:
            return viol("partial-target-left", "xz ended (exit status %s) and left an incomplete or invalid target behind" % rc + where)
        if pair.get("invalid") and tstate == "complete" and not killed and not unlink_dst_failed:
            return viol("target-from-invalid-input", "a target was created from invalid input" + where)
        if pair.get("invalid") and not killed and rc == 0:
            return viol("invalid-input-success", "exit status 0 although the input is invalid" + where)
        # R4: order of the history - the source is unlinked only after the
        # target is written, attributed, synced and closed
        if pair["dst"] is not None and not pair.get("keep"):
            un = [i for i, e in enumerate(ev) if e["call"] == "unlink" and e["arg"] == "path=" + pair["src"] and e["ret"] == "0"]
            if un:
                before = ev[:un[0]]
                opens = [i for i, e in enumerate(before) if e["call"] == "open" and e["role"] == "dest" and e["arg"].endswith("path=" + pair["dst"]) and e["ret"] != "-1"]
                fd = before[opens[-1]]["fd"] if opens else None
                # descriptor numbers are reused: only events after this open count
                mine = [e for e in before[opens[-1]:] if e["fd"] == fd and e["role"] == "dest"] if opens else []
                before = before[opens[-1]:] if opens else before
                closed_ok = any(e["call"] == "close" and e["ret"] == "0" for e in mine)
                bad_write = any(e["call"] == "write" and e["ret"] == "-1" and e["errno"] not in (errno.EINTR, errno.EAGAIN) for e in mine)
                synced = any(e["call"] == "fsync" and e["ret"] == "0" for e in mine)
                dir_synced = any(e["call"] == "fsync" and e["role"] == "dir" and e["ret"] == "0" for e in before)
                sync_failed = any(e["call"] == "fsync" and e["ret"] == "-1" for e in before if e["role"] in ("dest", "dir"))
                attrs = all(any(e["call"] == c for e in mine) for c in ("fchmod",))
                if fd is None or not closed_ok or bad_write or sync_failed or not attrs or (not pair.get("nosync") and not (synced and dir_synced)):
                    return viol("unlink-before-commit", "the source was unlinked before the target was completely written, attributed, synced (%s/%s) and closed (%s)" % (synced, dir_synced, closed_ok) + where)
                # (the descriptor number is reused for the next file's target: stop at the next open that returns it)
                tail = ev[un[0]:]
                for k, e in enumerate(tail):
                    if e["call"] == "open" and e["ret"] == fd:
                        tail = tail[:k]
                        break
                later_writes = [e for e in tail if e["call"] == "write" and e["role"] == "dest" and e["fd"] == fd]
                if later_writes:
                    return viol("unlink-before-commit", "target written after the source was unlinked" + where)
        # R3: a failing data-path fault must roll back and be reported
        if failing_data and not killed and not signalled and len(case["_pairs"]) == 1:
            if rc == 0:
                return viol("failure-not-reported", "an I/O failure was injected on the data path but xz exited with status 0" + where)
            if not src_ok:
                return viol("data-loss", "I/O failure: the source was removed" + where)
            if tstate == "complete" and pair["dst"] is not None and not unlink_dst_failed:
                # e.g. fsync/close failed after all bytes were written: the file
                # content is complete but must not be trusted; xz has to remove it
                return viol("unsynced-target-kept", "an I/O failure on the data path left the new target in place" + where)
        if not fired and not case.get("faults") and not pair.get("invalid") and not pair.get("blocked"):
            # fault-free reference run: must be committed
            want_rc = 1 if any(p.get("invalid") for p in case["_pairs"]) else 0
            if rc != want_rc or (pair["dst"] is not None and tstate != "complete") or (not pair.get("keep") and src_ok):
                return viol("reference-run", "fault-free run did not commit (exit %s)" % rc + where)
        if kinds and all(k == "short" for k in kinds) and not pair.get("invalid") and not pair.get("blocked"):
            # benign perturbation: same result as without
            if rc != (1 if any(p.get("invalid") for p in case["_pairs"]) else 0) or (pair["dst"] is not None and tstate != "complete") or (not pair.get("keep") and src_ok):
                return viol("benign-fault-changed-result", "a short read/write changed the outcome (exit %s)" % rc + where)
        if (meta_fail or unlink_fail) and not failing_data and not killed and not signalled and not pair.get("invalid") and not pair.get("blocked"):
            if pair["dst"] is not None and tstate != "complete":
                return viol("metadata-failure-lost-target", "a metadata/unlink failure must leave a complete target" + where)
            if rc not in (0, 1, 2):
                return viol("exit-status", "unexpected exit status %s" % rc + where)
        if signalled and not killed:
            rolled_back = src_ok and tstate in ("absent", "none", "old", "untouched")
            if rolled_back and rc == 0 and pair["dst"] is not None and not pair.get("blocked") and len(case["_pairs"]) == 1:
                return viol("signal-ignored", "a termination signal rolled the operation back but the exit status is 0" + where)
    # stdout target scenes: what was written is either everything or xz failed
    if case.get("stdout") == "file" and not killed:
        plain = None
        for f in case["files"]:
            if f["name"] == case["_pairs"][0]["src"]:
                plain = xzsim.gen_content(f["class"], f["len"], f["seed"])
        if rc == 0 and not xzsim.decodes_to(res["stdout"], plain):
            return viol("stdout-incomplete-success", "exit status 0 but standard output does not hold the complete compressed data")
    counters["outcome.rc_%s" % (rc if rc >= 0 else "sig%d" % -rc)] = 1
    return None, feats, counters


# =====================================================================
# C18
# =====================================================================
DICT_SIZES = ["4KiB", "6KiB", "12KiB", "64KiB", "96KiB", "65537", "100000", "1MiB", "1536KiB", "3MiB", "5MiB", "2200000"]


def c18_cases(rng, n, thorough):
    cases = []
    classes = ["text", "sparse", "random", "zeros", "sparse", "sparse_tail"]
    for i in range(n):
        cls = rng.choice(classes)
        ln = rng.choice([0, 1, 100, 8191, 8192, 8193, 16384, 30000, 100000, 250000])
        if cls in ("sparse", "sparse_tail"):
            ln = rng.choice([8192, 16385, 70000, 200000, 400000])
        fmt = rng.choice(["xz", "xz", "xz", "lzma"])
        cargs = [rng.choice(["-0", "-1", "-2"])]
        if fmt == "lzma":
            cargs.append("--format=lzma")
            # every dictionary size the .lzma header can hold in xz's own files: 2^n and 2^n + 2^(n-1)
            if rng.random() < 0.7:
                cargs.append("--lzma1=preset=0,dict=%s,lc=%d,lp=%d,pb=%d" % (rng.choice(DICT_SIZES), *rng.choice([(3, 0, 2), (0, 0, 0), (4, 0, 4), (0, 4, 2), (1, 2, 3)])))
        elif rng.random() < 0.25:
            cargs.append("--lzma2=preset=0,dict=%s" % rng.choice(DICT_SIZES))
        elif rng.random() < 0.5:
            cargs += ["-T2", "--block-size=%d" % rng.choice([5000, 40000])]
        elif rng.random() < 0.3:
            cargs += ["--check=%s" % rng.choice(["none", "crc32", "sha256"])]
        f = {"name": "in." + fmt, "class": cls, "len": ln, "seed": rng.getrandbits(30), "compress_args": cargs}
        if rng.random() < 0.12:
            # compressed size exactly at / next to a multiple of the 8 KiB I/O buffers (end of file seen on a buffer boundary)
            k = rng.choice([1, 2, 3])
            f.update({"class": "random", "len": 8192 * k, "target_csize": 8192 * k + rng.choice([0, 0, 0, -1, 1, 4, -4])})
        dmg = rng.random()
        if dmg < 0.2:
            f["corrupt_seed"] = rng.getrandbits(20) + 1
        elif dmg < 0.3:
            f["truncate"] = rng.choice([0.2, 0.7, 0.97])
        toolname = rng.choice(["xz", "xz", "xz", "xzdec"]) if fmt == "xz" else rng.choice(["xz", "xz", "lzmadec"])
        mode = rng.choice(["dc", "dc", "d", "t"]) if toolname == "xz" else "dc"
        threads = rng.choice([1, 1, 2, 4]) if toolname == "xz" else None
        args = []
        if toolname == "xz":
            args = ["-" + mode, "-T%d" % threads]
            if rng.random() < 0.2:
                args.append("--no-sparse")
            if rng.random() < 0.15:
                args.append("--single-stream")
        sink = rng.choice(["pipe", "file", "file_append", "file_offset"]) if mode == "dc" else "pipe"
        c = {"kind": "c18", "tool": toolname, "files": [f], "args": args + ["in." + fmt], "stdout": sink, "stdout_prefix": rng.choice([0, 1, 4095, 8192]),
             "sched_seed": rng.getrandbits(30), "sched_preempt": rng.choice([50, 300, 900]), "sched_strategy": rng.choice([0, 1, 2]), "_mode": mode, "_fmt": fmt,
             "_single": "--single-stream" in args}
        if toolname != "xz":
            c["args"] = ["in." + fmt]
        elif mode == "dc" and rng.random() < 0.2:
            # standard input to standard output, with or without -c (xz writes to stdout either way)
            c["args"] = [rng.choice(["-d", "-dc"])] + [a for a in args if a.startswith(("-T", "--no-sparse", "--single"))]
            c[rng.choice(["stdin_file", "stdin_pipe_from"])] = "in." + fmt
        # benign I/O perturbation: short reads and writes at random calls
        faults = []
        for _ in range(rng.choice([0, 0, 1, 3, 6])):
            faults.append("f %s %s %d short %d" % (rng.choice(["read", "write"]), rng.choice(["src", "stdout", "dest"]), rng.randint(1, 12), rng.choice([1, 2, 511, 4096, 8191])))
        c["faults"] = faults
        # concatenated input now and then
        if fmt == "xz" and rng.random() < 0.15:
            c["files"].append({"name": "in2.xz", "class": "text", "len": 5000, "seed": rng.getrandbits(30), "compress_args": ["-0"]})
            c["_concat"] = True
        cases.append(c)
    return cases


def judge_c18(case, res):
    feats = []
    counters = {"runs.total": 1, "tool." + case["tool"]: 1, "sink." + case.get("stdout", "pipe"): 1}
    f = case["files"][0]
    data = res["orig"][f["name"]]
    mode = case["_mode"]
    fmt = case["_fmt"]
    ctx = " [tool %s args %s sink %s, input %s %d bytes%s%s]" % (case["tool"], " ".join(case["args"]), case.get("stdout"), f["class"], f["len"],
                                                               ", corrupted" if f.get("corrupt_seed") else "", ", truncated" if f.get("truncate") is not None else "")

    def viol(cls, msg):
        return {"cls": cls, "sig": "C18/" + cls, "msg": msg + ctx + "\nstderr: " + res["stderr"][-300:]}, feats, counters
    if res["rc"] == -999:
        return viol("hang", "tool did not terminate")
    ref = xzsim.lib_decode(data, "auto" if case["tool"] != "lzmadec" else "lzma", single=case.get("_single", False))
    lib_ok = ref["status"] == 1
    expect_out = ref["out"]
    fired = fired_faults(res["events"])
    for k, e in fired:
        counters["fault.%s_%s_%s" % (k, e["call"], e["role"])] = 1
    rc = res["rc"]
    feats.append("%s|%s|%s|%s|%s|%d" % (case["tool"], mode, case.get("stdout"), "ok" if lib_ok else "err%d" % ref["status"], f["class"], min(len(fired), 3)))
    if mode == "dc":
        if res["stdout"] != expect_out and not lib_ok:
            # On input the library rejects, how many bytes liblzma hands out before the error depends on
            # the buffer sizes it is called with (known finding KF-C06-2 of C06 - a property of liblzma, not of
            # the tools). The tools call it with 8 KiB buffers; a direct library decode done that way is the
            # other admissible reference. Status and everything else stay strict.
            ref2 = xzsim.lib_decode(data, "auto" if case["tool"] != "lzmadec" else "lzma", single=case.get("_single", False), chunk=8192)
            if ref2["status"] == ref["status"] and res["stdout"] == ref2["out"]:
                counters["reach.rejected_input_output_depends_on_buffer_size"] = 1
                expect_out = ref2["out"]
        if res["stdout"] != expect_out:
            i = 0
            a, b = res["stdout"], expect_out
            while i < len(a) and i < len(b) and a[i] == b[i]:
                i += 1
            return viol("output-differs", "standard output (%d bytes) differs from the library's decoding (%d bytes, status %d) at byte %d" % (len(a), len(b), ref["status"], i))
        if case.get("stdout") in ("file", "file_append", "file_offset"):
            if res["out_size"] != res["prefix_len"] + len(expect_out):
                return viol("file-size", "final size of the output file is %d, expected %d" % (res["out_size"], res["prefix_len"] + len(expect_out)))
    elif mode == "d":
        tgt = res["tree"].get("in")
        if lib_ok:
            if tgt is None or tgt.get("data") != expect_out:
                return viol("file-differs", "decompressed file missing or different from the library's decoding")
            if tgt["size"] != len(expect_out):
                return viol("file-size", "decompressed file size %d != %d" % (tgt["size"], len(expect_out)))
        elif tgt is not None:
            return viol("file-from-invalid-input", "a file was created although the library reports status %d" % ref["status"])
    # exit status reports failure exactly when the library reports an error
    if lib_ok and rc not in (0,) and not (ref["unsupported"] and rc == 2):
        return viol("exit-status", "library decode succeeded but the exit status is %s" % rc)
    if not lib_ok and rc == 0:
        return viol("exit-status", "library reports status %d but the exit status is 0" % ref["status"])
    counters["outcome.lib_%d" % ref["status"]] = 1
    return None, feats, counters


def c18_multi_cases(rng, n):
    """Several files in one decompressing invocation: each file is judged on its own, in order."""
    cases = []
    lz_pool = ["tests/files/good-1-v1.lz", "tests/files/good-1-v0.lz", "tests/files/good-2-v1-v0.lz", "tests/files/good-1-v1-trailing-1.lz", "tests/files/bad-1-v1-crc32.lz"]
    for _ in range(n):
        files = []
        for k in range(rng.choice([2, 2, 3, 4])):
            kind = rng.choice(["xz", "xz", "lzma", "lzma_garbage", "lzma_known", "lz", "lz", "xz_corrupt", "lzma_known_garbage"])
            f = {"class": rng.choice(["text", "random", "sparse"]), "len": rng.choice([1, 700, 9000, 30000]), "seed": rng.getrandbits(30)}
            if kind.startswith("xz"):
                f.update({"name": "m%d.xz" % k, "compress_args": [rng.choice(["-0", "-1"])]})
                if kind == "xz_corrupt":
                    f["corrupt_seed"] = rng.getrandbits(20) + 1
            elif kind.startswith("lzma"):
                f.update({"name": "m%d.lzma" % k, "compress_args": ["--format=lzma", "-0"]})
                if "known" in kind:
                    f["lzma_known_size"] = 1
                if "garbage" in kind:
                    f["append_garbage"] = rng.getrandbits(16) + 1
            else:
                f.update({"name": "m%d.lz" % k, "repo_file": rng.choice(lz_pool)})
            files.append(f)
        mode = rng.choice(["dc", "dc", "t", "d"])
        args = ["-" + mode, "-T%d" % rng.choice([1, 1, 2])] + [f["name"] for f in files]
        cases.append({"kind": "c18multi", "tool": "xz", "files": files, "args": args, "stdout": "pipe", "_mode": mode, "faults": [],
                      "sched_seed": rng.getrandbits(30), "sched_preempt": rng.choice([50, 300, 900]), "sched_strategy": rng.choice([0, 1, 2])})
    return cases


def judge_c18m(case, res):
    counters = {"runs.total": 1, "runs.multi_file": 1}
    mode = case["_mode"]
    ctx = " [xz %s]" % " ".join(case["args"])
    feats = ["multi|" + mode + "|" + ",".join(f["name"].split(".")[-1] + ("!" if f.get("append_garbage") or f.get("corrupt_seed") else "") for f in case["files"])]

    def viol(cls, msg):
        return {"cls": cls, "sig": "C18/" + cls, "msg": msg + ctx + "\nstderr: " + res["stderr"][-400:]}, feats, counters
    if res["rc"] == -999:
        return viol("hang", "tool did not terminate")
    want_rc = 0
    pos = 0
    out = res["stdout"]
    for f in case["files"]:
        data = res["orig"][f["name"]]
        ref = xzsim.lib_decode(data, "auto")
        ok = ref["status"] == 1
        if not ok:
            want_rc = 1
        elif ref["unsupported"] and want_rc == 0:
            want_rc = 2
        stem = f["name"].rsplit(".", 1)[0]
        if mode == "dc":
            cands = [ref["out"]]
            if not ok:
                ref2 = xzsim.lib_decode(data, "auto", chunk=8192)
                if ref2["status"] == ref["status"]:
                    cands.append(ref2["out"])   # see KF-C06-2
            for c in sorted(cands, key=len, reverse=True):
                if out[pos:pos + len(c)] == c:
                    pos += len(c)
                    break
            else:
                return viol("output-differs", "output for %s (library status %d, %d bytes) is not at offset %d of standard output" % (f["name"], ref["status"], len(ref["out"]), pos))
        elif mode == "d":
            tgt = res["tree"].get(stem)
            src_there = f["name"] in res["tree"]
            if ok:
                if tgt is None or tgt.get("data") != ref["out"]:
                    return viol("file-differs", "%s: decompressed file missing or different from the library's decoding" % f["name"])
                if src_there:
                    return viol("source-kept", "%s was decoded completely but is still there" % f["name"])
            else:
                if tgt is not None:
                    return viol("file-from-invalid-input", "%s: a file was created although the library reports status %d" % (f["name"], ref["status"]))
                if not src_there:
                    return viol("source-removed", "%s is invalid (library status %d) but was removed" % (f["name"], ref["status"]))
    if mode == "dc" and pos != len(out):
        return viol("output-differs", "%d extra bytes on standard output" % (len(out) - pos))
    if (want_rc == 0) != (res["rc"] == 0) or (want_rc == 1 and res["rc"] != 1):
        return viol("exit-status", "exit status %s, expected %d from the per-file library results" % (res["rc"], want_rc))
    counters["outcome.multi_rc_%d" % want_rc] = 1
    return None, feats, counters


def c18_roundtrip_cases(rng, n):
    """xz -z then xz -d for sampled option sets; the second step checks the first."""
    cases = []
    for _ in range(n):
        opts = []
        r = rng.random()
        if r < 0.3:
            opts.append("-%d%s" % (rng.randint(0, 6), "e" if rng.random() < 0.3 else ""))
        elif r < 0.6:
            opts.append("--lzma2=dict=%s,lc=%d,lp=%d,pb=%d,mf=%s,mode=%s,nice=%d" % (rng.choice(["4KiB", "64KiB", "1MiB"]), rng.choice([0, 3, 4]), 0, rng.randint(0, 4), rng.choice(["hc3", "hc4", "bt2", "bt3", "bt4"]), rng.choice(["fast", "normal"]), rng.choice([2, 32, 273])))
        else:
            opts.append(rng.choice(["--x86", "--arm64", "--delta=dist=%d" % rng.randint(1, 256), "--riscv", "--powerpc"]))
            opts.append("--lzma2=preset=%d" % rng.randint(0, 3))
        if rng.random() < 0.3:
            opts.append("--check=%s" % rng.choice(["none", "crc32", "crc64", "sha256"]))
        if rng.random() < 0.4:
            opts += ["-T%d" % rng.randint(1, 4), "--block-size=%d" % rng.choice([4096, 30000, 1 << 20])]
        if rng.random() < 0.15:
            opts.append("--block-list=%s" % rng.choice(["1000,2000,0", "5000,", "100,200,300"]))
        fmt = "xz"
        if rng.random() < 0.2:
            opts = ["--format=lzma", "-%d" % rng.randint(0, 3)]
            if rng.random() < 0.7:
                opts = ["--format=lzma", "--lzma1=preset=%d,dict=%s" % (rng.randint(0, 2), rng.choice(DICT_SIZES))]
            fmt = "lzma"
        elif rng.random() < 0.2:
            opts = [o for o in opts if not o.startswith(("--lzma2", "-0", "-1", "-2", "-3", "-4", "-5", "-6"))] + ["--lzma2=preset=%d,dict=%s" % (rng.randint(0, 2), rng.choice(DICT_SIZES))]
        f = {"name": "r.dat", "class": rng.choice(["text", "sparse", "random", "zeros"]), "len": rng.choice([0, 1, 5000, 70000, 200000]), "seed": rng.getrandbits(30)}
        # step 1 writes r.dat.<fmt> next to the source, step 2 is the tool's own decompression of it
        cases.append({"kind": "c18rt", "tool": "xz", "files": [f], "args": ["-k"] + opts + ["r.dat"], "stdout": "pipe", "_fmt": fmt,
                      "then": ["-dc", "-T%d" % rng.choice([1, 1, 3]), "r.dat." + fmt],
                      "sched_seed": rng.getrandbits(30), "sched_preempt": rng.choice([50, 300, 900]), "sched_strategy": rng.choice([0, 1, 2]), "faults": []})
    return cases


def judge_c18rt(case, res):
    counters = {"runs.total": 1, "runs.roundtrip": 1}
    f = case["files"][0]
    plain = res["orig"][f["name"]]
    feats = ["rt|" + " ".join(a.split("=")[0] for a in case["args"][1:-1]) + "|" + f["class"]]
    ctx = " [xz %s, input %s %d bytes]" % (" ".join(case["args"]), f["class"], f["len"])

    def viol(cls, msg):
        return {"cls": cls, "sig": "C18/" + cls, "msg": msg + ctx + "\nstderr: " + res["stderr"][-300:]}, feats, counters
    if res["rc"] != 0:
        if "Unsupported" in res["stderr"] or "Invalid" in res["stderr"] or "sum of lc and lp" in res["stderr"].lower() or "nice" in res["stderr"]:
            counters["runs.options_rejected"] = 1
            return None, [], counters
        return viol("compress-failed", "xz rejected or failed on an option set: exit %s" % res["rc"])
    ent = res["tree"].get("r.dat." + case["_fmt"])
    if ent is None or "data" not in ent:
        return viol("compress-failed", "xz exited 0 but wrote no r.dat.%s" % case["_fmt"])
    ref = xzsim.lib_decode(ent["data"], "lzma" if case["_fmt"] == "lzma" else "auto")
    if ref["status"] != 1 or ref["out"] != plain:
        return viol("roundtrip", "decompressing what xz wrote gives status %d and %d bytes (input %d bytes)" % (ref["status"], len(ref["out"]), len(plain)))
    s2 = res.get("step2")
    if s2 is not None:
        if s2["rc"] != 0 or s2.get("stdout") != plain:
            return viol("roundtrip-tool", "xz -dc of the file xz itself wrote: exit %s, %d bytes (input %d bytes; the library decodes the file correctly): %s" % (s2["rc"], len(s2.get("stdout") or b""), len(plain), s2["stderr"][-200:]))
        counters["runs.roundtrip_tool_decoded"] = 1
    return None, feats, counters


# =====================================================================
# driver
# =====================================================================
def gate_and_report(prop, judge_name, case, verdict, seed):
    """Re-run the failing case twice (same class, same event log), minimise
    the fault list, write the replay file."""
    judge = globals()[judge_name]
    cls = verdict["viol"]["cls"]
    runs = []
    for _ in range(2):
        res = xzsim.execute(case)
        v, _, _ = judge(case, res)
        runs.append((v["cls"] if v else None, xzsim.events_hash(res["events"])))
    if any(r[0] != cls for r in runs) or runs[0][1] != runs[1][1]:
        log("HARNESS-NONDETERMINISM: %s case does not reproduce identically: %s" % (prop, runs))
        return None
    # minimise: drop faults while the class persists
    faults = list(case.get("faults", []))
    changed = True
    tried = 0
    while changed and len(faults) > 1:
        changed = False
        for i in range(len(faults)):
            cand = dict(case)
            cand["faults"] = faults[:i] + faults[i + 1:]
            res = xzsim.execute(cand)
            tried += 1
            v, _, _ = judge(cand, res)
            if v and v["cls"] == cls:
                faults = cand["faults"]
                changed = True
                break
    mini = dict(case)
    mini["faults"] = faults
    res = xzsim.execute(mini)
    v, _, _ = judge(mini, res)
    if not v or v["cls"] != cls:
        mini, v = case, verdict["viol"]
    d = os.path.join(V, "replays")
    os.makedirs(d, exist_ok=True)
    path = os.path.join(d, "%s-%s-%s.json" % (prop, case.get("kind", "case"), re.sub(r"[^A-Za-z0-9_.-]+", "_", cls)[:50]))
    k = 1
    base = path
    while os.path.exists(path):
        k += 1
        path = base.replace(".json", "-%d.json" % k)
    json.dump({"property": prop, "engine": "xzsim", "seed": seed, "judge": judge_name, "violation": {"class": cls, "sig": v["sig"], "message": v["msg"][:3000]},
               "case": xzsim.strip_case_keep_private(mini) if hasattr(xzsim, "strip_case_keep_private") else json.loads(json.dumps(mini, default=str)),
               "event_log": [("%d %s %s %s %s -> %s %d %s" % (e["n"], e["call"], e["role"], e["fd"], e["arg"], e["ret"], e["errno"], e["note"])) for e in res["events"]][:400],
               "replay_cmd": "bin/vcheck replay " + os.path.relpath(path, V)}, open(path, "w"), indent=1)
    return path, v, tried


def run_extra(prop, what, n, seed):
    """Extra xzsim cases folded into an lzsim-based check (used by C13 for
    xz --list). Returns (rc, reported, counters, ncases, nfeatures)."""
    import multiprocessing
    if not xzsim.build():
        return 2, [], {}, 0, 0
    rng = random.Random(seed * 104729 + 13)
    if what == "memlimit":
        import xz_mem
        cases = xz_mem.cases(rng, n)
        modname, jname = "xz_mem", "judge_mem"
        globals()["judge_mem"] = xz_mem.judge_mem
    elif what == "flush":
        import xz_flush
        cases = xz_flush.cases(rng, n)
        modname, jname = "xz_flush", "judge_flush"
        globals()["judge_flush"] = xz_flush.judge_flush
    else:
        import xz_list
        cases = xz_list.cases(rng, n)
        modname, jname = "xz_list", "judge_list"
        globals()["judge_list"] = xz_list.judge_list
    with multiprocessing.Pool(xzsim.JOBS) as pool:
        verdicts = pool.map(xzsim._run_one, [(c, modname, jname) for c in cases], chunksize=4)
    counters = {}
    feats = set()
    viols = {}
    rc = 0
    for c, vd in zip(cases, verdicts):
        for k, v in vd["counters"].items():
            counters[k] = counters.get(k, 0) + v
        feats.update(vd["features"])
        if vd["viol"]:
            if vd["viol"]["cls"] == "harness":
                log("harness failure in xzsim extra cases (%s): " % what + vd["viol"]["msg"][-600:])
                rc = 2
                continue
            viols.setdefault(vd["viol"]["cls"], []).append((c, vd))
    reported = []
    for cls, lst in sorted(viols.items()):
        c, vd = lst[0]
        out = gate_and_report(prop, jname, c, vd, seed)
        if out is None:
            rc = 2
            continue
        path, v, tried = out
        log("VIOLATION property=%s replay=%s" % (prop, path))
        log("  class=%s occurrences=%d" % (cls, len(lst)))
        log("  " + v["msg"][:1200].replace("\n", "\n  "))
        reported.append({"class": cls, "replay": path, "occurrences": len(lst)})
        if rc == 0:
            rc = 1
    return rc, reported, counters, len(cases), len(feats)


def load_findings():
    p = os.path.join(V, "known_findings.json")
    return json.load(open(p)).get("findings", []) if os.path.exists(p) else []


def run_check(prop, cfg, tier, seed):
    t0 = time.time()
    if not xzsim.build():
        log("build failed")
        return 2
    thorough = tier == "thorough"
    rng = random.Random(seed * 7919 + hash(prop) % 1000 if False else seed * 7919 + int(prop[1:]))
    cases = []
    judge_of = {}
    fidelity_failures = 0
    if prop == "C17":
        scenes = []
        for _ in range(cfg["rounds"][tier]):
            scenes += c17_scenes(rng, thorough)
        for sc in scenes:
            ref = xzsim.execute(dict(sc, faults=[]))
            v, _, _ = judge_c17(dict(sc, faults=[]), ref)
            if v:
                cases.append(dict(sc, faults=[], _tag="reference"))
                continue
            # fidelity: the unshimmed tool gives the same tree and exit status
            real = xzsim.execute(dict(sc, faults=[], shim=False))
            same = real["rc"] == ref["rc"] and sorted(real["tree"]) == sorted(ref["tree"]) and all(real["tree"][k].get("data") == ref["tree"][k].get("data") for k in ref["tree"]) and real["stdout"] == ref["stdout"]
            if not same:
                fidelity_failures += 1
                log("FIDELITY: shimmed and unshimmed xz differ on scene %s" % sc["kind"])
            cases.append(dict(sc, faults=[], _tag="reference"))
            cases += c17_fault_cases(sc, ref["events"], rng, thorough)
            cases += c17_multi_fault_cases(sc, ref["events"], rng, 200 if thorough else 40)
        for c in cases:
            judge_of[id(c)] = "judge_c17"
    elif prop == "C18":
        a = c18_cases(rng, cfg["runs"][tier][0], thorough)
        b = c18_roundtrip_cases(rng, cfg["runs"][tier][1])
        m = c18_multi_cases(rng, cfg["runs"][tier][1])
        cases = a + b + m
        for c in a:
            judge_of[id(c)] = "judge_c18"
        for c in b:
            judge_of[id(c)] = "judge_c18rt"
        for c in m:
            judge_of[id(c)] = "judge_c18m"
    else:
        import xz_c19
        cases = xz_c19.cases(rng, cfg["runs"][tier][0], thorough)
        for c in cases:
            judge_of[id(c)] = "judge_c19"
        globals()["judge_c19"] = xz_c19.judge_c19
    if fidelity_failures:
        log("shimmed tools do not behave like the unshimmed ones: machinery failure")
        return 2
    # run
    import multiprocessing
    args = [(c, "xz_checks" if judge_of[id(c)] != "judge_c19" else "xz_c19", judge_of[id(c)]) for c in cases]
    with multiprocessing.Pool(xzsim.JOBS) as pool:
        verdicts = pool.map(xzsim._run_one, args, chunksize=4)
    findings = load_findings()
    counters = {}
    feats = set()
    ehashes = set()
    viols = {}
    known = {}
    harness = []
    for c, vd in zip(cases, verdicts):
        for k, n in vd["counters"].items():
            counters[k] = counters.get(k, 0) + n
        feats.update(vd["features"])
        ehashes.add(vd["ehash"])
        if vd["viol"]:
            if vd["viol"]["cls"] == "harness":
                harness.append(vd)
                continue
            kf = [f for f in findings if f.get("status") == "open" and f.get("property") == prop and f.get("sig") == vd["viol"]["sig"]]
            if kf:
                known.setdefault(kf[0]["id"], [kf[0], 0])
                known[kf[0]["id"]][1] += 1
                continue
            viols.setdefault(vd["viol"]["cls"], []).append((c, vd))
    rc = 0
    for fid, (f, n) in sorted(known.items()):
        log("KNOWN-FINDING: property=%s %s [%s, seen %d times]" % (prop, f["what"], fid, n))
    if harness:
        log("harness failures: %d, e.g. %s" % (len(harness), harness[0]["viol"]["msg"][-800:]))
        rc = 2
    reported = []
    for cls, lst in sorted(viols.items()):
        c, vd = lst[0]
        out = gate_and_report(prop, judge_of[id(c)], c, vd, seed)
        if out is None:
            rc = 2
            continue
        path, v, tried = out
        log("VIOLATION property=%s replay=%s" % (prop, path))
        log("  class=%s occurrences=%d minimised in %d re-runs" % (cls, len(lst), tried))
        log("  " + v["msg"][:1200].replace("\n", "\n  "))
        reported.append({"class": cls, "replay": path, "occurrences": len(lst)})
        if rc == 0:
            rc = 1
    wall = time.time() - t0
    samples = []
    for c in cases[:: max(1, len(cases) // 4)][:4]:
        samples.append({"scene": c.get("kind"), "tool": c.get("tool", "xz"), "args": c["args"], "files": [{k: v for k, v in f.items() if not k.startswith("_")} for f in c["files"]],
                        "stdout": c.get("stdout", "pipe"), "faults": c.get("faults", []), "sched_seed": c.get("sched_seed")})
    faults = {k[6:]: v for k, v in counters.items() if k.startswith("fault.")}
    ev = {"property_id": prop, "tier": tier, "seed": seed, "level": cfg["level"],
          "coverage": {"evaluations": len(cases), "distinct_nontrivial": len(feats), "rule": cfg["rule"], "samples": samples, "exhaustive": False,
                       "technique": "deterministic simulation with fault injection: real xz/xzdec/lzmadec processes, link-time system-call shim with fault plan, deterministic thread scheduler, scratch directory per run",
                       "runs_per_hour": int(len(cases) / wall * 3600) if wall else 0,
                       "faults_fired": faults, "distinct_event_logs": len(ehashes),
                       "other_counters": {k: v for k, v in counters.items() if not k.startswith("fault.")},
                       "real_components": ["xz, xzdec, lzmadec built from /repo's working tree", "Linux kernel file system on a tmpfs scratch directory", "liblzma (static)"],
                       "stub_components": ["system calls of the tools (shim: errno, short counts, signals, process death)", "pthread scheduling and clock_gettime (simrt)",
                                           "Landlock sandbox (disabled at build time)", "CPU/RAM detection (explicit -T and --memlimit)", "terminal (never a tty)"],
                       "known_findings_hit": [{"id": k, "count": n} for k, (f, n) in sorted(known.items())], "violations_reported": reported},
          "assumptions": cfg.get("assumptions", []), "wall_s": round(wall, 1), "violations": len(reported)}
    if rc == 2 and reported:
        rc = 1   # a violation that passed the reproduction gate stands (see bin/vlib.py)
    os.makedirs(os.path.join(V, "evidence"), exist_ok=True)
    json.dump(ev, open(os.path.join(V, "evidence", prop + ".json"), "w"), indent=1)
    log("%s %s: %d cases, %d distinct (scene, call, role, fault) tuples, %s (%.0fs)" % (prop, tier, len(cases), len(feats), {0: "held on everything explored", 1: "VIOLATION", 2: "MACHINERY FAILURE"}[rc], wall))
    return rc
