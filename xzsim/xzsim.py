"""xzsim: the command-line tools under simulation.

A *case* is an explicit, replayable description of one run: the scene (files,
contents by recipe, command line, stdin/stdout kinds), the fault plan for the
system-call shim, and the scheduler seed. Execution is a pure function of the
case and of the code (shimmed tools built from /repo's working tree)."""
import hashlib
import json
import lzma as pylzma
import multiprocessing
import os
import random
import re
import shutil
import signal
import subprocess
import sys
import tempfile
import time

V = os.path.dirname(os.path.dirname(os.path.abspath(__file__)))
BIN = os.path.join(V, "build", "plain", "xzsim")
SCRATCH_ROOT = "/dev/shm" if os.path.isdir("/dev/shm") else tempfile.gettempdir()
JOBS = int(os.environ.get("VERIF_JOBS", str(min(16, os.cpu_count() or 4))))


def log(*a):
    print(*a, flush=True)


# ------------------------------------------------------------------ content
def gen_content(cls, n, seed):
    r = random.Random(seed * 1000003 + len(cls))
    if cls == "text":
        words = ["the", "quick", "brown", "fox", "lorem", "ipsum", "xz", "stream", "block", "\n", "0123456789"]
        out = bytearray()
        while len(out) < n:
            out += r.choice(words).encode() + b" "
        return bytes(out[:n])
    if cls == "random":
        return bytes(r.getrandbits(8) for _ in range(n))
    if cls == "zeros":
        return bytes(n)
    if cls == "sparse_tail":
        # data followed by zeros up to a multiple of the 8 KiB I/O buffer: the
        # file then ends in a pending hole (lseek + one-byte write in io_close)
        n = max(8192, n - n % 8192)
        head = gen_content("sparse", max(0, n - 8192 * (1 + seed % 4) - seed % 5000), seed + 1)
        return head[:n - 8192] + bytes(n - len(head[:n - 8192]))
    if cls == "sparse":
        out = bytearray()
        while len(out) < n:
            if r.random() < 0.6:
                out += bytes(r.choice([1, 511, 4096, 8191, 8192, 8193, 20000, 70000]))
            else:
                out += bytes(1 + r.getrandbits(8) % 255 for _ in range(r.choice([1, 7, 100, 8192])))
        return bytes(out[:n])
    return b""


def build(flavours=None):
    r = subprocess.run([os.path.join(V, "xzsim", "build.sh")], cwd=V)
    if r.returncode != 0:
        return False
    ld = os.path.join(BIN, "libdecode")
    src = os.path.join(V, "xzsim", "libdecode.c")
    r = subprocess.run(["gcc", "-O2", "-o", ld, src, "-I/repo/src/liblzma/api",
                        os.path.join(V, "build", "plain", "xz", "liblzma.a"), "-lpthread"])
    return r.returncode == 0


def tool(name, shim=True):
    return os.path.join(BIN, name + (".sim" if shim else ".real"))


# ------------------------------------------------------------------- scenes
def make_compressed(plain, args, scratch):
    """Compress with the tree's own (unshimmed) xz."""
    p = os.path.join(scratch, "_mk_in")
    with open(p, "wb") as f:
        f.write(plain)
    r = subprocess.run([tool("xz", False), "-c"] + args + [p], capture_output=True)
    os.unlink(p)
    if r.returncode != 0:
        raise RuntimeError("cannot build artefact: " + r.stderr.decode())
    return r.stdout


def corrupt(data, seed):
    r = random.Random(seed)
    b = bytearray(data)
    if len(b) > 40:
        for _ in range(1 + r.getrandbits(2)):
            b[20 + r.randrange(len(b) - 30)] ^= 1 << r.randrange(8)
    return bytes(b)


def materialise(case, d):
    """Create the scene's files in directory d. Returns dict name -> original bytes."""
    orig = {}
    for f in case["files"]:
        data = gen_content(f["class"], f["len"], f["seed"])
        if f.get("repo_file"):
            # a file of the repository's own test corpus (e.g. .lz members, which xz cannot create)
            with open(os.path.join(os.environ.get("VERIF_REPO", "/repo"), f["repo_file"]), "rb") as fh:
                data = fh.read()
        if f.get("compress_args") is not None:
            plain0 = data
            data = make_compressed(plain0, f["compress_args"], d)
            if f.get("target_csize"):
                # adjust the (incompressible) plaintext length until the compressed file has exactly the wanted
                # size: file sizes at, just below and just above multiples of the tools' 8 KiB buffers
                ln = f["len"]
                for _ in range(10):
                    if len(data) == f["target_csize"]:
                        break
                    ln = max(0, ln + f["target_csize"] - len(data))
                    plain0 = gen_content(f["class"], ln, f["seed"])
                    data = make_compressed(plain0, f["compress_args"], d)
        if f.get("corrupt_seed"):
            data = corrupt(data, f["corrupt_seed"])
        if f.get("truncate") is not None:
            data = data[:max(0, int(len(data) * f["truncate"]))]
        if f.get("lzma_known_size") and len(data) > 13:
            # .lzma header with the real uncompressed size instead of "unknown" (the end marker stays: valid)
            n0 = len(gen_content(f["class"], f["len"], f["seed"]))
            data = data[:5] + n0.to_bytes(8, "little") + data[13:]
        if f.get("append_garbage"):
            data = data + bytes(random.Random(f["append_garbage"]).getrandbits(8) | 1 for _ in range(1 + f["append_garbage"] % 20))
        if f.get("literal") is not None:
            data = f["literal"].encode("latin1")
        p = os.path.join(d, f["name"])
        with open(p, "wb") as fh:
            fh.write(data)
        os.chmod(p, f.get("mode", 0o644))
        if f.get("mtime"):
            # sub-second parts too, different for access and modification time
            os.utime(p, ns=(f["mtime"] * 10**9 + f.get("atime_nsec", 0) - 3 * 10**9 * (1 if f.get("atime_nsec") else 0), f["mtime"] * 10**9 + f.get("mtime_nsec", 0)))
        orig[f["name"]] = data
    if case.get("_join"):
        joined = b""
        for f in case["files"]:
            joined += orig[f["name"]] + bytes(f.get("pad", 0))
            os.unlink(os.path.join(d, f["name"]))
        with open(os.path.join(d, "joined.xz"), "wb") as fh:
            fh.write(joined)
        orig["joined.xz"] = joined
    for sp in case.get("specials", []):
        p4 = os.path.join(d, sp["name"])
        if sp["kind"] == "dir":
            os.mkdir(p4)
        elif sp["kind"] == "fifo":
            os.mkfifo(p4)
    for f in case["files"]:
        if f.get("owner"):
            os.chown(os.path.join(d, f["name"]), f["owner"][0], f["owner"][1])
            os.chmod(os.path.join(d, f["name"]), f.get("mode", 0o644))   # chown clears setuid/setgid
    for l in case.get("links", []):
        if l["kind"] == "sym":
            os.symlink(l["target"], os.path.join(d, l["name"]))
        else:
            os.link(os.path.join(d, l["target"]), os.path.join(d, l["name"]))
    return orig


def parse_log(path):
    ev = []
    if not os.path.exists(path):
        return ev
    for line in open(path, errors="replace"):
        m = re.match(r"(\d+) (\w+) (\w+) (\S+) (.*?) -> (\S+) (\d+)(.*)$", line.rstrip("\n"))
        if not m:
            continue
        ev.append({"n": int(m.group(1)), "call": m.group(2), "role": m.group(3), "fd": m.group(4), "arg": m.group(5),
                   "ret": m.group(6), "errno": int(m.group(7)), "note": m.group(8).strip()})
    return ev


def execute(case):
    """Run one case. Returns a result dict (no oracle here)."""
    d = tempfile.mkdtemp(prefix="xzs_", dir=SCRATCH_ROOT)
    try:
        wd = os.path.join(d, "w")
        os.mkdir(wd)
        orig = materialise(case, wd)
        logp = os.path.join(d, "log")
        planp = os.path.join(d, "plan")
        with open(planp, "w") as f:
            f.write("\n".join(case.get("faults", [])) + "\n")
        env = {"PATH": "/usr/bin:/bin", "LC_ALL": "C", "TZ": "UTC", "XZSIM_LOG": logp, "XZSIM_PLAN": planp,
               "XZSIM_SCHED_SEED": str(case.get("sched_seed", 1)), "XZSIM_SCHED_PREEMPT": str(case.get("sched_preempt", 300)),
               "XZSIM_SCHED_STRATEGY": str(case.get("sched_strategy", 0))}
        env.update(case.get("env", {}))
        stdin = subprocess.DEVNULL
        stdin_data = None
        if case.get("stdin_file"):
            stdin = open(os.path.join(wd, case["stdin_file"]), "rb")
        elif case.get("stdin_pipe_from"):
            stdin = subprocess.PIPE
            stdin_data = orig[case["stdin_pipe_from"]]
        so = case.get("stdout", "pipe")
        outp = os.path.join(wd, "_stdout")
        prefix = b""
        if so == "pipe":
            stdout = subprocess.PIPE
        else:
            prefix = gen_content("text", case.get("stdout_prefix", 0), 5) if so in ("file_append", "file_offset") else b""
            with open(outp, "wb") as fh:
                fh.write(prefix if so in ("file_append", "file_offset") else b"")
            if so == "file_append":
                stdout = open(outp, "ab")
            elif so == "file_offset":
                stdout = open(outp, "r+b")
                stdout.seek(len(prefix))
            else:
                stdout = open(outp, "wb")
        argv = [tool(case.get("tool", "xz"), case.get("shim", True))] + case["args"]
        t0 = time.time()
        try:
            p = subprocess.run(argv, cwd=wd, env=env, stdin=stdin if stdin_data is None else None, input=stdin_data,
                               stdout=stdout, stderr=subprocess.PIPE, timeout=case.get("timeout", 60))
            rc = p.returncode
            out = p.stdout if so == "pipe" else None
            err = p.stderr
        except subprocess.TimeoutExpired as e:
            rc = -999
            out = e.stdout if so == "pipe" else None
            err = (e.stderr or b"") + b"\n[xzsim: timeout]"
        finally:
            if so != "pipe":
                stdout.close()
            if hasattr(stdin, "close"):
                stdin.close()
        step2 = None
        if case.get("then") is not None and rc != -999:
            def snap():
                t = {}
                for name in sorted(os.listdir(wd)):
                    p3 = os.path.join(wd, name)
                    if name == "_stdout":
                        continue
                    st3 = os.lstat(p3)
                    t[name] = {"mode": st3.st_mode, "size": st3.st_size, "nlink": st3.st_nlink, "mtime": st3.st_mtime_ns // 10**9, "mtime_ns": st3.st_mtime_ns, "uid": st3.st_uid, "gid": st3.st_gid}
                    if os.path.isfile(p3) and not os.path.islink(p3):
                        t[name]["data"] = open(p3, "rb").read()
                return t
            tree1 = snap()
            env2 = dict(env)
            env2["XZSIM_PLAN"] = "/dev/null"
            env2["XZSIM_LOG"] = logp + "2"
            try:
                p2 = subprocess.run([tool(case.get("tool", "xz"), case.get("shim", True))] + case["then"], cwd=wd, env=env2, stdin=subprocess.DEVNULL,
                                    stdout=subprocess.PIPE, stderr=subprocess.PIPE, timeout=60)
                step2 = {"rc": p2.returncode, "stderr": p2.stderr.decode("utf-8", "replace"), "tree1": tree1, "stdout": p2.stdout}
            except subprocess.TimeoutExpired:
                step2 = {"rc": -999, "stderr": "[timeout]", "tree1": tree1}
        if so != "pipe":
            out = open(outp, "rb").read()
            if so in ("file_append", "file_offset"):
                if out[:len(prefix)] != prefix:
                    out = b"[PREFIX DAMAGED]" + out
                else:
                    out = out[len(prefix):]
            out_size = os.path.getsize(outp)
            os.unlink(outp)
        else:
            out_size = len(out or b"")
        tree = {}
        for name in sorted(os.listdir(wd)):
            p2 = os.path.join(wd, name)
            st = os.lstat(p2)
            ent = {"mode": st.st_mode, "size": st.st_size, "nlink": st.st_nlink, "mtime": st.st_mtime_ns // 10**9, "mtime_ns": st.st_mtime_ns, "atime_ns": st.st_atime_ns, "uid": st.st_uid, "gid": st.st_gid,
                   "blocks": st.st_blocks}
            if os.path.islink(p2):
                ent["link"] = os.readlink(p2)
            elif os.path.isfile(p2):
                ent["data"] = open(p2, "rb").read()
            tree[name] = ent
        events = parse_log(logp)
        heap_peak = None
        try:
            for line in open(logp, "r", errors="replace"):
                if line.startswith("H peak "):
                    heap_peak = int(line.split()[2])
        except OSError:
            pass
        return {"heap_peak": heap_peak, "step2": step2, "rc": rc, "stdout": out or b"", "stderr": err.decode("utf-8", "replace"), "events": events, "tree": tree, "orig": orig,
                "wall": time.time() - t0, "out_size": out_size, "prefix_len": len(prefix)}
    finally:
        shutil.rmtree(d, ignore_errors=True)


def events_hash(events):
    h = hashlib.sha256()
    for e in events:
        h.update(("%d %s %s %s %s %d %s\n" % (e["n"], e["call"], e["role"], e["arg"] if "path=" not in e["arg"] else e["arg"], e["ret"], e["errno"], e["note"])).encode())
    return h.hexdigest()[:16]


def decodes_to(data, plain, fmt="auto"):
    try:
        if fmt == "lzma":
            return pylzma.decompress(data, format=pylzma.FORMAT_ALONE) == plain
        return pylzma.decompress(data) == plain
    except Exception:
        return False


def lib_decode(path_bytes, fmt="auto", single=False, ignore_check=False, chunk=0):
    """Direct library decode with the tree's liblzma (helper binary)."""
    d = tempfile.mkdtemp(prefix="xzl_", dir=SCRATCH_ROOT)
    try:
        ip = os.path.join(d, "in")
        op = os.path.join(d, "out")
        with open(ip, "wb") as f:
            f.write(path_bytes)
        r = subprocess.run([os.path.join(BIN, "libdecode"), ip, fmt, "1" if single else "0", "1" if ignore_check else "0", op] + ([str(chunk)] if chunk else []), capture_output=True)
        m = re.match(r"status (\d+) total_in (\d+) total_out (\d+) unsupported_check (\d)", r.stdout.decode())
        if not m:
            raise RuntimeError("libdecode failed: " + r.stderr.decode())
        out = open(op, "rb").read() if os.path.exists(op) else b""
        return {"status": int(m.group(1)), "total_in": int(m.group(2)), "out": out, "unsupported": m.group(4) == "1"}
    finally:
        shutil.rmtree(d, ignore_errors=True)


# ---------------------------------------------------------- generic driver
def strip_case(case):
    c = json.loads(json.dumps({k: v for k, v in case.items() if not k.startswith("_")}))
    for f in c.get("files", []):
        f.pop("_plain", None)
    return c


def run_cases(cases, judge, jobs=JOBS):
    """cases: list of case dicts. judge(case, result) -> (violation or None, features, counters).
    Runs in a process pool; returns list of (case, verdict dict)."""
    with multiprocessing.Pool(jobs) as pool:
        return pool.map(_run_one, [(c, judge.__module__, judge.__name__) for c in cases], chunksize=8)


def _run_one(arg):
    case, modname, fname = arg
    mod = sys.modules.get(modname) or __import__(modname)
    judge = getattr(mod, fname)
    try:
        res = execute(case)
        viol, feats, counters = judge(case, res)
        return {"viol": viol, "features": feats, "counters": counters, "ehash": events_hash(res["events"]), "nevents": len(res["events"]),
                "rc": res["rc"]}
    except Exception as e:  # harness failure
        import traceback
        return {"viol": {"cls": "harness", "sig": "harness", "msg": traceback.format_exc()[-1500:]}, "features": [], "counters": {}, "ehash": "", "nevents": 0, "rc": None}


def replay(r):
    import xz_checks
    if not build():
        log("build failed")
        return 2
    case = r["case"]
    if r["judge"] == "judge_list":
        import xz_list
        judge = xz_list.judge_list
    elif r["judge"] == "judge_flush":
        import xz_flush
        judge = xz_flush.judge_flush
    elif r["judge"] == "judge_mem":
        import xz_mem
        judge = xz_mem.judge_mem
    elif r["judge"] == "judge_c19":
        import xz_c19
        judge = xz_c19.judge_c19
    else:
        judge = getattr(xz_checks, r["judge"])
    res = execute(case)
    viol, _, _ = judge(case, res)
    if viol and viol["cls"] == r["violation"]["class"]:
        log("REPRODUCED property=%s class=%s" % (r["property"], viol["cls"]))
        log(viol["msg"][:2000])
        return 1
    log("NOT REPRODUCED: expected class %s, got %s" % (r["violation"]["class"], viol["cls"] if viol else None))
    return 0


def run_check(prop, cfg, tier, seed):
    import xz_checks
    return xz_checks.run_check(prop, cfg, tier, seed)
