// xzsim shim: linked into xz / xzdec / lzmadec / lzmainfo with -Wl,--wrap for
// the system calls they make. Every intercepted call is an event
//   n name role fd arg -> result errno [fault]
// written to the file named by XZSIM_LOG. Before a call is performed the
// fault plan (file named by XZSIM_PLAN) is consulted:
//   at <n> exit                      _exit(137) before the n-th call
//   at <n> signal <signo>            raise(signo) before the n-th call
//   f <call> <role> <nth> errno <E>  the nth such call fails with errno E
//   f <call> <role> <nth> short <k>  read/write transfers at most k bytes
//   f <call> <role> <nth> eintr <signo>   raise(signo), return -1/EINTR
//                                    (only if signo is handled and unblocked)
//   f <call> <role> <nth> eagain     (only on O_NONBLOCK non-regular fds)
//   f <call> <role> <nth> timeout    poll returns 0
//   f <call> <role> <nth> signal <signo>  raise(signo) right before it, then do it
//   euid <uid>                       geteuid() answers <uid>
// Roles: src (opened read-only), dest (opened for writing), dir, stdin,
// stdout, stderr, pipe (user-abort pipe), path (calls that take a name).
// Un-faulted calls go to the real kernel. The scheduler/clock of simrt is
// started here too so that xz -T<n> is deterministic.
#define _GNU_SOURCE
#include "../simrt/sim.h"

#include <errno.h>
#include <fcntl.h>
#include <poll.h>
#include <signal.h>
#include <stdarg.h>
#include <stdio.h>
#include <stdlib.h>
#include <string.h>
#include <sys/stat.h>
#include <sys/types.h>
#include <unistd.h>

ssize_t __real_read(int, void *, size_t);
ssize_t __real_write(int, const void *, size_t);
int __real_open(const char *, int, ...);
int __real_close(int);
off_t __real_lseek(int, off_t, int);
int __real_fsync(int);
int __real_unlink(const char *);
int __real_fchown(int, uid_t, gid_t);
int __real_fchmod(int, mode_t);
int __real_futimens(int, const struct timespec[2]);
int __real_fstat(int, struct stat *);
int __real_stat(const char *, struct stat *);
int __real_lstat(const char *, struct stat *);
int __real_poll(struct pollfd *, nfds_t, int);
int __real_pipe(int[2]);
int __real_posix_fadvise(int, off_t, off_t, int);
uid_t __real_geteuid(void);

enum { R_OTHER = 0, R_SRC, R_DEST, R_DIR, R_STDIN, R_STDOUT, R_STDERR, R_PIPE, R_PATH, R_COUNT };
static const char *role_names[] = { "other", "src", "dest", "dir", "stdin", "stdout", "stderr", "pipe", "path" };

#define MAXFD 256
#define MAXF 64
static int fd_role[MAXFD];
static int log_fd = -1;
static long evno;

typedef struct { char call[16]; int role; long nth; char act[12]; long arg; int used; } fault_t;
static fault_t faults[MAXF];
static int nfaults;
typedef struct { long n; char act[12]; long arg; int used; } at_t;
static at_t ats[MAXF];
static int nats;
static long euid_override = -1;
static long counts[32][R_COUNT];
static const char *call_names[] = { "read", "write", "open", "close", "lseek", "fsync", "unlink", "fchown", "fchmod", "futimens",
	"fstat", "stat", "lstat", "poll", "pipe", "fadvise", "geteuid", NULL };

static int call_id(const char *n) { for (int i = 0; call_names[i]; ++i) if (!strcmp(call_names[i], n)) return i; return 31; }
static int role_id(const char *n) { for (int i = 0; i < R_COUNT; ++i) if (!strcmp(role_names[i], n)) return i; return -1; }

static void out(const char *fmt, ...)
{
	if (log_fd < 0) return;
	char buf[600];
	va_list ap; va_start(ap, fmt);
	int n = vsnprintf(buf, sizeof buf, fmt, ap);
	va_end(ap);
	if (n > (int)sizeof buf) n = sizeof buf;
	ssize_t r = __real_write(log_fd, buf, (size_t)n);
	(void)r;
}

// ---- heap accounting (C09: xz --memlimit-*) ----------------------------
// malloc/calloc/realloc/free of the whole program (xz and liblzma) are counted
// by usable size; the peak is written as the last log line ("H peak <n>").
#include <malloc.h>
void *__real_malloc(size_t);
void *__real_calloc(size_t, size_t);
void *__real_realloc(void *, size_t);
void __real_free(void *);
static size_t heap_cur, heap_peak;
static void heap_add(void *p) { if (p) { size_t c = __atomic_add_fetch(&heap_cur, malloc_usable_size(p), __ATOMIC_RELAXED); size_t pk = __atomic_load_n(&heap_peak, __ATOMIC_RELAXED); while (c > pk && !__atomic_compare_exchange_n(&heap_peak, &pk, c, 1, __ATOMIC_RELAXED, __ATOMIC_RELAXED)) {} } }
static void heap_sub(void *p) { if (p) __atomic_sub_fetch(&heap_cur, malloc_usable_size(p), __ATOMIC_RELAXED); }
void *__wrap_malloc(size_t n) { void *p = __real_malloc(n); heap_add(p); return p; }
void *__wrap_calloc(size_t a, size_t b) { void *p = __real_calloc(a, b); heap_add(p); return p; }
void *__wrap_realloc(void *q, size_t n) { heap_sub(q); void *p = __real_realloc(q, n); if (p) heap_add(p); else if (n) heap_add(q); return p; }
void __wrap_free(void *p) { heap_sub(p); __real_free(p); }
static size_t heap_base;   // what the simulator itself holds when main() starts
static void heap_report(void) { out("H peak %zu cur %zu\n", heap_peak > heap_base ? heap_peak - heap_base : 0, heap_cur > heap_base ? heap_cur - heap_base : 0); }

__attribute__((constructor)) static void shim_init(void)
{
	for (int i = 0; i < MAXFD; ++i) fd_role[i] = R_OTHER;
	fd_role[0] = R_STDIN; fd_role[1] = R_STDOUT; fd_role[2] = R_STDERR;
	const char *lp = getenv("XZSIM_LOG");
	if (lp) {
		int fd = __real_open(lp, O_WRONLY | O_CREAT | O_APPEND | O_CLOEXEC, 0644);
		if (fd >= 0) {
			// move out of the way of the fds the tool will get
			int hi = fcntl(fd, F_DUPFD_CLOEXEC, 200);
			if (hi >= 0) { __real_close(fd); fd = hi; }
			log_fd = fd;
			if (getenv("XZSIM_HEAP")) atexit(heap_report);
		}
	}
	const char *pp = getenv("XZSIM_PLAN");
	if (pp) {
		FILE *f = fopen(pp, "r");
		if (f) {
			char line[256];
			while (fgets(line, sizeof line, f)) {
				char a[16], b[16], c[16];
				long n, arg = 0;
				if (sscanf(line, "at %ld %11s %ld", &n, a, &arg) >= 2 && nats < MAXF) {
					ats[nats].n = n; strcpy(ats[nats].act, a); ats[nats].arg = arg; ats[nats].used = 0; ++nats;
				} else if (sscanf(line, "f %15s %15s %ld %11s %ld", a, b, &n, c, &arg) >= 4 && nfaults < MAXF) {
					strcpy(faults[nfaults].call, a); faults[nfaults].role = role_id(b); faults[nfaults].nth = n;
					strcpy(faults[nfaults].act, c); faults[nfaults].arg = arg; faults[nfaults].used = 0; ++nfaults;
				} else if (sscanf(line, "euid %ld", &n) == 1) euid_override = n;
			}
			fclose(f);
		}
	}
	const char *ss = getenv("XZSIM_SCHED_SEED");
	if (ss) {
		static sim_params p;
		memset(&p, 0, sizeof p);
		p.seed = strtoull(ss, NULL, 10);
		p.strategy = SIM_STRAT_RANDOM;
		const char *st = getenv("XZSIM_SCHED_STRATEGY");
		if (st) p.strategy = atoi(st);
		p.preempt_permille = 300;
		const char *pr = getenv("XZSIM_SCHED_PREEMPT");
		if (pr) p.preempt_permille = (uint32_t)atoi(pr);
		p.ns_per_step = 1000;
		p.max_steps = 1ull << 40;
		p.fair_budget = 1ull << 40;
		p.pct_d = 2;
		sim_begin(&p);
	}
	heap_base = heap_cur;
}

static int sig_deliverable(int signo)
{
	struct sigaction sa;
	if (sigaction(signo, NULL, &sa) != 0) return 0;
	if (sa.sa_handler == SIG_DFL || sa.sa_handler == SIG_IGN) return 0;
	sigset_t cur;
	if (pthread_sigmask(SIG_SETMASK, NULL, &cur) != 0) return 0;
	return !sigismember(&cur, signo);
}

// Returns the fault to apply to this call or NULL. Also handles "at".
static fault_t *pre(const char *name, int role, const char **note)
{
	++evno;
	*note = "";
	for (int i = 0; i < nats; ++i) {
		if (ats[i].used || ats[i].n != evno) continue;
		ats[i].used = 1;
		if (!strcmp(ats[i].act, "exit")) { out("%ld %s %s - - -> killed 0 FAULT:exit\n", evno, name, role_names[role]); _exit(137); }
		if (!strcmp(ats[i].act, "signal")) { out("%ld %s %s - - -> - 0 FAULT:signal%ld\n", evno, name, role_names[role], ats[i].arg); raise((int)ats[i].arg); }
	}
	int cid = call_id(name);
	long nth = ++counts[cid][role];
	for (int i = 0; i < nfaults; ++i) {
		fault_t *f = &faults[i];
		if (f->used || strcmp(f->call, name) || (f->role >= 0 && f->role != role) || f->nth != nth) continue;
		f->used = 1;
		if (!strcmp(f->act, "signal")) { *note = " FAULT:signal"; raise((int)f->arg); return NULL; }
		return f;
	}
	return NULL;
}

static int role_of(int fd) { return fd >= 0 && fd < MAXFD ? fd_role[fd] : R_OTHER; }

// common handling of errno / eintr / eagain faults; returns 1 when the call
// must fail now (errno set)
static int fail_now(fault_t *f, int fd, const char *name, const char **note)
{
	if (!f) return 0;
	if (!strcmp(f->act, "errno")) { errno = (int)f->arg; *note = " FAULT:errno"; return 1; }
	if (!strcmp(f->act, "eintr")) {
		if ((!strcmp(name, "read") || !strcmp(name, "write") || !strcmp(name, "poll")) && sig_deliverable((int)f->arg)) {
			raise((int)f->arg); errno = EINTR; *note = " FAULT:eintr"; return 1;
		}
		*note = " fault-not-applicable:eintr";
		return 0;
	}
	if (!strcmp(f->act, "eagain")) {
		struct stat st;
		int fl = fcntl(fd, F_GETFL);
		if (fl >= 0 && (fl & O_NONBLOCK) && __real_fstat(fd, &st) == 0 && !S_ISREG(st.st_mode)) { errno = EAGAIN; *note = " FAULT:eagain"; return 1; }
		*note = " fault-not-applicable:eagain";
		return 0;
	}
	return 0;
}

// The tool's standard input and output may be real pipes to the driver, whose
// pace is not ours to decide. To keep every run a function of its plan, the
// simulated pipe never makes the tool wait on its own: an un-faulted read
// delivers the full count unless the end of the stream comes first, an
// un-faulted write always takes everything (EAGAIN from the real pipe is
// waited out here), and an un-faulted poll returns "ready". Short counts,
// EAGAIN and timeouts happen exactly where the plan injects them.
static int is_std_pipe(int fd, int role)
{
	if (role != R_STDIN && role != R_STDOUT) return 0;
	struct stat st;
	return __real_fstat(fd, &st) == 0 && S_ISFIFO(st.st_mode);
}

static ssize_t pipe_read(int fd, int role, void *buf, size_t want)
{
	if (!is_std_pipe(fd, role)) return __real_read(fd, buf, want);
	size_t done = 0;
	while (done < want) {
		ssize_t r = __real_read(fd, (char *)buf + done, want - done);
		if (r > 0) { done += (size_t)r; continue; }
		if (r == 0) break;
		if (errno == EAGAIN || errno == EINTR) { struct pollfd p = { fd, POLLIN, 0 }; (void)__real_poll(&p, 1, -1); continue; }
		return done ? (ssize_t)done : -1;
	}
	return (ssize_t)done;
}

static ssize_t pipe_write(int fd, int role, const void *buf, size_t want)
{
	if (!is_std_pipe(fd, role)) return __real_write(fd, buf, want);
	size_t done = 0;
	while (done < want) {
		ssize_t r = __real_write(fd, (const char *)buf + done, want - done);
		if (r >= 0) { done += (size_t)r; continue; }
		if (errno == EAGAIN || errno == EINTR) { struct pollfd p = { fd, POLLOUT, 0 }; (void)__real_poll(&p, 1, -1); continue; }
		return done ? (ssize_t)done : -1;
	}
	return (ssize_t)done;
}

ssize_t __wrap_read(int fd, void *buf, size_t n)
{
	const char *note; int role = role_of(fd);
	fault_t *f = pre("read", role, &note);
	ssize_t r;
	if (fail_now(f, fd, "read", &note)) r = -1;
	else {
		size_t want = n;
		if (f && !strcmp(f->act, "short") && n >= 2) { want = (size_t)f->arg; if (want < 1) want = 1; if (want >= n) want = n - 1; note = " FAULT:short"; }
		r = pipe_read(fd, role, buf, want);
	}
	int e = errno;
	out("%ld read %s %d %zu -> %zd %d%s\n", evno, role_names[role], fd, n, r, r < 0 ? e : 0, note);
	errno = e;
	return r;
}

ssize_t __wrap_write(int fd, const void *buf, size_t n)
{
	if (fd == log_fd) return __real_write(fd, buf, n);
	const char *note; int role = role_of(fd);
	fault_t *f = pre("write", role, &note);
	ssize_t r;
	if (fail_now(f, fd, "write", &note)) {
		r = -1;
		if (errno == EPIPE) raise(SIGPIPE);
	} else {
		size_t want = n;
		if (f && !strcmp(f->act, "short") && n >= 2) { want = (size_t)f->arg; if (want < 1) want = 1; if (want >= n) want = n - 1; note = " FAULT:short"; }
		r = pipe_write(fd, role, buf, want);
	}
	int e = errno;
	out("%ld write %s %d %zu -> %zd %d%s\n", evno, role_names[role], fd, n, r, r < 0 ? e : 0, note);
	errno = e;
	return r;
}

int __wrap_open(const char *path, int flags, ...)
{
	mode_t mode = 0;
	if (flags & (O_CREAT | O_TMPFILE)) { va_list ap; va_start(ap, flags); mode = (mode_t)va_arg(ap, int); va_end(ap); }
	const char *note;
	int role = (flags & O_ACCMODE) != O_RDONLY ? R_DEST : R_SRC;
	struct stat st;
	if ((flags & O_DIRECTORY) || (__real_stat(path, &st) == 0 && S_ISDIR(st.st_mode))) role = R_DIR;
	fault_t *f = pre("open", role, &note);
	int r;
	if (fail_now(f, -1, "open", &note)) r = -1;
	else r = __real_open(path, flags, mode);
	int e = errno;
	if (r >= 0 && r < MAXFD) fd_role[r] = role;
	out("%ld open %s %d flags=0x%x path=%s -> %d %d%s\n", evno, role_names[role], r, flags, path, r, r < 0 ? e : 0, note);
	errno = e;
	return r;
}

int __wrap_close(int fd)
{
	if (fd == log_fd) return 0;
	const char *note; int role = role_of(fd);
	fault_t *f = pre("close", role, &note);
	int r;
	if (fail_now(f, fd, "close", &note)) { __real_close(fd); r = -1; }   // POSIX: the descriptor is gone even if close fails
	else r = __real_close(fd);
	int e = errno;
	out("%ld close %s %d - -> %d %d%s\n", evno, role_names[role], fd, r, r < 0 ? e : 0, note);
	if (fd >= 0 && fd < MAXFD) fd_role[fd] = R_OTHER;
	errno = e;
	return r;
}

off_t __wrap_lseek(int fd, off_t off, int whence)
{
	const char *note; int role = role_of(fd);
	fault_t *f = pre("lseek", role, &note);
	off_t r;
	if (fail_now(f, fd, "lseek", &note)) r = -1;
	else r = __real_lseek(fd, off, whence);
	int e = errno;
	out("%ld lseek %s %d off=%lld,whence=%d -> %lld %d%s\n", evno, role_names[role], fd, (long long)off, whence, (long long)r, r < 0 ? e : 0, note);
	errno = e;
	return r;
}

int __wrap_fsync(int fd)
{
	const char *note; int role = role_of(fd);
	fault_t *f = pre("fsync", role, &note);
	int r;
	if (fail_now(f, fd, "fsync", &note)) r = -1;
	else r = __real_fsync(fd);
	int e = errno;
	out("%ld fsync %s %d - -> %d %d%s\n", evno, role_names[role], fd, r, r < 0 ? e : 0, note);
	errno = e;
	return r;
}

int __wrap_unlink(const char *path)
{
	const char *note;
	fault_t *f = pre("unlink", R_PATH, &note);
	int r;
	if (fail_now(f, -1, "unlink", &note)) r = -1;
	else r = __real_unlink(path);
	int e = errno;
	out("%ld unlink path -1 path=%s -> %d %d%s\n", evno, path, r, r < 0 ? e : 0, note);
	errno = e;
	return r;
}

int __wrap_fchown(int fd, uid_t u, gid_t g)
{
	const char *note; int role = role_of(fd);
	fault_t *f = pre("fchown", role, &note);
	int r;
	if (fail_now(f, fd, "fchown", &note)) r = -1;
	else r = __real_fchown(fd, u, g);
	int e = errno;
	out("%ld fchown %s %d uid=%d,gid=%d -> %d %d%s\n", evno, role_names[role], fd, (int)u, (int)g, r, r < 0 ? e : 0, note);
	errno = e;
	return r;
}

int __wrap_fchmod(int fd, mode_t m)
{
	const char *note; int role = role_of(fd);
	fault_t *f = pre("fchmod", role, &note);
	int r;
	if (fail_now(f, fd, "fchmod", &note)) r = -1;
	else r = __real_fchmod(fd, m);
	int e = errno;
	out("%ld fchmod %s %d mode=0%o -> %d %d%s\n", evno, role_names[role], fd, (unsigned)m, r, r < 0 ? e : 0, note);
	errno = e;
	return r;
}

int __wrap_futimens(int fd, const struct timespec t[2])
{
	const char *note; int role = role_of(fd);
	fault_t *f = pre("futimens", role, &note);
	int r;
	if (fail_now(f, fd, "futimens", &note)) r = -1;
	else r = __real_futimens(fd, t);
	int e = errno;
	out("%ld futimens %s %d - -> %d %d%s\n", evno, role_names[role], fd, r, r < 0 ? e : 0, note);
	errno = e;
	return r;
}

int __wrap_fstat(int fd, struct stat *st)
{
	const char *note; int role = role_of(fd);
	fault_t *f = pre("fstat", role, &note);
	int r;
	if (fail_now(f, fd, "fstat", &note)) r = -1;
	else r = __real_fstat(fd, st);
	int e = errno;
	out("%ld fstat %s %d - -> %d %d%s\n", evno, role_names[role], fd, r, r < 0 ? e : 0, note);
	errno = e;
	return r;
}

int __wrap_stat(const char *path, struct stat *st)
{
	const char *note;
	fault_t *f = pre("stat", R_PATH, &note);
	int r;
	if (fail_now(f, -1, "stat", &note)) r = -1;
	else r = __real_stat(path, st);
	int e = errno;
	out("%ld stat path -1 path=%s -> %d %d%s\n", evno, path, r, r < 0 ? e : 0, note);
	errno = e;
	return r;
}

int __wrap_lstat(const char *path, struct stat *st)
{
	const char *note;
	fault_t *f = pre("lstat", R_PATH, &note);
	int r;
	if (fail_now(f, -1, "lstat", &note)) r = -1;
	else r = __real_lstat(path, st);
	int e = errno;
	out("%ld lstat path -1 path=%s -> %d %d%s\n", evno, path, r, r < 0 ? e : 0, note);
	errno = e;
	return r;
}

int __wrap_poll(struct pollfd *fds, nfds_t n, int timeout)
{
	const char *note; int role = n > 0 ? role_of(fds[0].fd) : R_OTHER;
	fault_t *f = pre("poll", role, &note);
	int r;
	if (fail_now(f, n > 0 ? fds[0].fd : -1, "poll", &note)) r = -1;
	else if (f && !strcmp(f->act, "timeout") && timeout >= 0) { for (nfds_t i = 0; i < n; ++i) fds[i].revents = 0; r = 0; note = " FAULT:timeout"; if (sim_active()) sim_advance_ns((uint64_t)timeout * 1000000ull); }
	else {
		// (see is_std_pipe) never a real timeout: wait until the real pipe is ready
		int std = n > 0 && is_std_pipe(fds[0].fd, role);
		r = __real_poll(fds, n, std ? -1 : timeout);
	}
	int e = errno;
	out("%ld poll %s %d timeout=%d -> %d %d%s\n", evno, role_names[role], n > 0 ? fds[0].fd : -1, timeout, r, r < 0 ? e : 0, note);
	errno = e;
	return r;
}

int __wrap_pipe(int p[2])
{
	const char *note;
	fault_t *f = pre("pipe", R_OTHER, &note);
	int r;
	if (fail_now(f, -1, "pipe", &note)) r = -1;
	else r = __real_pipe(p);
	int e = errno;
	if (r == 0) { if (p[0] < MAXFD) fd_role[p[0]] = R_PIPE; if (p[1] < MAXFD) fd_role[p[1]] = R_PIPE; }
	out("%ld pipe other -1 - -> %d %d%s\n", evno, r, r < 0 ? e : 0, note);
	errno = e;
	return r;
}

int __wrap_posix_fadvise(int fd, off_t a, off_t b, int adv)
{
	const char *note; int role = role_of(fd);
	fault_t *f = pre("fadvise", role, &note);
	int r = (f && !strcmp(f->act, "errno")) ? (int)f->arg : __real_posix_fadvise(fd, a, b, adv);
	out("%ld fadvise %s %d - -> %d 0%s\n", evno, role_names[role], fd, r, note);
	return r;
}

uid_t __wrap_geteuid(void)
{
	const char *note;
	(void)pre("geteuid", R_OTHER, &note);
	uid_t r = euid_override >= 0 ? (uid_t)euid_override : __real_geteuid();
	out("%ld geteuid other -1 - -> %d 0%s\n", evno, (int)r, euid_override >= 0 ? " FAULT:euid" : "");
	return r;
}
