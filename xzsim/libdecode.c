// libdecode: "a direct library decode done by the checker" (C18 oracle).
// Decodes a file with the tree's liblzma through lzma_code(), single-threaded,
// one call with all input, and reports what the library delivered.
//   libdecode <file> <format: auto|xz|lzma|lzip> <single_stream 0|1> <ignore_check 0|1> <outfile> [chunk]
// stdout: "status <lzma_ret> total_in <n> total_out <n> unsupported_check <0|1>"
#include <lzma.h>
#include <stdio.h>
#include <stdlib.h>
#include <string.h>

int main(int argc, char **argv)
{
	if (argc < 6) return 2;
	FILE *f = fopen(argv[1], "rb");
	if (!f) return 2;
	fseek(f, 0, SEEK_END);
	long n = ftell(f);
	fseek(f, 0, SEEK_SET);
	unsigned char *in = malloc(n ? (size_t)n : 1);
	if (fread(in, 1, (size_t)n, f) != (size_t)n) return 2;
	fclose(f);
	int single = atoi(argv[3]), ignore = atoi(argv[4]);
	uint32_t flags = ignore ? LZMA_IGNORE_CHECK : LZMA_TELL_UNSUPPORTED_CHECK;
	if (!single) flags |= LZMA_CONCATENATED;
	lzma_stream s = LZMA_STREAM_INIT;
	lzma_ret r;
	if (!strcmp(argv[2], "xz")) r = lzma_stream_decoder(&s, UINT64_MAX, flags);
	else if (!strcmp(argv[2], "lzma")) r = lzma_alone_decoder(&s, UINT64_MAX);
	else if (!strcmp(argv[2], "lzip")) r = lzma_lzip_decoder(&s, UINT64_MAX, flags);
	else r = lzma_auto_decoder(&s, UINT64_MAX, flags);
	if (r != LZMA_OK) { printf("status %d total_in 0 total_out 0 unsupported_check 0\n", (int)r); return 0; }
	FILE *o = fopen(argv[5], "wb");
	if (!o) return 2;
	static unsigned char buf[1 << 20];
	s.next_in = in; s.avail_in = (size_t)n;
	int unsupported = 0;
	size_t chunk = argc > 6 ? (size_t)atol(argv[6]) : 0;
	if (chunk > 0 && chunk <= sizeof buf) {
		// the tools' buffer discipline: input in chunks of `chunk` bytes with
		// LZMA_RUN until the end of the file is seen, an output buffer of
		// `chunk` bytes written out when full and at the end
		size_t pos = 0;
		s.avail_in = 0; s.next_out = buf; s.avail_out = chunk;
		lzma_action act = LZMA_RUN;
		for (;;) {
			if (s.avail_in == 0 && act == LZMA_RUN) {
				size_t k = (size_t)n - pos < chunk ? (size_t)n - pos : chunk;
				s.next_in = in + pos; s.avail_in = k; pos += k;
				if (k < chunk) act = LZMA_FINISH;
			}
			r = lzma_code(&s, act);
			if (s.avail_out == 0) { fwrite(buf, 1, chunk, o); s.next_out = buf; s.avail_out = chunk; }
			if (r == LZMA_UNSUPPORTED_CHECK) { unsupported = 1; continue; }
			if (r != LZMA_OK) break;
		}
		fwrite(buf, 1, chunk - s.avail_out, o);
	} else
	for (;;) {
		s.next_out = buf; s.avail_out = sizeof buf;
		r = lzma_code(&s, LZMA_FINISH);
		fwrite(buf, 1, sizeof buf - s.avail_out, o);
		if (r == LZMA_UNSUPPORTED_CHECK) { unsupported = 1; continue; }
		if (r != LZMA_OK) break;
	}
	fclose(o);
	printf("status %d total_in %llu total_out %llu unsupported_check %d\n", (int)r, (unsigned long long)s.total_in,
		(unsigned long long)s.total_out, unsupported);
	lzma_end(&s);
	return 0;
}
