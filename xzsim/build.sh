#!/bin/sh
# Links shimmed copies of xz, xzdec, lzmadec, lzmainfo from the objects of the
# plain flavour (built from /repo's working tree by bin/build.sh plain).
set -e
V=$(cd "$(dirname "$0")/.." && pwd)
"$V/bin/build.sh" plain
B=$V/build/plain
X=$B/xz
O=$B/xzsim
mkdir -p "$O"
(
flock 9
WRAP=""
for s in read write open close lseek fsync unlink fchown fchmod futimens fstat stat lstat poll pipe posix_fadvise geteuid malloc calloc realloc free \
  pthread_create pthread_join pthread_mutex_init pthread_mutex_destroy pthread_mutex_lock pthread_mutex_unlock \
  pthread_cond_init pthread_cond_destroy pthread_cond_signal pthread_cond_wait pthread_cond_timedwait clock_gettime; do
  WRAP="$WRAP -Wl,--wrap=$s"
done
gcc -std=gnu11 -O2 -g -Wall -Wextra -c "$V/xzsim/shim.c" -o "$O/shim.o"
gcc -std=gnu11 -O2 -g -Wall -Wextra -c "$V/simrt/sim.c" -o "$O/sim.o"
for T in xz xzdec lzmadec lzmainfo; do
  OBJS=$(find "$X/CMakeFiles/$T.dir" -name '*.o' | sort)
  gcc -o "$O/$T.sim" $OBJS "$O/shim.o" "$O/sim.o" "$X/liblzma.a" $WRAP -lpthread
  # unshimmed twin for the fidelity check
  cp "$X/$T" "$O/$T.real"
done
) 9> "$O/.lock"
