"""C12 (tool level): xz --flush-timeout. The producer on standard input is slow
(simulated: read() on the non-blocking stdin returns EAGAIN at seeded calls
and the following poll() times out, which also moves the simulated clock), xz
then has to flush: when it comes back for more input, everything it has read so
far must be decodable from what it has written so far - a reader that sees
only those bytes (crash after the acknowledgement) recovers every byte."""
import random

import xzsim


def cases(rng, n):
    out = []
    for _ in range(n):
        ln = rng.choice([1, 500, 9000, 40000, 150000, 400000])
        f = {"name": "in.dat", "class": rng.choice(["text", "random", "sparse", "text"]), "len": ln, "seed": rng.getrandbits(30)}
        args = ["--flush-timeout=%d" % rng.choice([1, 20, 500]), "-%d" % rng.randint(0, 3)]
        if rng.random() < 0.3:
            args.append("--lzma2=preset=%d,lc=%d,lp=%d,pb=%d,mf=%s" % (rng.randint(0, 2), *rng.choice([(3, 0, 2), (0, 0, 0), (4, 0, 0), (0, 4, 2)]), rng.choice(["hc3", "hc4", "bt2", "bt3", "bt4"])))
        if rng.random() < 0.2:
            args.append("-T%d" % rng.choice([1, 2, 4]))
        if rng.random() < 0.15:
            extra = rng.choice(["--x86", "--delta=dist=3", "--format=lzma", "--check=sha256"])
            if extra in ("--x86", "--delta=dist=3"):
                args = [a for a in args if not a.startswith(("--lzma2", "-0", "-1", "-2", "-3"))] + [extra, "--lzma2=preset=1"]
            elif extra == "--format=lzma":
                args = [a for a in args if not a.startswith("--lzma2")] + [extra]
            else:
                args.append(extra)
        reads = sorted(rng.sample(range(1, 60), rng.choice([1, 2, 4, 8])))
        faults = []
        for k, r in enumerate(reads):
            faults.append("f read stdin %d eagain" % r)
            if rng.random() < 0.85:
                faults.append("f poll stdin %d timeout" % (k + 1))
        out.append({"kind": "c12flush", "tool": "xz", "files": [f], "args": args, "stdin_pipe_from": "in.dat", "stdout": "pipe", "faults": faults,
                    "sched_seed": rng.getrandbits(30), "sched_preempt": rng.choice([50, 300, 900]), "sched_strategy": rng.choice([0, 1, 2]),
                    "_fmt": "lzma" if "--format=lzma" in args else "auto"})
    return out


def judge_flush(case, res):
    counters = {"runs.total": 1, "runs.xz_flush_timeout": 1}
    feats = []
    plain = res["orig"]["in.dat"]
    ctx = " [xz %s; %d bytes of %s on stdin; faults %s]" % (" ".join(case["args"]), len(plain), case["files"][0]["class"], "; ".join(case["faults"]))

    def viol(cls, msg):
        return {"cls": cls, "sig": "C12/xz-" + cls, "msg": msg + ctx + "\nstderr: " + res["stderr"][-300:]}, feats, counters
    if res["rc"] == -999:
        return viol("hang", "xz did not terminate")
    # BCJ filters and LZMA1 cannot honour a sync flush (delta can): xz has to refuse these up front
    bcj = any(a in ("--x86", "--format=lzma") for a in case["args"])
    if res["rc"] != 0:
        if bcj and "incompatible with --flush-timeout" in res["stderr"] and not res["stdout"]:
            counters["reach.xz_flush_timeout_refused_for_bcj_chain"] = 1
            return None, feats, counters
        return viol("failed", "xz failed with exit %d" % res["rc"])
    if bcj:
        return viol("unflushable-chain-accepted", "xz accepted --flush-timeout with a chain that cannot be sync-flushed")
    ref = xzsim.lib_decode(res["stdout"], case["_fmt"])
    if ref["status"] != 1 or ref["out"] != plain:
        return viol("roundtrip", "the whole output decodes to %d bytes with status %d (input %d bytes)" % (len(ref["out"]), ref["status"], len(plain)))
    rd = wr = 0
    pending = False
    flushes = 0
    for e in res["events"]:
        if e["call"] == "poll" and "FAULT:timeout" in e["note"]:
            pending = True
            counters["fault.poll_timeout_stdin"] = counters.get("fault.poll_timeout_stdin", 0) + 1
        elif e["call"] == "read" and e["role"] == "stdin":
            if pending and rd > 0:
                # xz is back for more input after a flush timeout: crash-after-acknowledgement check
                part = xzsim.lib_decode(res["stdout"][:wr], case["_fmt"])
                flushes += 1
                if part["status"] not in (0, 1, 10) or part["out"] != plain[:rd]:
                    return viol("flush-durability", "after a flush timeout xz had read %d bytes and written %d; those %d bytes decode to %d bytes (status %d)" % (rd, wr, wr, len(part["out"]), part["status"]))
            pending = False
            try:
                r = int(e["ret"])
            except ValueError:
                r = -1
            if r > 0:
                rd += r
            if "FAULT" in e["note"]:
                counters["fault.read_eagain_stdin"] = counters.get("fault.read_eagain_stdin", 0) + 1
        elif e["call"] == "write" and e["role"] == "stdout":
            try:
                r = int(e["ret"])
            except ValueError:
                r = -1
            if r > 0:
                wr += r
    if flushes:
        counters["reach.xz_flush_points_checked"] = flushes
    feats.append("flush|%d|%s|%s" % (min(flushes, 5), case["files"][0]["class"], " ".join(a.split("=")[0] for a in case["args"])))
    return None, feats, counters
