"""C13 (xz --list part): the figures printed by `xz --list --robot -vv` equal
those of a list-of-records model obtained by an independent parse of the file
(written from section 2 and 4 of the .xz file format specification)."""
import random
import struct
import subprocess
import zlib

import xzsim

CHECK_NAMES = {0: "None", 1: "CRC32", 4: "CRC64", 10: "SHA-256"}
CHECK_SIZES = [0, 4, 4, 4, 8, 8, 8, 16, 16, 16, 32, 32, 32, 64, 64, 64]


def vli(b, p):
    v = 0
    s = 0
    while True:
        c = b[p]
        p += 1
        v |= (c & 0x7f) << s
        if not c & 0x80:
            return v, p
        s += 7


def parse_xz(data):
    """Backward parse: [(check, padding, [(unpadded, uncompressed)...]), ...] in file order."""
    streams = []
    end = len(data)
    while end > 0:
        pad = 0
        while end >= 4 and data[end - 4:end] == b"\0\0\0\0":
            end -= 4
            pad += 4
        if end == 0:
            break
        footer = data[end - 12:end]
        assert footer[10:12] == b"YZ", "footer magic"
        assert zlib.crc32(footer[4:10]) == struct.unpack("<I", footer[0:4])[0], "footer crc"
        bsize = (struct.unpack("<I", footer[4:8])[0] + 1) * 4
        check = footer[9] & 0x0f
        ioff = end - 12 - bsize
        idx = data[ioff:end - 12]
        assert idx[0] == 0
        n, p = vli(idx, 1)
        recs = []
        for _ in range(n):
            u, p = vli(idx, p)
            s, p = vli(idx, p)
            recs.append((u, s))
        blocks = sum((u + 3) & ~3 for u, _ in recs)
        start = ioff - blocks - 12
        assert data[start:start + 6] == b"\xfd7zXZ\0", "header magic"
        streams.append((check, pad, recs, start, end - start))
        end = start
    streams.reverse()
    # padding belongs to the stream before it
    out = []
    for k, (check, pad, recs, start, size) in enumerate(streams):
        out.append({"check": check, "padding": streams[k][1], "recs": recs, "start": start, "size": size})
    return out


def cases(rng, n):
    out = []
    for _ in range(n):
        files = []
        ns = rng.choice([1, 1, 2, 3])
        for k in range(ns):
            args = [rng.choice(["-0", "-1"]), "--check=%s" % rng.choice(["none", "crc32", "crc64", "sha256"])]
            if rng.random() < 0.6:
                args += ["-T2", "--block-size=%d" % rng.choice([1000, 5000, 20000])]
            files.append({"name": "part%d" % k, "class": rng.choice(["text", "random", "sparse", "zeros"]), "len": rng.choice([0, 1, 3000, 30000, 90000]),
                          "seed": rng.getrandbits(30), "compress_args": args, "pad": rng.choice([0, 0, 4, 8, 64])})
        out.append({"kind": "list", "tool": "xz", "files": files, "args": ["--list", "--robot", "-vv", "joined.xz"], "stdout": "pipe", "_join": True,
                    "sched_seed": rng.getrandbits(30), "faults": ["f read src %d short %d" % (rng.randint(1, 6), rng.choice([1, 7, 100]))] if rng.random() < 0.5 else []})
    return out


def judge_list(case, res):
    counters = {"runs.total": 1, "runs.list": 1}
    feats = []
    data = res["tree"].get("joined.xz", {}).get("data")

    def viol(cls, msg):
        return {"cls": cls, "sig": "C13/" + cls, "msg": msg + " [xz --list on %d streams]\nstdout: %s\nstderr: %s" % (len(case["files"]), res["stdout"][:600].decode("latin1"), res["stderr"][-300:])}, feats, counters
    if data is None:
        return viol("harness", "no joined file")
    model = parse_xz(data)
    if res["rc"] != 0:
        return viol("list-failed", "xz --list failed with status %s on a valid file" % res["rc"])
    lines = [l.split("\t") for l in res["stdout"].decode().splitlines()]
    fl = [l for l in lines if l[0] == "file"]
    if len(fl) != 1:
        return viol("list-format", "no file line")
    f = fl[0]
    nblocks = sum(len(s["recs"]) for s in model)
    comp = len(data)
    uncomp = sum(u for s in model for _, u in s["recs"])
    pad = sum(s["padding"] for s in model)
    checks = ",".join(CHECK_NAMES[c] for c in sorted(set(s["check"] for s in model)))
    want = [str(len(model)), str(nblocks), str(comp), str(uncomp)]
    if f[1:5] != want:
        return viol("list-totals", "file line says streams/blocks/compressed/uncompressed = %s, the file really has %s" % (f[1:5], want))
    if f[6] != checks or f[7] != str(pad):
        return viol("list-totals", "file line says checks %s padding %s, the file really has %s / %d" % (f[6], f[7], checks, pad))
    sl = [l for l in lines if l[0] == "stream"]
    bl = [l for l in lines if l[0] == "block"]
    if len(sl) != len(model) or len(bl) != nblocks:
        return viol("list-items", "%d stream lines and %d block lines for %d streams and %d blocks" % (len(sl), len(bl), len(model), nblocks))
    uoff = 0
    bn = 0
    for k, s in enumerate(model):
        su = sum(u for _, u in s["recs"])
        want = [str(k + 1), str(len(s["recs"])), str(s["start"]), str(uoff), str(s["size"]), str(su)]
        if sl[k][1:7] != want or sl[k][8] != CHECK_NAMES[s["check"]] or sl[k][9] != str(s["padding"]):
            return viol("list-stream", "stream line %s, model %s check %s padding %d" % (sl[k], want, CHECK_NAMES[s["check"]], s["padding"]))
        coff = s["start"] + 12
        bu = uoff
        for j, (u, sz) in enumerate(s["recs"]):
            want = [str(k + 1), str(j + 1), str(bn + 1), str(coff), str(bu), str((u + 3) & ~3), str(sz)]
            if bl[bn][1:8] != want:
                return viol("list-block", "block line %s, model %s" % (bl[bn][:9], want))
            coff += (u + 3) & ~3
            bu += sz
            bn += 1
        uoff += su
    feats.append("list|%d|%d|%s" % (len(model), min(nblocks, 20), checks))
    return None, feats, counters
