// See sim.h. This translation unit must be compiled WITHOUT sanitizer
// instrumentation (-fno-sanitize=all): the baton is passed with raw futex
// system calls so that ThreadSanitizer computes happens-before only from the
// synchronisation the code under test performs (mutex acquire/release is
// announced through __tsan_acquire/__tsan_release), not from our scheduler.
#define _GNU_SOURCE
#include "sim.h"

#include <errno.h>
#include <limits.h>
#include <linux/futex.h>
#include <pthread.h>
#include <stdarg.h>
#include <stdio.h>
#include <stdlib.h>
#include <string.h>
#include <sys/syscall.h>
#include <time.h>
#include <unistd.h>

extern void __tsan_acquire(void *addr) __attribute__((weak));
extern void __tsan_release(void *addr) __attribute__((weak));

int __real_pthread_create(pthread_t *, const pthread_attr_t *,
		void *(*)(void *), void *);
int __real_pthread_join(pthread_t, void **);
int __real_pthread_mutex_init(pthread_mutex_t *, const pthread_mutexattr_t *);
int __real_pthread_mutex_destroy(pthread_mutex_t *);
int __real_pthread_mutex_lock(pthread_mutex_t *);
int __real_pthread_mutex_unlock(pthread_mutex_t *);
int __real_pthread_cond_init(pthread_cond_t *, const pthread_condattr_t *);
int __real_pthread_cond_destroy(pthread_cond_t *);
int __real_pthread_cond_signal(pthread_cond_t *);
int __real_pthread_cond_wait(pthread_cond_t *, pthread_mutex_t *);
int __real_pthread_cond_timedwait(pthread_cond_t *, pthread_mutex_t *,
		const struct timespec *);
int __real_clock_gettime(clockid_t, struct timespec *);

#define MAX_THREADS 64
#define MAX_OBJS 512
#define MAX_CHOICES (1u << 20)

enum { T_FREE = 0, T_RUN, T_BLK_MUTEX, T_BLK_COND, T_BLK_JOIN, T_DONE };
enum { OP_YIELD = 1, OP_LOCK, OP_UNLOCK, OP_WAIT, OP_TIMEDWAIT, OP_SIGNAL,
	OP_CREATE, OP_JOIN, OP_EXIT, OP_START, OP_MINIT, OP_MDESTROY, OP_CINIT,
	OP_CDESTROY, OP_CLOCK };

typedef struct {
	int state;
	int futex;         // 0 parked, 1 go
	int obj;           // mutex / cond index, or thread id for join
	int cond_mutex;    // mutex index to re-acquire after a cond wait
	int timed;
	int woken;         // cond: signalled / timed out / spurious -> wants mutex
	int wake_result;   // 0 or ETIMEDOUT
	uint64_t deadline;
	uint64_t wait_since;
	uint64_t last_run;
	int prio;
	int joined;
	pthread_t real;
	void *(*fn)(void *);
	void *arg;
	int last_op;
} sthread;

typedef struct {
	void *addr;
	int live;
	int is_cond;
	int owner;  // mutex: thread id or -1
} sobj;

static struct {
	int active;
	int fair;
	sim_params p;
	sthread th[MAX_THREADS];
	int nth;         // highest used index + 1
	int cur;
	sobj obj[MAX_OBJS];
	int nobj;
	uint64_t rng[4];
	uint64_t now, start;
	uint64_t steps, fair_steps;
	uint64_t hash;
	uint32_t *clog;
	size_t nclog;
	size_t cpos;     // replay position
	sim_counters c;
	uint64_t tbits;
	int ncreate, nminit, ncinit;
	int stall_victim;
	uint64_t stall_until;
	uint32_t pct_points[8];
	int max_threads;
	int last_thread_cls, last_opcode;
	int trace;
} S;

static __thread int my_id = -1;
static sim_fatal_fn fatal_fn;

// ---------------------------------------------------------------- utilities

static uint64_t
rotl(uint64_t x, int k) { return (x << k) | (x >> (64 - k)); }

static uint64_t
rng_next(void)
{
	uint64_t *s = S.rng;
	const uint64_t result = rotl(s[1] * 5, 7) * 9;
	const uint64_t t = s[1] << 17;
	s[2] ^= s[0]; s[3] ^= s[1]; s[1] ^= s[2]; s[0] ^= s[3];
	s[2] ^= t; s[3] = rotl(s[3], 45);
	return result;
}

static void
rng_seed(uint64_t x)
{
	for (int i = 0; i < 4; ++i) {
		uint64_t z = (x += 0x9e3779b97f4a7c15ull);
		z = (z ^ (z >> 30)) * 0xbf58476d1ce4e5b9ull;
		z = (z ^ (z >> 27)) * 0x94d049bb133111ebull;
		S.rng[i] = z ^ (z >> 31);
	}
}

static void
hash_mix(uint64_t v)
{
	S.hash ^= v;
	S.hash *= 0x100000001b3ull;
}

static void
die(const char *cls, const char *fmt, ...)
{
	static char buf[8192];
	va_list ap;
	va_start(ap, fmt);
	int n = vsnprintf(buf, sizeof(buf) / 2, fmt, ap);
	va_end(ap);
	if (n < 0) n = 0;
	if ((size_t)n > sizeof(buf) / 2) n = sizeof(buf) / 2;
	buf[n++] = '\n';
	sim_describe(buf + n, sizeof(buf) - (size_t)n);
	if (fatal_fn)
		fatal_fn(cls, buf);
	fprintf(stderr, "SIM FATAL %s: %s\n", cls, buf);
	_exit(70);
}

static void
fwait(int *addr)
{
	while (__atomic_load_n(addr, __ATOMIC_ACQUIRE) == 0)
		syscall(SYS_futex, addr, FUTEX_WAIT_PRIVATE, 0, NULL, NULL, 0);
}

static void
fwake(int *addr)
{
	__atomic_store_n(addr, 1, __ATOMIC_RELEASE);
	syscall(SYS_futex, addr, FUTEX_WAKE_PRIVATE, 1, NULL, NULL, 0);
}

// A recorded choice in [0, n). In replay mode it is read from the list.
static uint32_t
choice_record(uint32_t v)
{
	if (S.nclog < MAX_CHOICES)
		S.clog[S.nclog++] = v;
	return v;
}

static int
replaying(void) { return S.p.choices != NULL; }

static uint32_t
choice_replay(uint32_t n)
{
	uint32_t v = 0;
	if (S.cpos < S.p.n_choices)
		v = S.p.choices[S.cpos];
	++S.cpos;
	return choice_record(n ? v % n : 0);
}

static int
chance(uint32_t permille)
{
	if (replaying())
		return (int)choice_replay(2);
	int r = permille != 0 && (rng_next() % 1000) < permille;
	choice_record((uint32_t)r);
	return r;
}

static uint32_t
pick(uint32_t n)
{
	if (replaying())
		return choice_replay(n);
	return choice_record((uint32_t)(rng_next() % n));
}

// ------------------------------------------------------------ object table

static int
obj_find(void *addr, int is_cond)
{
	for (int i = S.nobj - 1; i >= 0; --i)
		if (S.obj[i].live && S.obj[i].addr == addr
				&& S.obj[i].is_cond == is_cond)
			return i;
	return -1;
}

static int
obj_new(void *addr, int is_cond)
{
	// A re-initialisation at the same address replaces the old entry.
	int old = obj_find(addr, is_cond);
	if (old >= 0)
		S.obj[old].live = 0;
	if (S.nobj == MAX_OBJS) {
		// compact
		int j = 0;
		int map[MAX_OBJS];
		for (int i = 0; i < S.nobj; ++i) {
			map[i] = -1;
			if (S.obj[i].live) { map[i] = j; S.obj[j++] = S.obj[i]; }
		}
		for (int t = 0; t < S.nth; ++t) {
			sthread *x = &S.th[t];
			if (x->state == T_BLK_MUTEX) x->obj = map[x->obj];
			if (x->state == T_BLK_COND) {
				x->obj = map[x->obj];
				x->cond_mutex = map[x->cond_mutex];
			}
		}
		S.nobj = j;
		if (S.nobj == MAX_OBJS)
			die("sim-internal", "object table full");
	}
	sobj *o = &S.obj[S.nobj];
	o->addr = addr; o->live = 1; o->is_cond = is_cond; o->owner = -1;
	return S.nobj++;
}

static int
obj_get(void *addr, int is_cond)
{
	int i = obj_find(addr, is_cond);
	if (i < 0) {
		// Statically initialised or initialised before sim_begin: adopt it.
		i = obj_new(addr, is_cond);
	}
	return i;
}

// -------------------------------------------------------------- scheduling

static int
enabled(int t)
{
	sthread *x = &S.th[t];
	switch (x->state) {
	case T_RUN: return 1;
	case T_BLK_MUTEX: return S.obj[x->obj].owner < 0;
	case T_BLK_COND:
		if (x->woken)
			return S.obj[x->cond_mutex].owner < 0;
		if (x->timed && S.now >= x->deadline)
			return S.obj[x->cond_mutex].owner < 0;
		return 0;
	case T_BLK_JOIN: return S.th[x->obj].state == T_DONE;
	default: return 0;
	}
}

static int
thread_cls(int t) { return t == 0 ? 0 : 1; }

// Grant what thread t was waiting for; called right before it resumes.
static void
grant(int t)
{
	sthread *x = &S.th[t];
	switch (x->state) {
	case T_BLK_MUTEX:
		S.obj[x->obj].owner = t;
		break;
	case T_BLK_COND:
		if (!x->woken) {
			// timed out
			x->wake_result = ETIMEDOUT;
			++S.c.timeouts_fired;
		}
		S.obj[x->cond_mutex].owner = t;
		break;
	default: break;
	}
	x->state = T_RUN;
}

static void
fire_earliest_deadline(int idle)
{
	uint64_t best = UINT64_MAX;
	for (int t = 0; t < S.nth; ++t) {
		sthread *x = &S.th[t];
		if (x->state == T_BLK_COND && x->timed && !x->woken
				&& x->deadline < best)
			best = x->deadline;
	}
	if (best != UINT64_MAX && best > S.now) {
		S.now = best;
		if (idle) ++S.c.timeouts_idle_jump; else ++S.c.timeouts_early;
	}
}

static int
has_timed_waiter(void)
{
	for (int t = 0; t < S.nth; ++t) {
		sthread *x = &S.th[t];
		if (x->state == T_BLK_COND && x->timed && !x->woken)
			return 1;
	}
	return 0;
}

// Choose who runs next. me may be blocked/done.
static int
choose_next(int me)
{
	int en[MAX_THREADS];
	int n = 0;

	// Spurious wake-ups: POSIX allows pthread_cond_wait to return at any time.
	if (!S.fair && S.p.spurious_permille) {
		for (int t = 0; t < S.nth; ++t) {
			sthread *x = &S.th[t];
			if (x->state == T_BLK_COND && !x->woken
					&& chance(S.p.spurious_permille)) {
				x->woken = 1;
				x->wake_result = 0;
				++S.c.spurious_wakeups;
			}
		}
	}

	// "Time passes": the other threads were slow, a deadline is reached
	// although someone could still run.
	if (!S.fair && S.p.early_timeout_permille && has_timed_waiter()
			&& chance(S.p.early_timeout_permille))
		fire_earliest_deadline(0);

	// Current thread first, then by id: choice 0 == "keep running".
	if (me >= 0 && enabled(me))
		en[n++] = me;
	for (int t = 0; t < S.nth; ++t)
		if (t != me && enabled(t))
			en[n++] = t;

	if (n == 0) {
		if (has_timed_waiter()) {
			fire_earliest_deadline(1);
			for (int t = 0; t < S.nth; ++t)
				if (enabled(t))
					en[n++] = t;
		}
		if (n == 0)
			die("deadlock", "no thread can run at step %llu",
					(unsigned long long)S.steps);
	}

	if ((uint64_t)n > S.c.max_enabled) S.c.max_enabled = (uint64_t)n;
	if (n >= 2) ++S.c.multi_enabled_points;
	if (n == 1) {
		// no recorded choice: nothing to decide
		return en[0];
	}

	if (replaying())
		return en[choice_replay((uint32_t)n)];

	int keep = (en[0] == me);
	uint32_t idx = 0;

	if (S.fair) {
		// Fair: usually the least recently run enabled thread.
		if (rng_next() % 2) {
			uint64_t best = UINT64_MAX;
			for (int i = 0; i < n; ++i)
				if (S.th[en[i]].last_run < best) {
					best = S.th[en[i]].last_run;
					idx = (uint32_t)i;
				}
		} else {
			idx = (uint32_t)(rng_next() % (uint64_t)n);
		}
		return en[choice_record(idx)];
	}

	switch (S.p.strategy) {
	case SIM_STRAT_RUN_TO_BLOCK:
		idx = keep ? 0 : (uint32_t)(rng_next() % (uint64_t)n);
		break;
	case SIM_STRAT_PCT: {
		for (int k = 0; k < S.p.pct_d && k < 8; ++k)
			if (S.pct_points[k] == S.steps && me >= 0)
				S.th[me].prio = -(int)(k + 1);
		int best = INT_MIN;
		for (int i = 0; i < n; ++i)
			if (S.th[en[i]].prio > best) {
				best = S.th[en[i]].prio;
				idx = (uint32_t)i;
			}
		break;
	}
	case SIM_STRAT_STALL: {
		// Re-pick a victim now and then; never schedule it while others can run.
		if (S.steps >= S.stall_until) {
			S.stall_victim = en[rng_next() % (uint64_t)n];
			S.stall_until = S.steps + 20 + rng_next() % 400;
		}
		int cand[MAX_THREADS], m = 0;
		for (int i = 0; i < n; ++i)
			if (en[i] != S.stall_victim)
				cand[m++] = i;
		if (m == 0) { idx = 0; break; }
		if (keep && en[0] != S.stall_victim
				&& (rng_next() % 1000) >= S.p.preempt_permille)
			idx = 0;
		else
			idx = (uint32_t)cand[rng_next() % (uint64_t)m];
		break;
	}
	default:
		if (keep && (rng_next() % 1000) >= S.p.preempt_permille)
			idx = 0;
		else
			idx = (uint32_t)(rng_next() % (uint64_t)n);
		break;
	}
	if (keep && idx != 0) ++S.c.preemptions;
	return en[choice_record(idx)];
}

// The scheduling point. The caller has already put itself into the state it
// wants (T_RUN to merely yield). Returns when the caller runs again.
static void
sched_point(int op, int objidx)
{
	int me = S.cur;
	sthread *x = &S.th[me];
	x->last_op = op;

	++S.steps; ++S.c.steps;
	S.now += S.p.ns_per_step;
	hash_mix(((uint64_t)me << 40) ^ ((uint64_t)op << 32) ^ (uint64_t)(uint32_t)objidx);

	if (S.fair) {
		++S.fair_steps; ++S.c.fair_steps;
		if (S.fair_steps > S.p.fair_budget)
			die("liveness", "fair phase exceeded %llu steps",
					(unsigned long long)S.p.fair_budget);
	} else if (S.steps > S.p.max_steps) {
		// Keep runs bounded: stop being adversarial.
		S.fair = 1;
	}

	int next = choose_next(x->state == T_DONE ? -1 : me);
	if (S.trace) {
		static const char *on[] = { "?", "yield", "lock", "unlock", "wait", "timedwait", "signal", "create", "join", "exit", "start", "minit", "mdestroy", "cinit", "cdestroy", "clock" };
		fprintf(stderr, "sched %llu: T%d %s obj%d -> T%d\n", (unsigned long long)S.steps, me, on[op], objidx, next);
	}

	// cross-thread transition coverage
	if (next != me) {
		unsigned a = (unsigned)(thread_cls(me) * 16 + op);
		unsigned b = (unsigned)(thread_cls(next) * 16 + S.th[next].last_op);
		S.tbits |= 1ull << ((a * 31 + b * 7) % 64);
		++S.c.switches;
	}

	S.th[next].last_run = S.steps;
	if (next == me) {
		grant(me);
		return;
	}

	int done = x->state == T_DONE;
	if (!done)
		__atomic_store_n(&x->futex, 0, __ATOMIC_RELAXED);
	grant(next);
	S.cur = next;
	fwake(&S.th[next].futex);
	if (done)
		return;   // real thread exits
	fwait(&x->futex);
	// resumed: grant() was done by whoever chose us
}

// ------------------------------------------------------------------- API

void
sim_set_fatal(sim_fatal_fn fn) { fatal_fn = fn; }

void
sim_begin(const sim_params *p)
{
	if (S.active)
		die("sim-internal", "sim_begin while active");
	uint32_t *clog = S.clog;
	if (!clog)
		clog = malloc(MAX_CHOICES * sizeof(uint32_t));
	memset(&S, 0, sizeof(S));
	S.clog = clog;
	S.p = *p;
	if (S.p.ns_per_step == 0) S.p.ns_per_step = 1000;
	if (S.p.max_steps == 0) S.p.max_steps = 200000;
	if (S.p.fair_budget == 0) S.p.fair_budget = 2000000;
	rng_seed(p->seed ^ 0x5ced5ced5cedull);
	S.hash = 0xcbf29ce484222325ull;
	S.now = S.start = 1000ull * 1000000000ull;
	S.th[0].state = T_RUN;
	S.th[0].prio = 1000;
	S.nth = 1;
	S.cur = 0;
	S.max_threads = 1;
	S.stall_victim = -1;
	if (S.p.pct_horizon == 0) S.p.pct_horizon = 2000;
	for (int k = 0; k < 8; ++k)
		S.pct_points[k] = (uint32_t)(rng_next() % S.p.pct_horizon);
	my_id = 0;
	S.trace = getenv("SIM_TRACE") != NULL;
	S.active = 1;
}

int
sim_end(void)
{
	int leaked = 0;
	for (int t = 1; t < S.nth; ++t)
		if (S.th[t].state != T_FREE && !(S.th[t].state == T_DONE && S.th[t].joined))
			++leaked;
	S.active = 0;
	return leaked;
}

int sim_active(void) { return S.active; }
void sim_fair_phase(void) { S.fair = 1; }
int sim_in_fair_phase(void) { return S.fair; }
void sim_advance_ns(uint64_t ns) { S.now += ns; }
uint64_t sim_steps(void) { return S.steps; }
uint64_t sim_now_ns(void) { return S.now; }
uint64_t sim_elapsed_ns(void) { return S.now - S.start; }
uint64_t sim_trace_hash(void) { return S.hash; }
int sim_cur_thread(void) { return S.cur; }
int sim_max_threads_seen(void) { return S.max_threads; }
const sim_counters *sim_get_counters(void) { return &S.c; }
uint64_t sim_transition_bits(void) { return S.tbits; }

int
sim_live_threads(void)
{
	int n = 0;
	for (int t = 0; t < S.nth; ++t)
		if (S.th[t].state != T_FREE && S.th[t].state != T_DONE)
			++n;
	return n;
}

const uint32_t *
sim_choice_log(size_t *n)
{
	*n = S.nclog;
	return S.clog;
}

size_t
sim_describe(char *buf, size_t n)
{
	static const char *sn[] = { "free", "run", "blk-mutex", "blk-cond",
			"blk-join", "done" };
	size_t o = 0;
	for (int t = 0; t < S.nth && o + 160 < n; ++t) {
		sthread *x = &S.th[t];
		if (x->state == T_FREE) continue;
		o += (size_t)snprintf(buf + o, n - o, "  T%d %s", t, sn[x->state]);
		if (x->state == T_BLK_MUTEX)
			o += (size_t)snprintf(buf + o, n - o, " m%d(owner T%d)", x->obj,
					S.obj[x->obj].owner);
		if (x->state == T_BLK_COND)
			o += (size_t)snprintf(buf + o, n - o,
					" c%d m%d(owner T%d) since=%llu timed=%d woken=%d",
					x->obj, x->cond_mutex, S.obj[x->cond_mutex].owner,
					(unsigned long long)x->wait_since, x->timed, x->woken);
		if (x->state == T_BLK_JOIN)
			o += (size_t)snprintf(buf + o, n - o, " join T%d", x->obj);
		o += (size_t)snprintf(buf + o, n - o, "\n");
	}
	if (o < n) buf[o] = 0;
	return o;
}

// -------------------------------------------------------------- wrappers

static int
in_sim(void)
{
	if (!S.active)
		return 0;
	if (my_id < 0 || my_id != S.cur)
		die("sim-internal", "wrapped call from a thread that does not hold "
				"the baton (my_id=%d cur=%d)", my_id, S.cur);
	return 1;
}

typedef struct { int id; } tramp_arg;

static void *
trampoline(void *p)
{
	int id = (int)(intptr_t)p;
	my_id = id;
	sthread *x = &S.th[id];
	fwait(&x->futex);
	// We hold the baton now.
	void *r = x->fn(x->arg);
	// exit: hand the baton on
	x->state = T_DONE;
	sched_point(OP_EXIT, id);
	return r;
}

int
__wrap_pthread_create(pthread_t *thread, const pthread_attr_t *attr,
		void *(*fn)(void *), void *arg)
{
	if (!in_sim())
		return __real_pthread_create(thread, attr, fn, arg);
	++S.ncreate;
	if (S.p.create_fail_nth && S.ncreate == S.p.create_fail_nth) {
		++S.c.create_failed;
		sched_point(OP_CREATE, -1);
		return EAGAIN;
	}
	int id = -1;
	for (int t = 1; t < MAX_THREADS; ++t)
		if (S.th[t].state == T_FREE) { id = t; break; }
	if (id < 0)
		die("sim-internal", "too many threads");
	sthread *x = &S.th[id];
	memset(x, 0, sizeof(*x));
	x->fn = fn; x->arg = arg;
	x->state = T_RUN;
	x->last_op = OP_START;
	x->prio = replaying() ? 0 : (int)(rng_next() % 1000);
	if (id >= S.nth) S.nth = id + 1;
	int ret = __real_pthread_create(&x->real, attr, trampoline,
			(void *)(intptr_t)id);
	if (ret != 0) {
		x->state = T_FREE;
		return ret;
	}
	*thread = x->real;
	++S.c.threads_created;
	int live = sim_live_threads();
	if (live > S.max_threads) S.max_threads = live;
	sched_point(OP_CREATE, id);
	return 0;
}

int
__wrap_pthread_join(pthread_t thread, void **ret)
{
	if (!in_sim())
		return __real_pthread_join(thread, ret);
	int id = -1;
	for (int t = 1; t < S.nth; ++t)
		if (S.th[t].state != T_FREE && !S.th[t].joined
				&& pthread_equal(S.th[t].real, thread)) { id = t; break; }
	if (id < 0)
		die("sim-internal", "join of unknown thread");
	sthread *me = &S.th[S.cur];
	me->state = T_BLK_JOIN;
	me->obj = id;
	sched_point(OP_JOIN, id);
	S.th[id].joined = 1;
	int r = __real_pthread_join(thread, ret);
	S.th[id].state = T_FREE;
	return r;
}

int
__wrap_pthread_mutex_init(pthread_mutex_t *m, const pthread_mutexattr_t *a)
{
	if (!in_sim())
		return __real_pthread_mutex_init(m, a);
	++S.nminit;
	if (S.p.mutex_init_fail_nth && S.nminit == S.p.mutex_init_fail_nth) {
		++S.c.mutex_init_failed;
		return ENOMEM;
	}
	int i = obj_new(m, 0);
	hash_mix(0x1000 + (uint64_t)i);
	return 0;
}

int
__wrap_pthread_mutex_destroy(pthread_mutex_t *m)
{
	if (!in_sim())
		return __real_pthread_mutex_destroy(m);
	int i = obj_find(m, 0);
	if (i < 0)
		return 0;
	if (S.obj[i].owner >= 0)
		die("sync-misuse", "destroying locked mutex m%d (owner T%d)", i,
				S.obj[i].owner);
	for (int t = 0; t < S.nth; ++t)
		if ((S.th[t].state == T_BLK_MUTEX && S.th[t].obj == i)
				|| (S.th[t].state == T_BLK_COND && S.th[t].cond_mutex == i))
			die("sync-misuse", "destroying mutex m%d with waiter T%d", i, t);
	S.obj[i].live = 0;
	return 0;
}

int
__wrap_pthread_mutex_lock(pthread_mutex_t *m)
{
	if (!in_sim())
		return __real_pthread_mutex_lock(m);
	int i = obj_get(m, 0);
	sthread *me = &S.th[S.cur];
	if (S.obj[i].owner == S.cur)
		die("sync-misuse", "T%d relocks mutex m%d it already owns", S.cur, i);
	++S.c.mutex_locks;
	if (S.obj[i].owner >= 0) ++S.c.mutex_contended;
	me->state = T_BLK_MUTEX;
	me->obj = i;
	sched_point(OP_LOCK, i);
	// grant() made us owner
	if (__tsan_acquire) __tsan_acquire(m);
	return 0;
}

int
__wrap_pthread_mutex_unlock(pthread_mutex_t *m)
{
	if (!in_sim())
		return __real_pthread_mutex_unlock(m);
	int i = obj_get(m, 0);
	if (S.obj[i].owner != S.cur)
		die("sync-misuse", "T%d unlocks mutex m%d owned by T%d", S.cur, i,
				S.obj[i].owner);
	if (__tsan_release) __tsan_release(m);
	S.obj[i].owner = -1;
	sched_point(OP_UNLOCK, i);
	return 0;
}

int
__wrap_pthread_cond_init(pthread_cond_t *c, const pthread_condattr_t *a)
{
	if (!in_sim())
		return __real_pthread_cond_init(c, a);
	++S.ncinit;
	if (S.p.cond_init_fail_nth && S.ncinit == S.p.cond_init_fail_nth) {
		++S.c.cond_init_failed;
		return ENOMEM;
	}
	int i = obj_new(c, 1);
	hash_mix(0x2000 + (uint64_t)i);
	return 0;
}

int
__wrap_pthread_cond_destroy(pthread_cond_t *c)
{
	if (!in_sim())
		return __real_pthread_cond_destroy(c);
	int i = obj_find(c, 1);
	if (i < 0)
		return 0;
	for (int t = 0; t < S.nth; ++t)
		if (S.th[t].state == T_BLK_COND && S.th[t].obj == i)
			die("sync-misuse", "destroying cond c%d with waiter T%d", i, t);
	S.obj[i].live = 0;
	return 0;
}

int
__wrap_pthread_cond_signal(pthread_cond_t *c)
{
	if (!in_sim())
		return __real_pthread_cond_signal(c);
	int i = obj_get(c, 1);
	int w[MAX_THREADS], n = 0;
	for (int t = 0; t < S.nth; ++t)
		if (S.th[t].state == T_BLK_COND && S.th[t].obj == i
				&& !S.th[t].woken)
			w[n++] = t;
	++S.c.cond_signals;
	if (n == 0) {
		++S.c.cond_signals_nowaiter;
	} else {
		int t = w[n == 1 ? 0 : pick((uint32_t)n)];
		S.th[t].woken = 1;
		S.th[t].wake_result = 0;
	}
	sched_point(OP_SIGNAL, i);
	return 0;
}

static int
cond_wait_common(pthread_cond_t *c, pthread_mutex_t *m,
		const struct timespec *abs)
{
	int ci = obj_get(c, 1);
	int mi = obj_get(m, 0);
	if (S.obj[mi].owner != S.cur)
		die("sync-misuse", "T%d waits on c%d without owning m%d", S.cur, ci,
				mi);
	sthread *me = &S.th[S.cur];
	if (__tsan_release) __tsan_release(m);
	S.obj[mi].owner = -1;
	me->state = T_BLK_COND;
	me->obj = ci;
	me->cond_mutex = mi;
	me->woken = 0;
	me->wake_result = 0;
	me->timed = abs != NULL;
	me->wait_since = S.steps;
	if (abs) {
		me->deadline = (uint64_t)abs->tv_sec * 1000000000ull
				+ (uint64_t)abs->tv_nsec;
		++S.c.cond_timedwaits;
	} else {
		++S.c.cond_waits;
	}
	sched_point(abs ? OP_TIMEDWAIT : OP_WAIT, ci);
	if (__tsan_acquire) __tsan_acquire(m);
	return me->wake_result;
}

int
__wrap_pthread_cond_wait(pthread_cond_t *c, pthread_mutex_t *m)
{
	if (!in_sim())
		return __real_pthread_cond_wait(c, m);
	return cond_wait_common(c, m, NULL);
}

int
__wrap_pthread_cond_timedwait(pthread_cond_t *c, pthread_mutex_t *m,
		const struct timespec *abs)
{
	if (!in_sim())
		return __real_pthread_cond_timedwait(c, m, abs);
	return cond_wait_common(c, m, abs);
}

int
__wrap_clock_gettime(clockid_t id, struct timespec *ts)
{
	if (!S.active)
		return __real_clock_gettime(id, ts);
	ts->tv_sec = (time_t)(S.now / 1000000000ull);
	ts->tv_nsec = (long)(S.now % 1000000000ull);
	return 0;
}
