// simrt: deterministic scheduler + simulated clock for code that reaches
// pthreads and clock_gettime through link-time --wrap.
//
// Real threads, exactly one runs at a time. Every wrapped synchronisation
// operation is a scheduling point at which a seeded PRNG (or a recorded
// choice list) decides who runs next.
#ifndef SIMRT_SIM_H
#define SIMRT_SIM_H

#include <stdint.h>
#include <stddef.h>

#ifdef __cplusplus
extern "C" {
#endif

enum {
	SIM_STRAT_RANDOM = 0,    // preempt with probability preempt_p
	SIM_STRAT_PCT = 1,       // priorities with pct_d change points
	SIM_STRAT_RUN_TO_BLOCK = 2, // never preempt an enabled thread
	SIM_STRAT_STALL = 3,     // one victim thread is starved for long stretches
	SIM_STRAT_COUNT
};

typedef struct {
	uint64_t seed;            // seed of the sched stream
	int strategy;
	uint32_t preempt_permille;       // RANDOM/STALL: chance to switch at a point
	uint32_t early_timeout_permille; // chance that "time passes" to next deadline
	uint32_t spurious_permille;      // chance per point that a cond waiter wakes spuriously
	uint64_t ns_per_step;     // clock advance per scheduling point
	uint64_t max_steps;       // adversarial budget; then fair phase is forced
	uint64_t fair_budget;     // steps allowed in the fair phase before "liveness"
	int pct_d;                // number of priority change points
	uint32_t pct_horizon;     // steps over which change points are spread
	// replay: when choices != NULL every choice is read from here (modulo the
	// number of options; beyond the end: 0)
	const uint32_t *choices;
	size_t n_choices;
	// resource faults (1-based index of the call that fails, 0 = none)
	int create_fail_nth;
	int mutex_init_fail_nth;
	int cond_init_fail_nth;
} sim_params;

// Called on deadlock / liveness budget exhaustion / internal error. Must not
// return. cls is a short class ("deadlock", "liveness", "sim-internal").
typedef void (*sim_fatal_fn)(const char *cls, const char *msg);
void sim_set_fatal(sim_fatal_fn fn);

void sim_begin(const sim_params *p);
// Returns number of threads still alive (leaked) — 0 when clean.
int sim_end(void);
int sim_active(void);

// From now on: fair scheduling, timeouts fire only when nothing is enabled,
// no spurious wake-ups, and the fair_budget applies.
void sim_fair_phase(void);
int sim_in_fair_phase(void);
// Explicit clock jump (simulated client think time).
void sim_advance_ns(uint64_t ns);

uint64_t sim_steps(void);
uint64_t sim_now_ns(void);
uint64_t sim_elapsed_ns(void);
uint64_t sim_trace_hash(void);
int sim_cur_thread(void);
int sim_live_threads(void);
int sim_max_threads_seen(void);

// Recorded choices of this run (valid until next sim_begin).
const uint32_t *sim_choice_log(size_t *n);

// Counters (reset by sim_begin).
typedef struct {
	uint64_t steps, switches, preemptions;
	uint64_t timeouts_fired, timeouts_early, timeouts_idle_jump;
	uint64_t spurious_wakeups;
	uint64_t cond_waits, cond_timedwaits, cond_signals, cond_signals_nowaiter;
	uint64_t mutex_locks, mutex_contended;
	uint64_t threads_created, create_failed, mutex_init_failed, cond_init_failed;
	uint64_t max_enabled;      // max number of simultaneously enabled threads
	uint64_t multi_enabled_points; // points with >= 2 enabled threads
	uint64_t fair_steps;
} sim_counters;
const sim_counters *sim_get_counters(void);

// Distinct cross-thread transition pairs (op a by thread class A -> op b by
// thread class B) seen in this run are folded into a 64-slot bloom-ish set; the
// harness unions them across runs.
uint64_t sim_transition_bits(void);

// Describe blocked threads (for deadlock reports). Returns bytes written.
size_t sim_describe(char *buf, size_t n);

#ifdef __cplusplus
}
#endif
#endif
