// C11 — the lzma_code() calling protocol. A simulated client issues arbitrary
// call histories (legal calls, stalls, illegal calls of several kinds, calls
// after the end and after a fatal error, use before init) on handles of every
// coder kind. CodeModel — written from the API documentation in
// src/liblzma/api/lzma/base.h and container.h — predicts per call whether
// the call must be refused instead of acting, and what may be returned.
#include "core.hpp"
#include "session.hpp"
#include "xzutil.hpp"

namespace {

enum CoderKind { CK_EASY_ENC = 0, CK_STREAM_ENC, CK_RAW_ENC, CK_ALONE_ENC, CK_MT_ENC, CK_STREAM_DEC, CK_AUTO_DEC,
	CK_ALONE_DEC, CK_LZIP_DEC, CK_RAW_DEC, CK_MT_DEC, CK_COUNT };
static const char *ck_names[] = { "easy_encoder", "stream_encoder", "raw_encoder", "alone_encoder", "stream_encoder_mt",
	"stream_decoder", "auto_decoder", "alone_decoder", "lzip_decoder", "raw_decoder", "stream_decoder_mt" };

// which actions the documentation says each coder supports
static bool supports(int kind, int action)
{
	if (action == LZMA_RUN || action == LZMA_FINISH) return true;
	switch (kind) {
	case CK_EASY_ENC: case CK_STREAM_ENC: return action == LZMA_SYNC_FLUSH || action == LZMA_FULL_FLUSH || action == LZMA_FULL_BARRIER;
	case CK_MT_ENC: return action == LZMA_FULL_FLUSH || action == LZMA_FULL_BARRIER;
	case CK_RAW_ENC: return action == LZMA_SYNC_FLUSH;
	default: return false;
	}
}

enum MState { M_NOINIT, M_RUN, M_FLUSHING, M_END, M_ERROR };

struct CodeModel {
	MState st = M_NOINIT;
	int flush_action = 0;        // valid in M_FLUSHING (incl. LZMA_FINISH)
	size_t pending_avail_in = 0; // avail_in the next call must present while flushing
	bool prev_noprog = false;    // previous acting call made no progress and returned OK/BUF_ERROR
	bool maybe_dead = false;     // a refused call happened: the doc does not say whether the handle survives
};

struct Sess {
	lzma_stream s = LZMA_STREAM_INIT;
	CodeModel m;
	int kind = 0;
	bool threaded = false, has_timeout = false;
	const Bytes *in = nullptr;
	size_t in_pos = 0;
	Bytes out;
	std::string err, err_cls;
	uint64_t calls = 0, refused = 0, buf_errors = 0;
	bool ended = false, fatal_seen = false;
	lzma_ret final_status = LZMA_OK;
	bool data_comparable = true;   // false once the implementation killed the handle after a refused call
	Verdict *v = nullptr;

	void fail(const std::string &cls, const std::string &msg)
	{
		if (err.empty()) { err = msg; err_cls = cls; }
	}

	// One call. bad: 0 legal; otherwise the kind of protocol violation.
	// Returns the status.
	lzma_ret call(int action, size_t in_n, size_t out_n, int bad)
	{
		size_t left = in->size() - in_pos;
		if (in_n > left) in_n = left;
		uint8_t *ib = (uint8_t *)malloc(in_n ? in_n : 1);
		uint8_t *ob = (uint8_t *)malloc(out_n ? out_n : 1);
		if (in_n) memcpy(ib, in->data() + in_pos, in_n);
		memset(ob, 0xEE, out_n ? out_n : 1);
		s.next_in = ib; s.avail_in = in_n; s.next_out = ob; s.avail_out = out_n;
		bool refuse_prog = false, refuse_opts = false;
		switch (bad) {
		case 1: action = 5 + (int)(calls % 3) * 36; refuse_prog = true; break;                 // out of range action
		case 2: s.next_in = nullptr; if (s.avail_in == 0) s.avail_in = 7; refuse_prog = true; break; // NULL next_in, non-zero avail_in
		case 3: s.next_out = nullptr; if (s.avail_out == 0) s.avail_out = 9; refuse_prog = true; break;
		case 4: s.reserved_int2 = 1; refuse_opts = true; break;
		case 5: s.reserved_ptr1 = ob; refuse_opts = true; break;
		default: break;
		}
		if (action >= 0 && action <= 4 && !supports(kind, action)) refuse_prog = true;
		if (m.st == M_NOINIT) refuse_prog = true;
		// model: state-dependent refusals (checked after the argument checks)
		bool arg_refusal = refuse_prog || refuse_opts;
		bool state_would_refuse = m.st == M_ERROR
			|| (m.st == M_FLUSHING && (action != m.flush_action || s.avail_in != m.pending_avail_in));
		bool state_refusal = !arg_refusal && state_would_refuse;
		lzma_stream before = s;
		lzma_ret r = lzma_code(&s, (lzma_action)action);
		++calls;
		size_t used = before.avail_in - s.avail_in;
		size_t made = before.avail_out - s.avail_out;
		bool unchanged = s.next_in == before.next_in && s.avail_in == before.avail_in && s.total_in == before.total_in
			&& s.next_out == before.next_out && s.avail_out == before.avail_out && s.total_out == before.total_out;
		bool out_untouched = true;
		for (size_t i = 0; i < (out_n ? out_n : 1); ++i) if (ob[i] != 0xEE) { out_untouched = false; break; }

		std::string ctx = fmt(" [%s, call %llu: action %d in %zu out %zu, model state %d]", ck_names[kind], (unsigned long long)calls, action, in_n, out_n, (int)m.st);
		if (!ret_is_public(r)) fail("internal-ret", fmt("internal status %d returned", (int)r) + ctx);

		if (arg_refusal || state_refusal) {
			++refused;
			lzma_ret want = refuse_opts && !refuse_prog ? LZMA_OPTIONS_ERROR : LZMA_PROG_ERROR;
			// Which code wins when several violations apply at once, and
			// whether argument errors or "the stream has ended" comes first,
			// is not documented: accept either.
			bool ok = r == want
				|| (refuse_opts && (refuse_prog || state_would_refuse) && (r == LZMA_PROG_ERROR || r == LZMA_OPTIONS_ERROR))
				|| (m.st == M_END && r == LZMA_STREAM_END);
			if (!ok)
				fail("not-refused", fmt("a call that must be refused returned %s instead of %s (violation kind %d)", ret_name(r), ret_name(want), bad) + ctx);
			else if (!unchanged || !out_untouched)
				fail("refused-but-acted", "a refused call changed the stream fields or the output buffer" + ctx);
			if (m.st != M_ERROR && m.st != M_NOINIT) m.maybe_dead = true;
			v->count(fmt("reach.refused_kind_%d", bad ? bad : (state_refusal ? (m.st == M_ERROR ? 8 : 7) : 6)));
		} else if (m.st == M_END) {
			if (r != LZMA_STREAM_END) {
				if (m.maybe_dead && r == LZMA_PROG_ERROR && unchanged) { m.st = M_ERROR; data_comparable = false; }
				else fail("after-end", fmt("a call after the end of the stream returned %s", ret_name(r)) + ctx);
			} else if (!unchanged || !out_untouched) fail("after-end", "a call after the end of the stream consumed or produced data" + ctx);
			v->count("reach.call_after_end");
		} else {
			// the call acts
			if (m.maybe_dead && r == LZMA_PROG_ERROR && unchanged) {
				// the implementation treated the earlier refused call as fatal:
				// allowed, nothing more to learn from this session's data
				m.st = M_ERROR; data_comparable = false; m.maybe_dead = false;
			} else {
				m.maybe_dead = false;
				// accounting
				if (s.avail_in > before.avail_in || s.avail_out > before.avail_out) fail("accounting", "avail_in/avail_out grew" + ctx);
				else if (s.next_in != before.next_in + used && !(used == 0)) fail("accounting", "next_in not advanced by the bytes consumed" + ctx);
				else if (s.next_out != before.next_out + made && !(made == 0)) fail("accounting", "next_out not advanced by the bytes produced" + ctx);
				else if (s.total_in != before.total_in + used) fail("accounting", "total_in not advanced by the bytes consumed" + ctx);
				else if (s.total_out != before.total_out + made) fail("accounting", "total_out not advanced by the bytes produced" + ctx);
				out.insert(out.end(), ob, ob + made);
				in_pos += used;
				bool noprog = used == 0 && made == 0;
				if (r == LZMA_BUF_ERROR) {
					++buf_errors;
					v->count("reach.buf_error");
					if (!noprog) fail("buf-error", "LZMA_BUF_ERROR although the call consumed or produced data" + ctx);
					else if (!m.prev_noprog) fail("buf-error-first", "LZMA_BUF_ERROR on the first call that made no progress" + ctx);
				} else if (r == LZMA_OK && noprog && m.prev_noprog && !(threaded && has_timeout)) {
					fail("no-buf-error", "second consecutive call without progress returned LZMA_OK instead of LZMA_BUF_ERROR" + ctx);
				}
				m.prev_noprog = noprog && (r == LZMA_OK || r == LZMA_BUF_ERROR);
				// state transition
				bool nonfatal = r == LZMA_OK || r == LZMA_BUF_ERROR || r == LZMA_NO_CHECK || r == LZMA_UNSUPPORTED_CHECK || r == LZMA_GET_CHECK
					|| r == LZMA_MEMLIMIT_ERROR || r == LZMA_SEEK_NEEDED;
				if (r == LZMA_STREAM_END) {
					if (m.st == M_FLUSHING && m.flush_action != LZMA_FINISH) m.st = M_RUN;
					else if (action != LZMA_RUN && action != LZMA_FINISH && m.st == M_RUN) m.st = M_RUN;   // flush completed in one call
					else { m.st = M_END; ended = true; final_status = r; }
				} else if (nonfatal) {
					if (action != LZMA_RUN) { m.st = M_FLUSHING; m.flush_action = action; m.pending_avail_in = s.avail_in; }
				} else {
					m.st = M_ERROR; fatal_seen = true; final_status = r;
					v->count("reach.fatal_error");
				}
			}
		}
		free(ib); free(ob);
		s.next_in = nullptr; s.next_out = nullptr; s.avail_in = 0; s.avail_out = 0;
		s.reserved_int2 = 0; s.reserved_ptr1 = nullptr;
		if (getenv("LZSIM_TRACE")) fprintf(stderr, "c11 call %llu action=%d in=%zu out=%zu bad=%d -> %s used=%zu made=%zu state=%d\n", (unsigned long long)calls, action, in_n, out_n, bad, ret_name(r), used, made, (int)m.st);
		return r;
	}
};

struct Setup {
	Chain chain;
	lzma_mt mt;
	lzma_options_lzma lz;
};

static lzma_ret init_coder(lzma_stream *s, int kind, Setup &su, uint32_t timeout)
{
	memset(&su.mt, 0, sizeof su.mt);
	switch (kind) {
	case CK_EASY_ENC: return lzma_easy_encoder(s, 1, LZMA_CHECK_CRC32);
	case CK_STREAM_ENC: return lzma_stream_encoder(s, su.chain.f, LZMA_CHECK_CRC64);
	case CK_RAW_ENC: return lzma_raw_encoder(s, su.chain.f);
	case CK_ALONE_ENC: return lzma_alone_encoder(s, &su.lz);
	case CK_MT_ENC: su.mt.threads = 2; su.mt.block_size = 3000; su.mt.timeout = timeout; su.mt.filters = su.chain.f; su.mt.check = LZMA_CHECK_CRC32; return lzma_stream_encoder_mt(s, &su.mt);
	case CK_STREAM_DEC: return lzma_stream_decoder(s, UINT64_MAX, 0);
	case CK_AUTO_DEC: return lzma_auto_decoder(s, UINT64_MAX, 0);
	case CK_ALONE_DEC: return lzma_alone_decoder(s, UINT64_MAX);
	case CK_LZIP_DEC: return lzma_lzip_decoder(s, UINT64_MAX, 0);
	case CK_RAW_DEC: return lzma_raw_decoder(s, su.chain.f);
	case CK_MT_DEC: su.mt.threads = 2; su.mt.timeout = timeout; su.mt.memlimit_threading = UINT64_MAX; su.mt.memlimit_stop = UINT64_MAX; return lzma_stream_decoder_mt(s, &su.mt);
	default: return LZMA_PROG_ERROR;
	}
}

static void setup_chain(Setup &su)
{
	Plan p;
	p.setp("ch_shape", 1); p.setp("ch_preset", 1); p.setp("ch_dict", 8192); p.setp("ch_delta_dist", 2);
	chain_from_plan(p, su.chain);
	lzma_lzma_preset(&su.lz, 1);
	su.lz.dict_size = 8192;
}

// input for a coder kind: plaintext for encoders, matching compressed data
// for decoders
static bool make_input(int kind, const Bytes &plain, Setup &su, Bytes &input, std::string &err)
{
	switch (kind) {
	case CK_STREAM_DEC: case CK_AUTO_DEC: case CK_MT_DEC:
		return xz_build_sized(plain, { plain.size() / 3, plain.size() / 3 }, su.chain.f, LZMA_CHECK_CRC32, input, nullptr, err);
	case CK_ALONE_DEC: return lzma_build(plain, &su.lz, input, err);
	case CK_LZIP_DEC: return lz_build_member(plain, 1, 0x0D, input, err);
	case CK_RAW_DEC: {
		lzma_stream s = LZMA_STREAM_INIT;
		if (lzma_raw_encoder(&s, su.chain.f) != LZMA_OK) { err = "raw encoder"; return false; }
		Bytes buf(65536);
		s.next_in = plain.data(); s.avail_in = plain.size();
		for (;;) {
			s.next_out = buf.data(); s.avail_out = buf.size();
			lzma_ret r = lzma_code(&s, LZMA_FINISH);
			input.insert(input.end(), buf.data(), buf.data() + (buf.size() - s.avail_out));
			if (r == LZMA_STREAM_END) break;
			if (r != LZMA_OK) { lzma_end(&s); err = "raw encode"; return false; }
		}
		lzma_end(&s);
		return true;
	}
	default: input = plain; return true;
	}
}

static void c11_gen(Rng &rng, Plan &plan, bool thorough)
{
	gen_sched_params(rng, plan, thorough);
	int kind = (int)rng.below(CK_COUNT);
	plan.setp("kind", kind);
	plan.setp("in_class", 2 + (int64_t)rng.below(7));
	plan.setp("in_len", 200 + (int64_t)rng.size_skewed(20000));
	plan.setp("in_seed", (int64_t)(rng.next() >> 2));
	plan.setp("timeout", rng.chance(500) ? 0 : rng.range(1, 30));
	plan.setp("no_init", rng.chance(40) ? 1 : 0);
	// the handle may have served another coder before (no lzma_end in between):
	// nothing of that coder - in particular not the set of actions it supported - may survive
	if (rng.chance(350)) { plan.setp("prev_kind", (int64_t)rng.below(CK_COUNT)); plan.setp("prev_calls", (int64_t)rng.below(3)); }
	// a decoder may be fed a corrupted file to reach the fatal-error state
	if (kind >= CK_STREAM_DEC && rng.chance(250)) { Op f("sfault"); f.set("kind", 1).set("pos", (int64_t)(100000 + rng.below(800000))).set("len", 4).set("val", (int64_t)rng.below(256)); plan.ops.push_back(f); }
	int n = 3 + (int)rng.below(thorough ? 40 : 25);
	for (int i = 0; i < n; ++i) {
		int k = (int)rng.below(20);
		if (k < 9) {
			Op op("call");
			op.set("action", LZMA_RUN).set("in", (int64_t)rng.size_skewed(6000)).set("out", (int64_t)rng.size_skewed(6000));
			plan.ops.push_back(op);
		} else if (k < 12) {
			Op op("bad"); op.set("kind", rng.range(1, 5)).set("action", (int64_t)rng.below(5)).set("in", (int64_t)rng.below(100)).set("out", (int64_t)rng.below(100));
			plan.ops.push_back(op);
		} else if (k < 14) {
			Op op("stall"); op.set("n", rng.range(1, 4)).set("give_in", (int64_t)rng.below(2));
			plan.ops.push_back(op);
		} else if (k < 17) {
			// start a flush (or any action incl. unsupported ones) and possibly
			// disturb it: change the action or the amount of input in the middle
			Op op("flush");
			static const int acts[] = { LZMA_SYNC_FLUSH, LZMA_FULL_FLUSH, LZMA_FULL_BARRIER, LZMA_FINISH };
			op.set("action", acts[rng.below(rng.chance(300) ? 4 : 3)]).set("in", (int64_t)rng.size_skewed(3000)).set("out", (int64_t)(1 + rng.size_skewed(500)));
			op.set("disturb", (int64_t)rng.below(4));   // 0 none, 1 change action, 2 change avail_in, 3 both
			op.set("disturb_at", (int64_t)rng.below(4));
			plan.ops.push_back(op);
		} else {
			Op op("call");
			op.set("action", (int64_t)rng.below(5)).set("in", (int64_t)rng.size_skewed(3000)).set("out", (int64_t)rng.size_skewed(3000));
			plan.ops.push_back(op);
		}
	}
	Op f("finish"); f.set("in_each", (int64_t)(1 + rng.size_skewed(8000))).set("out_each", (int64_t)(1 + rng.size_skewed(8000))).set("after_end_calls", (int64_t)rng.below(4));
	plan.ops.push_back(f);
}

static void c11_exec(const Plan &plan, Verdict &v)
{
	int kind = (int)plan.p("kind", 0) % CK_COUNT;
	Setup su;
	setup_chain(su);
	Bytes plain = gen_input((int)plan.p("in_class", IN_TEXT), (size_t)plan.p("in_len", 1000), (uint64_t)plan.p("in_seed", 1));
	Bytes input;
	std::string err;
	if (!make_input(kind, plain, su, input, err)) { v.fail("harness", "harness/input", err); return; }
	bool corrupted = false;
	for (auto &op : plan.ops) if (op.name == "sfault") { apply_one_fault(op, input, &v); corrupted = true; }
	uint32_t timeout = (uint32_t)plan.p("timeout", 0);
	v.count("runs.total");
	v.count(std::string("kind.") + ck_names[kind]);

	// undisturbed reference run (same coder, one-shot)
	Bytes ref_out;
	lzma_ret ref_status;
	{
		SimAlloc ra;
		lzma_stream s = LZMA_STREAM_INIT;
		s.allocator = &ra.a;
		Setup su2; setup_chain(su2);
		ref_status = init_coder(&s, kind, su2, 0);
		if (ref_status == LZMA_OK) {
			Bytes buf(65536);
			s.next_in = input.data(); s.avail_in = input.size();
			for (;;) {
				s.next_out = buf.data(); s.avail_out = buf.size();
				ref_status = lzma_code(&s, LZMA_FINISH);
				ref_out.insert(ref_out.end(), buf.data(), buf.data() + (buf.size() - s.avail_out));
				if (ref_status != LZMA_OK) break;
			}
		}
		lzma_end(&s);
	}

	SimAlloc al;
	Sess ss;
	ss.v = &v;
	ss.kind = kind;
	ss.in = &input;
	ss.threaded = kind == CK_MT_ENC || kind == CK_MT_DEC;
	ss.has_timeout = timeout != 0;
	ss.s.allocator = &al.a;
	bool no_init = plan.p("no_init", 0) != 0;
	Setup su_prev; setup_chain(su_prev);
	if (!no_init && plan.hasp("prev_kind")) {
		int pk = (int)plan.p("prev_kind") % CK_COUNT;
		Bytes pin; std::string e2;
		Bytes pplain(plain.begin(), plain.begin() + (long)std::min<size_t>(plain.size(), 300));
		if (make_input(pk, pplain, su_prev, pin, e2) && init_coder(&ss.s, pk, su_prev, 0) == LZMA_OK) {
			Bytes ob(64);
			size_t pos = 0;
			for (int64_t i = 0; i < plan.p("prev_calls", 0); ++i) {
				size_t n = std::min<size_t>(pin.size() - pos, 40);
				ss.s.next_in = pin.data() + pos; ss.s.avail_in = n; ss.s.next_out = ob.data(); ss.s.avail_out = ob.size();
				(void)lzma_code(&ss.s, LZMA_RUN);
				pos += n - ss.s.avail_in;
			}
			v.count("reach.handle_served_another_coder_before");
		}
	}
	if (!no_init) {
		lzma_ret r = init_coder(&ss.s, kind, su, timeout);
		if (r != LZMA_OK) { v.fail("init", "C11/init", fmt("init of %s returned %s", ck_names[kind], ret_name(r))); lzma_end(&ss.s); return; }
		ss.m.st = M_RUN;
	} else v.count("reach.use_before_init");

	auto alive = [&]() { return ss.err.empty() && ss.m.st != M_ERROR; };
	for (auto &op : plan.ops) {
		if (!ss.err.empty()) break;
		if (op.name == "call") {
			int action = (int)op.get("action");
			size_t in_n = (size_t)op.get("in"), out_n = (size_t)op.get("out");
			// keep the client legal while a flush/finish is in progress unless
			// this op is meant to be a violation: re-present the pending input
			if (ss.m.st == M_FLUSHING) { action = ss.m.flush_action; in_n = ss.m.pending_avail_in; }
			if (action != LZMA_RUN && supports(kind, action)) in_n = std::min(in_n, input.size() - ss.in_pos);
			// a decoder is told LZMA_FINISH only together with the rest of the file
			if (action == LZMA_FINISH && kind >= CK_STREAM_DEC) in_n = input.size() - ss.in_pos;
			ss.call(action, in_n, out_n, 0);
		} else if (op.name == "bad") {
			ss.call((int)op.get("action"), (size_t)op.get("in"), (size_t)op.get("out"), (int)op.get("kind"));
		} else if (op.name == "stall") {
			int n = (int)op.get("n");
			for (int i = 0; i < n && alive(); ++i) {
				if (ss.m.st == M_FLUSHING) ss.call(ss.m.flush_action, ss.m.pending_avail_in, 0, 0);   // no output space
				else ss.call(LZMA_RUN, 0, op.get("give_in") ? 0 : 64, 0);                             // no input
			}
			v.count("reach.stall");
		} else if (op.name == "flush") {
			int action = (int)op.get("action");
			if (ss.m.st == M_FLUSHING) continue;
			size_t in_n = std::min((size_t)op.get("in"), input.size() - ss.in_pos);
			if (action == LZMA_FINISH && kind >= CK_STREAM_DEC) in_n = input.size() - ss.in_pos;
			size_t out_n = (size_t)op.get("out");
			int disturb = (int)op.get("disturb"), at = (int)op.get("disturb_at");
			for (int i = 0; i < 4000 && alive(); ++i) {
				if (ss.m.st != M_FLUSHING && i > 0) break;
				size_t present = i == 0 ? in_n : ss.m.pending_avail_in;
				if (i > 0 && i == at + 1 && disturb) {
					int a2 = action; size_t p2 = present;
					if (disturb & 1) a2 = action == LZMA_FINISH ? LZMA_RUN : LZMA_FINISH;
					if (disturb & 2) p2 = present + 1 <= input.size() - ss.in_pos ? present + 1 : (present ? present - 1 : 0);
					if (a2 != action || p2 != present) { ss.call(a2, p2, out_n, 0); v.count("reach.disturbed_flush"); }
				}
				if (!alive()) break;
				ss.call(action, present, out_n, 0);
				if (ss.m.st == M_END || ss.m.st == M_NOINIT) break;
			}
		} else if (op.name == "finish") {
			size_t in_each = (size_t)op.get("in_each", 4096), out_each = (size_t)op.get("out_each", 4096);
			sim_fair_phase();
			uint64_t guard = 0;
			while (alive() && ss.m.st != M_END && ss.m.st != M_NOINIT) {
				size_t left = input.size() - ss.in_pos;
				lzma_ret fr;
				if (ss.m.st == M_FLUSHING) fr = ss.call(ss.m.flush_action, ss.m.pending_avail_in, out_each, 0);
				else if (left > in_each) fr = ss.call(LZMA_RUN, in_each, out_each, 0);
				else fr = ss.call(LZMA_FINISH, left, out_each, 0);
				// everything was offered together with output space: BUF_ERROR
				// now means the (corrupted or truncated) input ends too early
				if (fr == LZMA_BUF_ERROR && ss.m.st == M_FLUSHING && ss.m.flush_action == LZMA_FINISH) { v.count("reach.final_buf_error"); break; }
				if (++guard > 300000) { ss.fail("liveness-calls", "session does not terminate"); break; }
			}
			for (int i = 0; i < op.get("after_end_calls") && ss.err.empty() && ss.m.st == M_END; ++i)
				ss.call(i % 2 ? LZMA_RUN : LZMA_FINISH, (size_t)i * 3, 16, 0);
			if (ss.m.st == M_ERROR && ss.err.empty()) {
				// after a fatal error every further call is refused
				for (int i = 0; i < 2 && ss.err.empty(); ++i) ss.call(LZMA_RUN, 1, 16, 0);
			}
		}
	}
	lzma_end(&ss.s);
	v.count("oracle.calls", ss.calls);
	v.count("oracle.refused_calls", ss.refused);
	if (!al.misuse.empty()) { v.fail("alloc-misuse", "C11/alloc-misuse", al.misuse); return; }
	if (al.cur != 0) { v.fail("leak", "C11/leak", fmt("%llu bytes still allocated after lzma_end", (unsigned long long)al.cur)); al.purge(); return; }
	if (!ss.err.empty()) { v.fail(ss.err_cls, "C11/" + ss.err_cls, ss.err); return; }

	// the data result equals an undisturbed run
	if (ss.ended && ss.data_comparable && !no_init) {
		bool enc_mt_or_any = true;
		(void)enc_mt_or_any;
		bool is_enc = kind <= CK_MT_ENC;
		// a disturbed encoder session contains extra flushes, so its bytes
		// differ from the one-shot run; compare through decoding instead
		if (!is_enc) {
			if (ref_status != LZMA_STREAM_END || ss.out != ref_out)
				v.fail("data", "C11/data", fmt("disturbed session ended with STREAM_END and %zu bytes, undisturbed run: %s and %zu bytes [%s]", ss.out.size(), ret_name(ref_status), ref_out.size(), ck_names[kind]));
		} else if (kind != CK_RAW_ENC && kind != CK_ALONE_ENC) {
			DecResult d = decode_st(0, ss.out, 0, UINT64_MAX, true, nullptr);
			if (d.status != LZMA_STREAM_END || d.out != Bytes(plain.begin(), plain.begin() + (long)ss.in_pos))
				v.fail("data", "C11/data", fmt("output of the disturbed encoder session decodes to %s, %zu bytes (input %zu) [%s]", ret_name(d.status), d.out.size(), plain.size(), ck_names[kind]));
		} else if (kind == CK_ALONE_ENC) {
			DecResult d = decode_st(2, ss.out, 0, UINT64_MAX, true, nullptr);
			if (d.status != LZMA_STREAM_END || d.out != Bytes(plain.begin(), plain.begin() + (long)ss.in_pos))
				v.fail("data", "C11/data", fmt("output of the disturbed .lzma encoder session decodes to %s, %zu bytes (input %zu)", ret_name(d.status), d.out.size(), plain.size()));
		}
		v.count("oracle.data_compared");
	} else if (ss.fatal_seen && !corrupted && kind >= CK_STREAM_DEC) {
		v.fail("data", "C11/data", fmt("decoder reported %s on valid input in a disturbed session [%s]", ret_name(ss.final_status), ck_names[kind]));
	} else if (ss.fatal_seen && kind >= CK_STREAM_DEC && ref_status != ss.final_status && ref_status != LZMA_STREAM_END) {
		// same corrupted input, another fatal status: slicing dependence (C06's business) - not judged here
	}
	uint64_t h = fnv_str(plan.to_text(false));
	if (ss.refused > 0 || ss.buf_errors > 0) v.feature(h);
	v.feature2(mix64((uint64_t)kind, mix64(ss.refused > 0, mix64(ss.buf_errors > 0, mix64(ss.ended, ss.fatal_seen)))));
}

REGISTER_SCENARIO(c11_main, "C11", "call_histories", 100, 100, c11_gen, c11_exec, true);

} // namespace
