// Reference .lz (lzip) parser written from the lzip format description; defined in scen_ref.cpp.
#pragma once
#include <cstdint>
#include <string>
#include <vector>
// verdict: 0 valid, 1 invalid, 2 unsupported
struct LzResult { int verdict = 1; std::vector<uint8_t> out; size_t consumed = 0; std::string why; int members = 0; };
LzResult ref_lzip(const std::vector<uint8_t> &f, bool concatenated, bool ignore_crc = false);
