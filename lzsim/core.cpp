#include "core.hpp"

#include <cstdarg>
#include <sstream>
#include <sys/mman.h>

// ------------------------------------------------------------------ PRNG
static inline uint64_t rotl(uint64_t x, int k) { return (x << k) | (x >> (64 - k)); }

void Rng::reseed(uint64_t x)
{
	for (int i = 0; i < 4; ++i) {
		uint64_t z = (x += 0x9e3779b97f4a7c15ull);
		z = (z ^ (z >> 30)) * 0xbf58476d1ce4e5b9ull;
		z = (z ^ (z >> 27)) * 0x94d049bb133111ebull;
		s[i] = z ^ (z >> 31);
	}
}

uint64_t Rng::next()
{
	const uint64_t result = rotl(s[1] * 5, 7) * 9;
	const uint64_t t = s[1] << 17;
	s[2] ^= s[0]; s[3] ^= s[1]; s[1] ^= s[2]; s[0] ^= s[3];
	s[2] ^= t; s[3] = rotl(s[3], 45);
	return result;
}

Rng Rng::derive(uint64_t seed, const char *stream, uint64_t idx)
{
	uint64_t h = fnv1a(stream, strlen(stream));
	h = mix64(h, seed);
	h = mix64(h, idx * 0x9e3779b97f4a7c15ull + 1);
	return Rng(h);
}

uint64_t Rng::size_skewed(uint64_t max)
{
	if (max == 0) return 0;
	switch (below(8)) {
	case 0: return below(4 < max ? 4 : max + 1);         // 0..3
	case 1: return below(64 < max ? 64 : max + 1);
	case 2: return max - below(4 < max ? 4 : max + 1);   // near max
	case 3: { // power of two +-1
		uint64_t p = 1ull << below(20);
		int64_t d = (int64_t)below(3) - 1;
		uint64_t v = (uint64_t)((int64_t)p + d);
		return v > max ? max : v;
	}
	case 4: return below(1024 < max ? 1024 : max + 1);
	default: return below(max + 1);
	}
}

uint64_t fnv1a(const void *p, size_t n, uint64_t h)
{
	const uint8_t *b = (const uint8_t *)p;
	for (size_t i = 0; i < n; ++i) { h ^= b[i]; h *= 0x100000001b3ull; }
	return h;
}

std::string hex(const uint8_t *p, size_t n)
{
	static const char *d = "0123456789abcdef";
	std::string s; s.resize(n * 2);
	for (size_t i = 0; i < n; ++i) { s[2 * i] = d[p[i] >> 4]; s[2 * i + 1] = d[p[i] & 15]; }
	return s;
}

Bytes unhex(const std::string &s)
{
	Bytes b; b.reserve(s.size() / 2);
	auto v = [](char c) -> int { return c >= '0' && c <= '9' ? c - '0' : c >= 'a' && c <= 'f' ? c - 'a' + 10 : c >= 'A' && c <= 'F' ? c - 'A' + 10 : 0; };
	for (size_t i = 0; i + 1 < s.size(); i += 2) b.push_back((uint8_t)(v(s[i]) * 16 + v(s[i + 1])));
	return b;
}

std::string fmt(const char *f, ...)
{
	char buf[4096];
	va_list ap; va_start(ap, f);
	vsnprintf(buf, sizeof buf, f, ap);
	va_end(ap);
	return buf;
}

// ------------------------------------------------------------------ Plan
Op &Op::set(const std::string &k, int64_t v)
{
	for (auto &e : kv) if (e.first == k) { e.second = v; return *this; }
	kv.emplace_back(k, v);
	return *this;
}
int64_t Op::get(const std::string &k, int64_t def) const
{
	for (auto &e : kv) if (e.first == k) return e.second;
	return def;
}
bool Op::has(const std::string &k) const
{
	for (auto &e : kv) if (e.first == k) return true;
	return false;
}

void Plan::setp(const std::string &k, int64_t v)
{
	for (auto &e : params) if (e.first == k) { e.second = v; return; }
	params.emplace_back(k, v);
}
int64_t Plan::p(const std::string &k, int64_t def) const
{
	for (auto &e : params) if (e.first == k) return e.second;
	return def;
}
bool Plan::hasp(const std::string &k) const
{
	for (auto &e : params) if (e.first == k) return true;
	return false;
}

std::string Plan::to_text(bool with_choices) const
{
	std::ostringstream o;
	o << "prop " << prop << "\n";
	o << "scen " << scen << "\n";
	o << "seed " << seed << "\n";
	for (auto &e : params) o << "param " << e.first << " " << e.second << "\n";
	for (auto &b : blobs) o << "blob " << b.first << " " << b.second << "\n";
	for (auto &op : ops) {
		o << "op " << op.name;
		for (auto &e : op.kv) o << " " << e.first << "=" << e.second;
		o << "\n";
	}
	if (with_choices && have_choices) {
		o << "choices";
		for (uint32_t c : choices) o << " " << c;
		o << "\n";
	}
	return o.str();
}

bool Plan::from_text(const std::string &text, Plan &out, std::string &err)
{
	out = Plan();
	std::istringstream in(text);
	std::string line;
	while (std::getline(in, line)) {
		if (line.empty() || line[0] == '#') continue;
		std::istringstream ls(line);
		std::string kw; ls >> kw;
		if (kw == "prop") ls >> out.prop;
		else if (kw == "scen") ls >> out.scen;
		else if (kw == "seed") ls >> out.seed;
		else if (kw == "param") { std::string k; long long v; ls >> k >> v; out.setp(k, v); }
		else if (kw == "blob") { std::string k, v; ls >> k >> v; out.blobs[k] = v; }
		else if (kw == "op") {
			Op op; ls >> op.name;
			std::string t;
			while (ls >> t) {
				size_t eq = t.find('=');
				if (eq == std::string::npos) { err = "bad op token: " + t; return false; }
				op.kv.emplace_back(t.substr(0, eq), strtoll(t.c_str() + eq + 1, nullptr, 10));
			}
			out.ops.push_back(op);
		} else if (kw == "choices") {
			out.have_choices = true;
			unsigned long v;
			while (ls >> v) out.choices.push_back((uint32_t)v);
		} else { err = "bad line: " + line; return false; }
	}
	if (out.prop.empty() || out.scen.empty()) { err = "missing prop/scen"; return false; }
	return true;
}

// ------------------------------------------------------------- Allocator
static const size_t BIG = 32u << 20;

SimAlloc::SimAlloc() : frng(1)
{
	a.alloc = &s_alloc;
	a.free = &s_free;
	a.opaque = this;
}

SimAlloc::~SimAlloc() { purge(); }

SimAlloc::LiveTable::LiveTable()
{
	cap = 1u << 16;
	slots = (Slot *)mmap(nullptr, cap * sizeof(Slot), PROT_READ | PROT_WRITE, MAP_PRIVATE | MAP_ANONYMOUS, -1, 0);
	if (slots == MAP_FAILED) { perror("mmap"); abort(); }
}
SimAlloc::LiveTable::~LiveTable() { munmap(slots, cap * sizeof(Slot)); }
static inline size_t ptr_hash(void *p) { uint64_t x = (uint64_t)(uintptr_t)p; x ^= x >> 33; x *= 0xff51afd7ed558ccdull; x ^= x >> 33; return (size_t)x; }
SimAlloc::Blk *SimAlloc::LiveTable::find(void *p)
{
	size_t i = ptr_hash(p) & (cap - 1);
	for (size_t k = 0; k < cap; ++k, i = (i + 1) & (cap - 1)) {
		if (slots[i].ptr == nullptr) return nullptr;
		if (slots[i].ptr == p) return &slots[i].blk;
	}
	return nullptr;
}
void SimAlloc::LiveTable::clear()
{
	memset(slots, 0, cap * sizeof(Slot));
	n = 0; used = 0;
}
void SimAlloc::LiveTable::insert(void *p, const Blk &b)
{
	if (used * 2 > cap) {
		// rebuild in place without tombstones (rare: > 32k allocations in one run)
		std::vector<Slot> keep;
		for (size_t i = 0; i < cap; ++i) if ((uintptr_t)slots[i].ptr > 1) keep.push_back(slots[i]);
		if (keep.size() * 2 > cap) { fprintf(stderr, "SimAlloc: live table full\n"); abort(); }
		clear();
		for (auto &s : keep) insert(s.ptr, s.blk);
	}
	size_t i = ptr_hash(p) & (cap - 1);
	while ((uintptr_t)slots[i].ptr > 1) i = (i + 1) & (cap - 1);
	if (slots[i].ptr == nullptr) ++used;
	slots[i].ptr = p;
	slots[i].blk = b;
	++n;
}
void SimAlloc::LiveTable::erase(void *p)
{
	size_t i = ptr_hash(p) & (cap - 1);
	for (size_t k = 0; k < cap; ++k, i = (i + 1) & (cap - 1)) {
		if (slots[i].ptr == nullptr) return;
		if (slots[i].ptr == p) { slots[i].ptr = (void *)1; --n; return; }
	}
}

void SimAlloc::purge()
{
	live.each([](void *p, Blk &b) {
		if (b.big) munmap(p, b.size);
		else free(p);
	});
	live.clear();
	cur = 0;
}

void *SimAlloc::s_alloc(void *opaque, size_t nmemb, size_t size)
{
	SimAlloc *self = (SimAlloc *)opaque;
	++self->seq;
	++self->total_allocs;
	size_t n = nmemb * size;
	bool fail = false;
	if (self->fail_nth && self->seq == self->fail_nth) fail = true;
	if (self->fail_from && self->seq >= self->fail_from && self->frng.chance(self->fail_permille)) fail = true;
	if (self->fail_above && n > self->fail_above) fail = true;
	if (fail) { ++self->failures; return nullptr; }
	void *p;
	bool big = n >= BIG;
	if (big) {
		// Declared-but-untouched huge buffers (large dictionaries) must not
		// cost real memory.
		p = mmap(nullptr, n, PROT_READ | PROT_WRITE, MAP_PRIVATE | MAP_ANONYMOUS | MAP_NORESERVE, -1, 0);
		if (p == MAP_FAILED) { ++self->failures; return nullptr; }
	} else {
		p = malloc(n ? n : 1);
		if (!p) { ++self->failures; return nullptr; }
		// stable, visible garbage for reads of uninitialised memory
		memset(p, poison_byte, n);
	}
	self->live.insert(p, Blk{ n, self->seq, big });
	self->cur += n;
	if (self->cur > self->peak) self->peak = self->cur;
	return p;
}

uint8_t SimAlloc::poison_byte = 0xA5;

void SimAlloc::s_free(void *opaque, void *ptr)
{
	SimAlloc *self = (SimAlloc *)opaque;
	if (!ptr) return;   // lzma_free(NULL) is allowed (forwarded like free())
	Blk *b = self->live.find(ptr);
	if (!b) {
		if (self->misuse.empty())
			self->misuse = "free of a pointer that is not live (double free or foreign pointer)";
		return;
	}
	++self->total_frees;
	Blk blk = *b;
	self->cur -= blk.size;
	self->live.erase(ptr);
	if (blk.big) munmap(ptr, blk.size);
	else { memset(ptr, 0xDD, blk.size); free(ptr); }
}

// ---------------------------------------------------------------- Data
const char *input_class_name(int c)
{
	static const char *n[] = { "empty", "one", "random", "zeros", "runs", "text",
		"repeat_far", "x86ish", "mixed", "sparse", "lowent" };
	return c >= 0 && c < IN_CLASS_COUNT ? n[c] : "?";
}

static void gen_text(Rng &r, Bytes &b, size_t len)
{
	static const char *words[] = { "the", "quick", "brown", "fox", "jumps", "over",
		"lazy", "dog", "lorem", "ipsum", "dolor", "sit", "amet", "compress", "stream",
		"block", "index", "filter", "\n", ", ", ". ", "xz", "0123456789" };
	while (b.size() < len) {
		const char *w = words[r.below(sizeof(words) / sizeof(*words))];
		for (const char *c = w; *c && b.size() < len; ++c) b.push_back((uint8_t)*c);
		if (b.size() < len) b.push_back(' ');
	}
}

Bytes gen_input(int cls, size_t len, uint64_t seed)
{
	Rng r = Rng::derive(seed, "input", (uint64_t)cls);
	Bytes b;
	b.reserve(len);
	switch (cls) {
	case IN_EMPTY: return b;
	case IN_ONE: b.push_back((uint8_t)r.next()); return b;
	case IN_RANDOM: while (b.size() < len) b.push_back((uint8_t)r.next()); break;
	case IN_ZEROS: b.assign(len, 0); break;
	case IN_RUNS:
		while (b.size() < len) {
			uint8_t c = (uint8_t)r.below(4);
			size_t n = 1 + r.size_skewed(600);
			while (n-- && b.size() < len) b.push_back(c);
		}
		break;
	case IN_TEXT: gen_text(r, b, len); break;
	case IN_REPEAT_FAR: {
		// a random chunk repeated at a distance chosen around typical
		// dictionary sizes
		static const size_t dists[] = { 4095, 4096, 4097, 8192, 65535, 65536, 65537, 1000, 20000 };
		size_t d = dists[r.below(sizeof(dists) / sizeof(*dists))];
		while (b.size() < len) {
			if (b.size() >= d && r.chance(700)) {
				size_t n = 2 + r.below(300);
				size_t from = b.size() - d;
				while (n-- && b.size() < len) b.push_back(b[from++]);
			} else {
				size_t n = 1 + r.below(50);
				while (n-- && b.size() < len) b.push_back((uint8_t)r.next());
			}
		}
		break;
	}
	case IN_X86ISH:
		while (b.size() < len) {
			uint32_t k = (uint32_t)r.below(10);
			if (k < 3) { // call/jmp rel32
				b.push_back(r.chance(500) ? 0xE8 : 0xE9);
				uint32_t v = r.chance(500) ? (uint32_t)r.below(0x10000) : (uint32_t)(0 - r.below(0x10000));
				if (r.chance(200)) v = (uint32_t)r.next();
				for (int i = 0; i < 4 && b.size() < len; ++i) b.push_back((uint8_t)(v >> (8 * i)));
			} else if (k < 5) {
				b.push_back(0x0F); if (b.size() < len) b.push_back((uint8_t)(0x80 + r.below(16)));
			} else {
				b.push_back((uint8_t)r.next());
			}
		}
		break;
	case IN_MIXED:
		while (b.size() < len) {
			size_t n = 1 + r.size_skewed(5000);
			if (n > len - b.size()) n = len - b.size();
			Bytes part = gen_input(2 + (int)r.below(6), n, r.next());
			b.insert(b.end(), part.begin(), part.end());
		}
		break;
	case IN_SPARSE:
		while (b.size() < len) {
			size_t n = r.size_skewed(20000);
			if (r.chance(600)) { while (n-- && b.size() < len) b.push_back(0); }
			else { n = 1 + n % 200; while (n-- && b.size() < len) b.push_back((uint8_t)(1 + r.below(255))); }
		}
		break;
	case IN_LOWENT: {
		// a few symbols with uneven frequencies (the optimum parser runs long
		// without a reset) and now and then a long verbatim repeat of earlier
		// data (matches longer than nice_len, up to and beyond the 273 limit)
		unsigned nsym = 2 + (unsigned)r.below(5);
		static const uint64_t gaps[] = { 300, 2000, 6000, 12000 };
		uint64_t gap = gaps[r.below(4)];
		bool uneven = r.chance(400);
		while (b.size() < len) {
			if (b.size() > 600 && r.below(gap) == 0) {
				size_t n = 100 + r.below(500);
				size_t back = 1 + r.below(std::min<size_t>(b.size() - n > 0 && b.size() > n ? b.size() - n : 1, 30000));
				size_t from = b.size() > n + back ? b.size() - n - back : 0;
				while (n-- && b.size() < len) b.push_back(b[from++]);
			} else b.push_back((uint8_t)('a' + (uneven && r.chance(500) ? 0 : r.below(nsym))));
		}
		break;
	}
	default: break;
	}
	b.resize(len);
	return b;
}

// ------------------------------------------------------------ Registry
static std::vector<Scenario> &reg()
{
	static std::vector<Scenario> r;
	return r;
}
void register_scenario(const Scenario &s) { reg().push_back(s); }
const std::vector<Scenario> &scenarios() { return reg(); }
const Scenario *find_scenario(const std::string &prop, const std::string &name)
{
	for (auto &s : reg()) if (prop == s.prop && name == s.name) return &s;
	return nullptr;
}

// -------------------------------------------------------- sched params
void gen_sched_params(Rng &rng, Plan &plan, bool thorough)
{
	(void)thorough;
	int strat = (int)rng.below(SIM_STRAT_COUNT);
	plan.setp("sched_strategy", strat);
	static const int pre[] = { 20, 100, 300, 500, 800, 1000 };
	plan.setp("sched_preempt", pre[rng.below(6)]);
	static const int et[] = { 0, 0, 5, 30, 150 };
	plan.setp("sched_early_timeout", et[rng.below(5)]);
	static const int sp[] = { 0, 0, 0, 10, 60 };
	plan.setp("sched_spurious", sp[rng.below(5)]);
	static const int ns[] = { 100, 1000, 10000, 100000, 1000000 };
	plan.setp("sched_ns_per_step", ns[rng.below(5)]);
	plan.setp("sched_pct_d", 1 + (int)rng.below(3));
	plan.setp("sched_pct_horizon", 200 + (int)rng.below(3000));
	plan.setp("sched_seed", (int64_t)(rng.next() >> 1));
	// the handle may have served another coder before (see DirtySpec)
	if (rng.chance(250)) { plan.setp("dirty_kind", 1 + (int64_t)rng.below(10)); plan.setp("dirty_seed", (int64_t)rng.below(1 << 20)); }
}

void sim_from_plan(const Plan &plan, sim_params &sp)
{
	memset(&sp, 0, sizeof sp);
	sp.seed = (uint64_t)plan.p("sched_seed", (int64_t)plan.seed);
	sp.strategy = (int)plan.p("sched_strategy", SIM_STRAT_RANDOM);
	sp.preempt_permille = (uint32_t)plan.p("sched_preempt", 300);
	sp.early_timeout_permille = (uint32_t)plan.p("sched_early_timeout", 0);
	sp.spurious_permille = (uint32_t)plan.p("sched_spurious", 0);
	sp.ns_per_step = (uint64_t)plan.p("sched_ns_per_step", 1000);
	sp.max_steps = (uint64_t)plan.p("sched_max_steps", 150000);
	sp.fair_budget = (uint64_t)plan.p("sched_fair_budget", 3000000);
	sp.pct_d = (int)plan.p("sched_pct_d", 2);
	sp.pct_horizon = (uint32_t)plan.p("sched_pct_horizon", 2000);
	sp.create_fail_nth = (int)plan.p("fault_create_fail_nth", 0);
	sp.mutex_init_fail_nth = (int)plan.p("fault_mutex_init_fail_nth", 0);
	sp.cond_init_fail_nth = (int)plan.p("fault_cond_init_fail_nth", 0);
	if (plan.have_choices) {
		// must be non-NULL even when the list is empty
		static const uint32_t none = 0;
		sp.choices = plan.choices.empty() ? &none : plan.choices.data();
		sp.n_choices = plan.choices.size();
	}
}

const char *ret_name(int r)
{
	static const char *n[] = { "OK", "STREAM_END", "NO_CHECK", "UNSUPPORTED_CHECK",
		"GET_CHECK", "MEM_ERROR", "MEMLIMIT_ERROR", "FORMAT_ERROR", "OPTIONS_ERROR",
		"DATA_ERROR", "BUF_ERROR", "PROG_ERROR", "SEEK_NEEDED" };
	if (r >= 0 && r <= 12) return n[r];
	if (r == 101) return "INTERNAL1(TIMED_OUT)";
	if (r == 102) return "INTERNAL2(INDEX_DETECTED)";
	return "?";
}

void run_plan(const Plan &plan, Verdict &v)
{
	const Scenario *s = find_scenario(plan.prop, plan.scen);
	if (!s) { v.fail("harness", "harness", "unknown scenario " + plan.prop + "/" + plan.scen); return; }
	lzma_verif_mf_norm_after = (uint32_t)plan.p("mf_norm_after", 0);
	sim_params sp;
	sim_from_plan(plan, sp);
	sim_begin(&sp);
	// (C09 measures peaks and C10 counts allocations from the first one: both have their own reuse scenarios)
	g_dirty.kind = (plan.prop == "C09" || plan.prop == "C10") ? 0 : (int)plan.p("dirty_kind", 0);
	g_dirty.seed = (uint64_t)plan.p("dirty_seed", 0);
	g_dirty.uses = 0;
	s->exec(plan, v);
	if (g_dirty.uses) v.count("reach.handle_served_another_coder_before", g_dirty.uses);
	g_dirty.kind = 0;
	v.trace_hash = sim_trace_hash();
	const sim_counters *c = sim_get_counters();
	v.counters["sim.steps"] += c->steps;
	v.counters["sim.switches"] += c->switches;
	v.counters["sim.preemptions"] += c->preemptions;
	v.counters["sim.time_ns"] += sim_elapsed_ns();
	v.counters["fault.timeout_fired"] += c->timeouts_fired;
	v.counters["fault.timeout_early"] += c->timeouts_early;
	v.counters["sim.timeout_idle_jump"] += c->timeouts_idle_jump;
	v.counters["fault.spurious_wakeup"] += c->spurious_wakeups;
	v.counters["sim.cond_waits"] += c->cond_waits + c->cond_timedwaits;
	v.counters["sim.cond_signals"] += c->cond_signals;
	v.counters["sim.mutex_locks"] += c->mutex_locks;
	v.counters["sim.mutex_contended"] += c->mutex_contended;
	v.counters["sim.threads_created"] += c->threads_created;
	v.counters["fault.pthread_create_fail"] += c->create_failed;
	v.counters["fault.mutex_init_fail"] += c->mutex_init_failed;
	v.counters["fault.cond_init_fail"] += c->cond_init_failed;
	v.counters["sim.multi_enabled_points"] += c->multi_enabled_points;
	v.counters["sim.fair_steps"] += c->fair_steps;
	v.counters["bits.transitions"] |= sim_transition_bits();
	int leaked = sim_end();
	if (leaked)
		v.fail("thread-leak", plan.prop + "/thread-leak", fmt("%d simulated threads still alive at end of run", leaked));
	lzma_verif_mf_norm_after = 0;
}
