// Scenarios built on the independent reference models (model/):
//   C03  decoders accept exactly the valid streams and decode them as specified
//   C16  .lzma, .lz and auto-detection follow their format rules
// Valid-by-construction artefacts come from the generative encoder (synth) and
// the reference container writer, including every format feature the project's
// own encoder never emits; stored-byte-fault variants are judged by the
// reference parser. Delivery to the real decoders is seeded.
#include "core.hpp"
#include "session.hpp"
#include "xzutil.hpp"
#include "../model/refxz.hpp"
#include "reflz.hpp"
#include "../model/refbcj.hpp"
#include "../model/refcheck.hpp"

namespace {

using ref::Bytes;

struct Decoded { Bytes out; lzma_ret status = LZMA_OK; uint64_t total_in = 0; bool unsupported_check = false; std::string error; };

// kind: 0 stream, 1 auto, 2 alone, 3 lzip, 4 raw(filters), 5 stream_mt
static Decoded run_decoder(int kind, const Bytes &file, uint32_t flags, lzma_filter *filters, uint64_t delivery_seed, int style, bool finish, uint32_t threads = 2)
{
	Decoded d;
	SimAlloc al;
	Session ss(&al.a);
	ss.set_input(&file);
	lzma_mt mt; memset(&mt, 0, sizeof mt);
	lzma_ret r;
	switch (kind) {
	case 0: r = lzma_stream_decoder(&ss.s, UINT64_MAX, flags); break;
	case 1: r = lzma_auto_decoder(&ss.s, UINT64_MAX, flags); break;
	case 2: r = lzma_alone_decoder(&ss.s, UINT64_MAX); break;
	case 3: r = lzma_lzip_decoder(&ss.s, UINT64_MAX, flags); break;
	case 4: r = lzma_raw_decoder(&ss.s, filters); break;
	default: mt.flags = flags; mt.threads = threads; mt.memlimit_stop = UINT64_MAX; mt.memlimit_threading = UINT64_MAX; r = lzma_stream_decoder_mt(&ss.s, &mt); break;
	}
	if (r != LZMA_OK) { d.status = r; ss.end(); return d; }
	Rng rng(delivery_seed);
	uint64_t guard = 0;
	bool finishing = false, last_empty = false;
	for (;;) {
		size_t in_n, out_n;
		switch (style) {
		case 0: in_n = ss.in_left(); out_n = 1 << 16; break;
		case 1: in_n = 1; out_n = 1; break;
		case 2: in_n = 1 + (size_t)rng.below(7); out_n = 1 + (size_t)rng.below(7); break;
		default: in_n = (size_t)rng.size_skewed(4096); out_n = (size_t)rng.size_skewed(4096); if (last_empty) { if (!in_n) in_n = 1; if (!out_n) out_n = 1; } break;
		}
		if (in_n > ss.in_left()) in_n = ss.in_left();
		if (finishing) in_n = ss.in_left();
		lzma_action act = (finish && in_n == ss.in_left()) ? LZMA_FINISH : LZMA_RUN;
		if (act == LZMA_FINISH) finishing = true;
		size_t bo = ss.out.size(), bi = ss.in_pos;
		r = ss.step(in_n, out_n, act);
		last_empty = ss.out.size() == bo && ss.in_pos == bi;
		if (r == LZMA_UNSUPPORTED_CHECK) { d.unsupported_check = true; continue; }
		if (is_notice(r)) continue;
		if (r == LZMA_BUF_ERROR && (out_n == 0 || (in_n == 0 && ss.in_left() > 0))) continue;
		if (r != LZMA_OK) break;
		if (kind == 5 && ss.in_left() == 0) sim_fair_phase();
		if (++guard > 3000000) { d.error = "no termination"; break; }
	}
	d.status = r;
	d.total_in = ss.s.total_in;
	d.out.swap(ss.out);
	if (d.error.empty() && !ss.acct_error.empty()) d.error = ss.acct_error;
	ss.end();
	if (al.cur != 0 && d.error.empty()) { d.error = "leak"; al.purge(); }
	return d;
}

// ------------------------------------------------------------ synth .xz
struct SynthXz { Bytes file, plain; unsigned lz_features = 0; bool invalid_by_construction = false; };

static void synth_xz(ref::SynthRng &rng, SynthXz &x, bool allow_unsupported_check)
{
	int nstreams = rng.chance(700) ? 1 : 2 + (int)rng.below(2);
	for (int s = 0; s < nstreams; ++s) {
		static const int checks[] = { 0, 1, 4, 10 };
		int check = checks[rng.below(4)];
		if (allow_unsupported_check && rng.chance(80)) check = (int)rng.below(16);
		// now and then a well-formed file (all CRC32s right) that uses reserved
		// or unknown features: the decoder must refuse it
		int twist = allow_unsupported_check && rng.chance(150) ? 1 + (int)rng.below(6) : 0;
		uint8_t sres = twist == 1 ? (uint8_t)(0x10 << rng.below(4)) : 0;
		ref::write_stream_header(x.file, check, sres);
		int nblocks = (int)rng.below(5);
		if (rng.chance(100)) nblocks = 0;
		std::vector<std::pair<uint64_t, uint64_t>> recs;
		for (int b = 0; b < nblocks; ++b) {
			ref::BlockRecipe br;
			uint32_t dict = rng.chance(500) ? 4096 : (uint32_t)(1u << (12 + rng.below(9)));
			if (rng.chance(200)) dict += dict / 2;
			Bytes d;
			size_t nchunks = rng.chance(80) ? 0 : 1 + (size_t)rng.below(5);
			br.payload = ref::synth_lzma2(rng, dict, nchunks, d, &x.lz_features);
			// the dictionary size is stored as 2^n or 2^n + 2^(n-1): pick the smallest property >= dict
			uint8_t prop = 0;
			for (prop = 0; prop < 40; ++prop) { uint64_t sz; ref::lzma2_dict_from_prop(prop, sz); if (sz >= dict) break; }
			int nextra = rng.chance(600) ? 0 : 1 + (int)rng.below(3);
			for (int k = 0; k < nextra; ++k) {
				ref::FilterSpec f;
				if (rng.chance(400)) { f.id = ref::F_DELTA; f.props.push_back((uint8_t)rng.below(256)); }
				else {
					static const uint64_t ids[] = { ref::F_X86, ref::F_POWERPC, ref::F_IA64, ref::F_ARM, ref::F_ARMTHUMB, ref::F_SPARC, ref::F_ARM64 };
					f.id = ids[rng.below(7)];
					if (rng.chance(300)) { uint32_t st = (uint32_t)rng.below(1 << 20) * ref::bcj_alignment(f.id); for (int i = 0; i < 4; ++i) f.props.push_back((uint8_t)(st >> (8 * i))); }
				}
				br.filters.push_back(f);
			}
			ref::FilterSpec lz; lz.id = ref::F_LZMA2; lz.props.push_back(prop);
			br.filters.push_back(lz);
			// plaintext = what the decoder's chain produces from d
			Bytes p = d;
			for (size_t i = br.filters.size() - 1; i-- > 0;) {
				const ref::FilterSpec &f = br.filters[i];
				if (f.id == ref::F_DELTA) ref::delta_apply(p, (unsigned)f.props[0] + 1, false);
				else ref::bcj_apply(f.id, p, f.props.size() == 4 ? ((uint32_t)f.props[0] | (uint32_t)f.props[1] << 8 | (uint32_t)f.props[2] << 16 | (uint32_t)f.props[3] << 24) : 0, false);
			}
			br.plain_size = p.size();
			br.write_csize = rng.chance(500); br.write_usize = rng.chance(500);
			br.extra_header_padding = rng.chance(200) ? 1 + (unsigned)rng.below(4) : 0;
			if (twist == 2) br.reserved_flag_bits = (uint8_t)(0x04 << rng.below(4));
			if (twist == 3) { br.extra_header_padding = 1 + (unsigned)rng.below(3); br.nonzero_header_padding = true; }
			if (twist == 4) { ref::FilterSpec u; u.id = rng.chance(500) ? 0x1234 + rng.below(100) : 0x20; u.props.assign((size_t)rng.below(5), 7); br.filters.insert(br.filters.begin(), u); if (br.filters.size() > 4) br.filters.erase(br.filters.begin() + 1); }
			if (twist == 5 && br.filters.size() >= 2) std::swap(br.filters[0], br.filters.back());   // LZMA2 not last
			uint64_t unpadded = ref::write_block(x.file, br, check, p);
			recs.push_back({ unpadded, p.size() });
			x.plain.insert(x.plain.end(), p.begin(), p.end());
		}
		// twist 6: an Index field in a longer-than-shortest encoding (right value): invalid per section 1.2
		if (twist == 6) x.invalid_by_construction = true;
		if (twist == 6) ref::write_index_and_footer(x.file, recs, check, sres, 1 + (unsigned)rng.below(2 * recs.size() + 1), 1 + (unsigned)rng.below(2), rng.chance(700));
		else ref::write_index_and_footer(x.file, recs, check, sres);
		if (s + 1 < nstreams || rng.chance(200)) x.file.insert(x.file.end(), 4 * (size_t)rng.below(5), 0);
	}
}

static void c03_gen(Rng &rng, Plan &plan, bool thorough)
{
	gen_sched_params(rng, plan, thorough);
	plan.setp("synth_seed", (int64_t)(rng.next() >> 2));
	plan.setp("what", (int64_t)rng.below(10));   // 0-6 .xz, 7-9 raw LZMA2
	// streams that are wrong by construction: a distance that reaches just outside the dictionary
	if (rng.chance(250)) { plan.setp("synth_illegal", 1 + (int64_t)rng.below(1 << 20)); plan.setp("synth_illegal_kind", rng.chance(450) ? 1 : 0); }   // which site (modulo the number of sites) of which kind
	else if (rng.chance(450)) gen_storage_faults(rng, plan, 2);
	plan.setp("decoder", (int64_t)rng.below(10));
	plan.setp("style", (int64_t)rng.below(4));
	plan.setp("delivery_seed", (int64_t)(rng.next() >> 2));
	plan.setp("threads", rng.range(1, 4));
	uint32_t xf = 0;
	if (rng.chance(250)) xf |= LZMA_TELL_ANY_CHECK;
	if (rng.chance(150)) xf |= LZMA_TELL_NO_CHECK;
	plan.setp("extra_flags", xf);
}

static void c03_exec(const Plan &plan, Verdict &v)
{
	ref::SynthRng srng((uint64_t)plan.p("synth_seed", 1));
	if (plan.p("synth_illegal", 0)) {
		// fault-free probe pass with the same seed: how many sites does this artefact have?
		ref::SynthRng probe((uint64_t)plan.p("synth_seed", 1));
		if (plan.p("what") >= 7) { Bytes pl; unsigned ft = 0; uint32_t dict = (uint32_t)(1u << (12 + probe.below(8))); ref::synth_lzma2(probe, dict, 1 + (size_t)probe.below(6), pl, &ft); }
		else { SynthXz px; synth_xz(probe, px, true); }
		srng.illegal_kind = plan.p("synth_illegal_kind", 0) && probe.site_counter[1] > 0 ? 1 : 0;
		long ns = probe.site_counter[srng.illegal_kind];
		srng.illegal_site_target = (long)(plan.p("synth_illegal") % (ns > 0 ? ns : 1));
	}
	bool faulted = false;
	for (auto &op : plan.ops) if (op.name == "sfault") faulted = true;
	v.count("runs.total");
	if (plan.p("what") >= 7) {
		// raw LZMA2 stream through lzma_raw_decoder
		Bytes plain;
		unsigned feat = 0;
		uint32_t dict = (uint32_t)(1u << (12 + srng.below(8)));
		Bytes file = ref::synth_lzma2(srng, dict, 1 + (size_t)srng.below(6), plain, &feat);
		if (srng.illegal_emitted) { faulted = true; v.count("fault.illegal_distance_symbol", srng.illegal_emitted); }
		for (auto &op : plan.ops) if (op.name == "sfault") apply_one_fault(op, file, &v);
		ref::Lzma2Result want = ref::decode_lzma2(file.data(), file.size(), dict);
		lzma_options_lzma lz; lzma_lzma_preset(&lz, 0); lz.dict_size = dict;
		lzma_filter f[2] = { { LZMA_FILTER_LZMA2, &lz }, { LZMA_VLI_UNKNOWN, nullptr } };
		Decoded got = run_decoder(4, file, 0, f, (uint64_t)plan.p("delivery_seed"), (int)plan.p("style"), true);
		if (!got.error.empty()) { v.fail("decoder-error", "C03/decoder-error", got.error); return; }
		bool acc = got.status == LZMA_STREAM_END;
		std::string ctx = fmt(" [raw LZMA2, %zu bytes, dict %u, features 0x%x, %s; reference: %s%s; liblzma: %s, %zu bytes]", file.size(), dict, feat, faulted ? "faulted" : "clean",
			want.valid ? "valid" : "invalid: ", want.valid ? "" : want.why.c_str(), ret_name(got.status), got.out.size());
		if (!faulted && !want.valid) { v.fail("harness", "harness/synth", "reference rejects its own synth stream" + ctx); return; }
		if (want.valid && want.consumed == file.size()) {
			if (!acc) { v.fail("valid-rejected", "C03/valid-rejected", "a valid LZMA2 stream was rejected" + ctx); return; }
			if (got.out != want.out) { v.fail("wrong-output", "C03/wrong-output", "decoded output differs from the specification's decoding" + ctx); return; }
			if (!faulted && got.out != plain) { v.fail("harness", "harness/synth", "synth plaintext differs" + ctx); return; }
		} else if (!want.valid && acc) { v.fail("invalid-accepted", "C03/invalid-accepted", "an invalid LZMA2 stream was accepted" + ctx); return; }
		v.count(want.valid ? "verdict.valid" : "verdict.invalid");
		v.counters["bits.lzma_features"] |= feat;
		v.feature(mix64(feat, mix64(faulted, (uint64_t)want.valid)));
		v.feature2(fnv_str(plan.to_text(false)));
		return;
	}
	SynthXz x;
	synth_xz(srng, x, true);
	if (x.invalid_by_construction) { faulted = true; v.count("fault.overlong_vli_in_index"); }
	if (srng.illegal_emitted) { faulted = true; v.count("fault.illegal_distance_symbol", srng.illegal_emitted); }
	Bytes file = x.file;
	for (auto &op : plan.ops) if (op.name == "sfault") apply_one_fault(op, file, &v);
	ref::XzResult want = ref::parse_xz(file.data(), file.size(), true);
	int dk = (int)plan.p("decoder");
	int kind = dk < 6 ? 0 : dk < 8 ? 1 : 5;
	Decoded got = run_decoder(kind, file, LZMA_CONCATENATED | LZMA_TELL_UNSUPPORTED_CHECK | (uint32_t)plan.p("extra_flags", 0), nullptr, (uint64_t)plan.p("delivery_seed"), (int)plan.p("style"), true, (uint32_t)plan.p("threads", 2));
	if (!got.error.empty()) { v.fail("decoder-error", "C03/decoder-error", got.error); return; }
	bool acc = got.status == LZMA_STREAM_END;
	std::string ctx = fmt(" [synth .xz %zu bytes, xz features 0x%x, lzma features 0x%x, %s, decoder %d; reference: %s%s; liblzma: %s, %zu bytes]", file.size(), want.features, x.lz_features,
		faulted ? "faulted" : "clean", kind, want.verdict == ref::XZ_VALID ? "valid" : want.verdict == ref::XZ_UNSUPPORTED ? "unsupported: " : "invalid: ",
		want.verdict == ref::XZ_VALID ? "" : want.why.c_str(), ret_name(got.status), got.out.size());
	if (!faulted && want.verdict == ref::XZ_INVALID) { v.fail("harness", "harness/synth", "reference rejects its own synth file" + ctx); return; }
	if (!faulted && want.verdict == ref::XZ_VALID && want.out != x.plain) { v.fail("harness", "harness/synth", "reference decodes its own synth file differently" + ctx); return; }
	switch (want.verdict) {
	case ref::XZ_VALID:
		if (!acc) { v.fail("valid-rejected", "C03/valid-rejected", "a valid .xz file was rejected" + ctx); return; }
		if (got.out != want.out) { v.fail("wrong-output", "C03/wrong-output", "decoded output differs from the specification's decoding" + ctx); return; }
		if (want.unsupported_check != got.unsupported_check) { v.fail("unsupported-check-notice", "C03/unsupported-check-notice", "LZMA_UNSUPPORTED_CHECK notice expected exactly for Check IDs the build cannot verify" + ctx); return; }
		v.count("verdict.valid");
		break;
	case ref::XZ_UNSUPPORTED:
		if (acc) { v.fail("unsupported-accepted", "C03/unsupported-accepted", "a file using reserved/unsupported features was accepted" + ctx); return; }
		v.count(got.status == LZMA_OPTIONS_ERROR ? "verdict.unsupported_options_error" : "verdict.unsupported_other_error");
		break;
	default:
		if (acc) { v.fail("invalid-accepted", "C03/invalid-accepted", "an invalid .xz file was accepted" + ctx); return; }
		v.count("verdict.invalid");
		break;
	}
	v.counters["bits.xz_features"] |= want.features;
	v.counters["bits.lzma_features"] |= x.lz_features;
	v.feature(mix64(want.features, mix64(x.lz_features, mix64(faulted, (uint64_t)want.verdict))));
	v.feature2(fnv_str(plan.to_text(false)));
}

REGISTER_SCENARIO(c03_main, "C03", "synth_streams", 100, 100, c03_gen, c03_exec, true);

// -------------------------------------------------------------------- C16
// .lz member from the generative encoder: LZMA stream with lc=3 lp=0 pb=2 and
// an end marker, lzip header and trailer.
static void synth_lz_member(ref::SynthRng &rng, int version, uint8_t dict_code, size_t nsym, Bytes &out, Bytes &plain_all, unsigned *feat)
{
	uint32_t b2 = dict_code & 0x1F, fr = dict_code >> 5;
	uint32_t dict = (1u << b2) - (fr << (b2 - 4));
	Bytes plain;
	Bytes alone = ref::synth_alone(rng, 3, 0, 2, dict, false, true, nsym, plain, feat);
	size_t start = out.size();
	out.push_back('L'); out.push_back('Z'); out.push_back('I'); out.push_back('P');
	out.push_back((uint8_t)version); out.push_back(dict_code);
	out.insert(out.end(), alone.begin() + 13, alone.end());
	uint32_t crc = ref::crc32(plain.data(), plain.size());
	for (int i = 0; i < 4; ++i) out.push_back((uint8_t)(crc >> (8 * i)));
	uint64_t ds = plain.size();
	for (int i = 0; i < 8; ++i) out.push_back((uint8_t)(ds >> (8 * i)));
	if (version >= 1) { uint64_t ms = out.size() - start + 8; for (int i = 0; i < 8; ++i) out.push_back((uint8_t)(ms >> (8 * i))); }
	plain_all.insert(plain_all.end(), plain.begin(), plain.end());
}

// Reference .lz decoder (lzip manual, "File format"): returns 0 valid, 1 invalid, 2 unsupported version
} // namespace
LzResult ref_lzip(const std::vector<uint8_t> &f, bool concatenated, bool ignore_crc)
{
	LzResult r;
	size_t pos = 0;
	for (;;) {
		// ID string
		size_t m = 0;
		while (m < 4 && pos + m < f.size() && f[pos + m] == "LZIP"[m]) ++m;
		if (m < 4) {
			if (r.members == 0) { r.verdict = 1; r.why = "no ID string"; return r; }
			// trailing data: not ours. The decoder is allowed to have looked at up to
			// three bytes that matched the ID string.
			r.verdict = 0; r.consumed = pos; return r;
		}
		if (f.size() - pos < 6) { r.verdict = 1; r.why = "truncated header"; return r; }
		int version = f[pos + 4];
		if (version > 1) { r.verdict = 2; r.why = "unsupported version"; return r; }
		uint8_t code = f[pos + 5];
		uint32_t b2 = code & 0x1F, fr = code >> 5;
		if (b2 < 12 || b2 > 29 || (b2 == 12 && fr > 0)) { r.verdict = 1; r.why = "invalid dictionary size code"; return r; }
		uint32_t dict = (1u << b2) - (fr << (b2 - 4));
		ref::LzmaDecoder d;
		Bytes plain;
		d.m.set_props(3, 0, 2); d.m.reset_state();
		d.out = &plain; d.dict_start = 0;
		d.dict_size = (dict < 4096 ? 4096 : (dict + 15) & ~15u);
		ref::RangeDec rc;
		rc.init(f.data(), pos + 6, f.size());
		std::string why;
		ref::LzmaStatus st = d.decode(rc, UINT64_MAX, true, why);
		if (st != ref::LZ_END_MARKER) { r.out.insert(r.out.end(), plain.begin(), plain.end()); r.verdict = 1; r.why = "LZMA stream: " + why; return r; }
		size_t tp = rc.pos;
		size_t tsz = version == 0 ? 12 : 20;
		r.out.insert(r.out.end(), plain.begin(), plain.end());
		if (f.size() - tp < tsz) { r.verdict = 1; r.why = "truncated trailer"; return r; }
		uint32_t crc = (uint32_t)f[tp] | (uint32_t)f[tp + 1] << 8 | (uint32_t)f[tp + 2] << 16 | (uint32_t)f[tp + 3] << 24;
		uint64_t ds = 0, ms = 0;
		for (int i = 0; i < 8; ++i) ds |= (uint64_t)f[tp + 4 + (size_t)i] << (8 * i);
		if (version >= 1) for (int i = 0; i < 8; ++i) ms |= (uint64_t)f[tp + 12 + (size_t)i] << (8 * i);
		// (LZMA_IGNORE_CHECK skips the integrity check - the CRC32 - only; the size fields are format structure)
		if (!ignore_crc && crc != ref::crc32(plain.data(), plain.size())) { r.verdict = 1; r.why = "CRC32 mismatch"; return r; }
		if (ds != plain.size()) { r.verdict = 1; r.why = "data size mismatch"; return r; }
		if (version >= 1 && ms != tp + tsz - pos) { r.verdict = 1; r.why = "member size mismatch"; return r; }
		pos = tp + tsz;
		++r.members;
		r.consumed = pos;
		if (!concatenated) { r.verdict = 0; return r; }
		if (pos == f.size()) { r.verdict = 0; return r; }
	}
}
namespace {

static void c16_gen(Rng &rng, Plan &plan, bool thorough)
{
	gen_sched_params(rng, plan, thorough);
	plan.setp("synth_seed", (int64_t)(rng.next() >> 2));
	plan.setp("fmt", (int64_t)rng.below(10));   // 0-3 .lzma, 4-6 .lz, 7-9 .xz concatenation/padding
	plan.setp("variant", (int64_t)rng.below(1 << 20));
	if (rng.chance(120)) plan.setp("synth_illegal", 1 + (int64_t)rng.below(1 << 20));   // used by the .lzma and .lz forms: which site
	else if (rng.chance(350)) gen_storage_faults(rng, plan, 2);
	plan.setp("style", (int64_t)rng.below(4));
	plan.setp("delivery_seed", (int64_t)(rng.next() >> 2));
	plan.setp("concatenated", (int64_t)rng.below(2));
	plan.setp("finish", rng.chance(750) ? 1 : 0);
	plan.setp("tail", (int64_t)rng.below(8));
	// notice flags must not change the verdict or the bytes (the client just goes on after a notice)
	uint32_t xf = 0;
	if (rng.chance(300)) xf |= LZMA_TELL_ANY_CHECK;
	if (rng.chance(200)) xf |= LZMA_TELL_NO_CHECK;
	if (rng.chance(200)) xf |= LZMA_TELL_UNSUPPORTED_CHECK;
	int fk = (int)plan.p("fmt");
	// (the reference .lz parser knows the flag; for the other formats only on undamaged artefacts)
	if ((plan.ops.empty() && !plan.hasp("synth_illegal") && rng.chance(150)) || (fk >= 4 && fk <= 6 && rng.chance(300))) xf |= LZMA_IGNORE_CHECK;
	// aim a fault at the member trailer (CRC32, data size, member size) now and then
	if (fk >= 4 && fk <= 6 && rng.chance(250)) plan.setp("lz_trailer_fault", 1 + (int64_t)rng.below(1 << 16));
	plan.setp("extra_flags", xf);
}

static void c16_exec(const Plan &plan, Verdict &v)
{
	ref::SynthRng srng((uint64_t)plan.p("synth_seed", 1));
	uint64_t var = (uint64_t)plan.p("variant");
	if (plan.p("synth_illegal", 0)) {
		int fk = (int)plan.p("fmt");
		long sites = fk <= 3 ? 1 : 1 + (long)(var % 3);   // one emit() per .lzma file / per .lz member
		if (fk <= 6) srng.illegal_site_target = (long)(plan.p("synth_illegal") % sites);
	}
	int fmtk = (int)plan.p("fmt");
	bool faulted = false;
	for (auto &op : plan.ops) if (op.name == "sfault") faulted = true;
	bool concat = plan.p("concatenated", 1) != 0;
	bool finish = plan.p("finish", 1) != 0;
	uint32_t flags = (concat ? LZMA_CONCATENATED : 0) | (uint32_t)plan.p("extra_flags", 0);
	int style = (int)plan.p("style");
	uint64_t dseed = (uint64_t)plan.p("delivery_seed");
	v.count("runs.total");
	if (fmtk <= 3) {
		// ---- .lzma: every header field value, known/unknown size, with/without end marker
		int lc = (int)(var % 9), lp = (int)((var / 9) % 5), pb = (int)((var / 45) % 5);
		if (lc + lp > 4) { lc = (int)(var % 5); lp = (int)((var / 5) % (5 - lc)); }
		static const uint32_t dicts[] = { 0, 1, 4095, 4096, 4097, 65536, 1u << 20, 3u << 19, (1u << 20) + 1, 0xFFFFFFFFu, 1u << 30 };
		uint32_t dict = dicts[(var / 300) % 11];
		// every small odd multiple of a power of two (the auto-detection accepts only 2^n and 2^n + 2^(n-1))
		if ((var >> 15) & 1) { uint32_t k = 1 + 2 * (uint32_t)((var >> 3) % 32), n = 12 + (uint32_t)((var >> 9) % 15); uint64_t d = (uint64_t)k << n; dict = d > 0xFFFFFFFFull ? 0xFFFFFFFFu : (uint32_t)d; }
		bool known = (var >> 12) & 1, eopm = (var >> 13) & 1;
		Bytes plain;
		unsigned feat = 0;
		Bytes file = ref::synth_alone(srng, lc, lp, pb, dict, known, eopm, 1 + (size_t)srng.below(2000), plain, &feat);
		if (srng.illegal_emitted) { faulted = true; v.count("fault.illegal_distance_symbol", srng.illegal_emitted); }
		size_t stream_end = file.size();
		int tail = (int)plan.p("tail");
		if (tail >= 5) for (int i = 0; i < tail - 4; ++i) file.push_back((uint8_t)srng.next());   // something after the stream
		for (auto &op : plan.ops) if (op.name == "sfault") apply_one_fault(op, file, &v);
		if (const char *dump = getenv("LZSIM_DUMP")) { FILE *f = fopen(dump, "wb"); if (f) { fwrite(file.data(), 1, file.size(), f); fclose(f); } }
		ref::AloneResult want = ref::decode_alone(file.data(), file.size());
		bool picky = ref::alone_header_is_picky_plausible(file.data(), file.size());
		std::string ctx = fmt(" [.lzma lc%d lp%d pb%d dict %u %s size %s marker, %zu bytes (stream %zu)%s; reference: %s%s consumed %zu]", lc, lp, pb, dict, known ? "known" : "unknown", eopm || !known ? "with" : "without",
			file.size(), stream_end, faulted ? ", faulted" : "", want.valid ? "valid" : "invalid: ", want.valid ? "" : want.why.c_str(), want.consumed);
		if (!faulted && (!want.valid || want.out != plain || want.consumed != stream_end)) { v.fail("harness", "harness/synth", "reference rejects or mis-decodes its own .lzma" + ctx); return; }
		// the .lzma decoder itself
		Decoded a = run_decoder(2, file, 0, nullptr, dseed, style, finish);
		if (!a.error.empty()) { v.fail("decoder-error", "C16/decoder-error", a.error + ctx); return; }
		bool acc = a.status == LZMA_STREAM_END;
		std::string got = fmt(" [alone_decoder: %s, %zu bytes, consumed %llu]", ret_name(a.status), a.out.size(), (unsigned long long)a.total_in);
		// with LZMA_RUN only and no end marker known... the decoder can still finish: known size reached and range coder done
		if (want.valid) {
			if (!acc) {
				// without LZMA_FINISH a known-size stream without marker whose last bytes have been
				// delivered still ends; anything else is a rejection of a valid file
				v.fail("valid-rejected", "C16/valid-rejected", "a valid .lzma file was rejected" + ctx + got); return;
			}
			if (a.out != want.out) { v.fail("wrong-output", "C16/wrong-output", ".lzma output differs from the specification's decoding" + ctx + got); return; }
			if (a.total_in != want.consumed) { v.fail("input-position", "C16/input-position", "decoding did not stop exactly at the end of the .lzma stream" + ctx + got); return; }
		} else if (acc) { v.fail("invalid-accepted", "C16/invalid-accepted", "an invalid .lzma file was accepted" + ctx + got); return; }
		// auto-detection: same result as the specific decoder when the header is plausible, format error otherwise
		Decoded au = run_decoder(1, file, flags, nullptr, dseed ^ 1, style, finish);
		if (!au.error.empty()) { v.fail("decoder-error", "C16/decoder-error", au.error + ctx); return; }
		std::string gau = fmt(" [auto_decoder(flags 0x%x): %s, %zu bytes, consumed %llu]", flags, ret_name(au.status), au.out.size(), (unsigned long long)au.total_in);
		bool looks_xz = file.size() >= 1 && file[0] == 0xFD, looks_lz = file.size() >= 1 && file[0] == 'L';
		if (!looks_xz && !looks_lz && file.size() >= 13) {
			if (!picky) {
				if (au.status != LZMA_FORMAT_ERROR) { v.fail("auto-not-format-error", "C16/auto-not-format-error", "header fails the documented plausibility test but the auto decoder did not report an unrecognised format" + ctx + gau); return; }
			} else {
				// a .lzma stream followed by anything is an error when concatenated decoding is requested
				bool trailing = want.valid && want.consumed < file.size();
				if (concat && !finish) {
					// concatenated decoding of .lzma waits for LZMA_FINISH: nothing to compare
				} else if (want.valid && !(concat && trailing)) {
					if (au.status != LZMA_STREAM_END || au.out != want.out) { v.fail("auto-differs", "C16/auto-differs", "auto decoder differs from the .lzma decoder on a plausible .lzma file" + ctx + got + gau); return; }
					if (!concat && au.total_in != want.consumed) { v.fail("input-position", "C16/input-position", "auto decoder did not stop exactly at the end of the first stream" + ctx + gau); return; }
				} else if (want.valid && concat && trailing && finish) {
					if (au.status == LZMA_STREAM_END) { v.fail("lzma-trailing-accepted", "C16/lzma-trailing-accepted", "concatenated decoding accepted data after a .lzma stream" + ctx + gau); return; }
				} else if (!want.valid && au.status == LZMA_STREAM_END) { v.fail("invalid-accepted", "C16/invalid-accepted", "auto decoder accepted an invalid .lzma file" + ctx + gau); return; }
			}
		}
		v.counters["bits.lzma_features"] |= feat;
		v.feature(mix64(mix64((uint64_t)lc * 25 + (uint64_t)lp * 5 + (uint64_t)pb, dict), mix64(known * 2 + eopm, mix64(faulted, tail))));
		v.feature2(mix64((uint64_t)want.valid, mix64(picky, concat)));
		return;
	}
	if (fmtk <= 6) {
		// ---- .lz: v0/v1, every dictionary code, multi-member, trailing data beginning with 0-4 ID bytes
		Bytes file, plain;
		unsigned feat = 0;
		int members = 1 + (int)(var % 3);
		std::vector<size_t> ends;
		for (int m = 0; m < members; ++m) {
			static const uint8_t fracs[] = { 0, 1, 2, 7 };
			uint32_t b2 = 12 + (uint32_t)((var >> (2 + 5 * m)) % 18);
			uint8_t code = (uint8_t)(b2 | (b2 > 12 ? fracs[(var >> (7 + m)) % 4] << 5 : 0));
			synth_lz_member(srng, (int)((var >> m) & 1), code, 1 + (size_t)srng.below(1500), file, plain, &feat);
			ends.push_back(file.size());
		}
		if (srng.illegal_emitted) { faulted = true; v.count("fault.illegal_distance_symbol", srng.illegal_emitted); }
		int tail = (int)plan.p("tail");
		size_t members_end = file.size();
		if (tail > 0) {
			// foreign trailing data beginning with 0..4 bytes of the ID string
			int idb = (tail - 1) % 5;
			for (int i = 0; i < idb && i < 4; ++i) file.push_back((uint8_t)"LZIP"[i]);
			if (idb < 4) { file.push_back('x'); for (int i = 0; i < 5; ++i) file.push_back((uint8_t)srng.next()); }
			else { file.push_back(7); file.push_back(0x0C); }   // a fifth byte making it a header with an unsupported version
		}
		for (auto &op : plan.ops) if (op.name == "sfault") apply_one_fault(op, file, &v);
		if (int64_t tf = plan.p("lz_trailer_fault", 0)) {
			// one bit in the trailer of one member (20 bytes in version 1, 12 in version 0)
			size_t mi = (size_t)tf % ends.size(), e = ends[mi];
			size_t off = 1 + (size_t)(tf / 7) % 20;
			if (e >= off && e - off < file.size()) { file[e - off] ^= (uint8_t)(1u << (tf % 8)); faulted = true; v.count("fault.lz_trailer_bit"); }
		}
		LzResult want = ref_lzip(file, concat, (flags & LZMA_IGNORE_CHECK) != 0);
		std::string ctx = fmt(" [.lz %d members, %zu bytes (members end %zu), tail kind %d%s, flags 0x%x; reference: %s %s consumed %zu]", members, file.size(), members_end, tail, faulted ? ", faulted" : "", flags,
			want.verdict == 0 ? "valid" : want.verdict == 2 ? "unsupported" : "invalid:", want.why.c_str(), want.consumed);
		if (!faulted && tail == 0 && (want.verdict != 0 || (concat && want.out != plain))) { v.fail("harness", "harness/synth", "reference rejects its own .lz" + ctx); return; }
		for (int which = 0; which < 2; ++which) {
			Decoded d = run_decoder(which == 0 ? 3 : 1, file, flags, nullptr, dseed + (uint64_t)which, style, finish);
			if (!d.error.empty()) { v.fail("decoder-error", "C16/decoder-error", d.error + ctx); return; }
			std::string got = fmt(" [%s: %s, %zu bytes, consumed %llu]", which == 0 ? "lzip_decoder" : "auto_decoder", ret_name(d.status), d.out.size(), (unsigned long long)d.total_in);
			bool acc = d.status == LZMA_STREAM_END;
			if (want.verdict == 0) {
				// without LZMA_FINISH the decoder cannot know that no further member follows
				bool at_eof_ambiguous = concat && !finish && want.consumed == file.size();
				bool trailing_short = concat && !finish && file.size() - want.consumed < 4;   // fewer bytes than an ID string left: it must wait
				if (!acc && !(at_eof_ambiguous || trailing_short)) { v.fail("valid-rejected", "C16/valid-rejected", "a valid .lz file was rejected" + ctx + got); return; }
				if (acc) {
					if (d.out != want.out) { v.fail("wrong-output", "C16/wrong-output", ".lz output differs" + ctx + got); return; }
					// trailing data is left unread (up to three bytes that match the ID string may be consumed, as documented)
					if (d.total_in < want.consumed || d.total_in > want.consumed + 3) { v.fail("input-position", "C16/input-position", "the .lz decoder's input position is not at the end of the last member" + ctx + got); return; }
				} else if (d.out.size() > want.out.size() || memcmp(d.out.data(), want.out.data(), d.out.size()) != 0) { v.fail("wrong-output", "C16/wrong-output", ".lz output is not a prefix" + ctx + got); return; }
			} else if (acc && !(want.verdict == 2)) { v.fail("invalid-accepted", "C16/invalid-accepted", "an invalid .lz file was accepted" + ctx + got); return; }
			else if (acc && want.verdict == 2) { v.fail("unsupported-accepted", "C16/unsupported-accepted", "an .lz member with an unsupported version was accepted" + ctx + got); return; }
		}
		v.counters["bits.lzma_features"] |= feat;
		v.feature(mix64(var, mix64(faulted, mix64(tail, concat))));
		v.feature2(mix64((uint64_t)want.verdict, mix64(members, tail)));
		return;
	}
	// ---- .xz concatenation: Streams with zero padding in multiples of four (or not)
	SynthXz x;
	Bytes file, plain;
	int ns = 1 + (int)(var % 3);
	std::vector<size_t> stream_ends;
	for (int s = 0; s < ns; ++s) {
		SynthXz one;
		ref::SynthRng r2(srng.next());
		// a single Stream: cut the synth output after its first Stream
		synth_xz(r2, one, false);
		ref::XzResult p = ref::parse_xz(one.file.data(), one.file.size(), false);
		file.insert(file.end(), one.file.begin(), one.file.begin() + (long)p.consumed);
		stream_ends.push_back(file.size());
		size_t pad = (size_t)((var >> (3 + 4 * s)) % 10);   // 0..9 bytes: only multiples of four are legal
		if (s + 1 < ns || ((var >> 20) & 1)) file.insert(file.end(), pad, 0);
	}
	for (auto &op : plan.ops) if (op.name == "sfault") apply_one_fault(op, file, &v);
	ref::XzResult want = ref::parse_xz(file.data(), file.size(), concat);
	std::string ctx = fmt(" [.xz %d streams, %zu bytes, first stream ends at %zu%s, flags 0x%x, finish %d; reference: %s %s consumed %zu]", ns, file.size(), stream_ends[0], faulted ? ", faulted" : "", flags, (int)finish,
		want.verdict == ref::XZ_VALID ? "valid" : "invalid:", want.why.c_str(), want.consumed);
	for (int which = 0; which < 3; ++which) {
		int kind = which == 0 ? 0 : which == 1 ? 1 : 5;
		Decoded d = run_decoder(kind, file, flags | LZMA_TELL_UNSUPPORTED_CHECK, nullptr, dseed + (uint64_t)which, style, finish);
		if (!d.error.empty()) { v.fail("decoder-error", "C16/decoder-error", d.error + ctx); return; }
		std::string got = fmt(" [decoder %d: %s, %zu bytes, consumed %llu]", kind, ret_name(d.status), d.out.size(), (unsigned long long)d.total_in);
		bool acc = d.status == LZMA_STREAM_END;
		if (want.verdict == ref::XZ_VALID) {
			// concatenated decoding without LZMA_FINISH cannot end: the decoder must wait for more
			if (concat && !finish) { if (acc) { v.fail("ended-without-finish", "C16/ended-without-finish", "concatenated .xz decoding ended although the application never said LZMA_FINISH" + ctx + got); return; } continue; }
			if (!acc) { v.fail("valid-rejected", "C16/valid-rejected", "a valid (concatenated) .xz file was rejected" + ctx + got); return; }
			if (d.out != want.out) { v.fail("wrong-output", "C16/wrong-output", ".xz output differs" + ctx + got); return; }
			if (!concat && d.total_in != want.consumed && kind != 5) { v.fail("input-position", "C16/input-position", "without LZMA_CONCATENATED decoding must stop exactly at the end of the first Stream" + ctx + got); return; }
		} else if (want.verdict == ref::XZ_INVALID && acc) { v.fail("invalid-accepted", "C16/invalid-accepted", "an invalid .xz concatenation was accepted" + ctx + got); return; }
		else if (want.verdict == ref::XZ_UNSUPPORTED && acc) { v.fail("unsupported-accepted", "C16/unsupported-accepted", "reserved features accepted" + ctx + got); return; }
	}
	v.feature(mix64(var, mix64(faulted, mix64((uint64_t)want.verdict, concat * 2 + finish))));
	v.feature2(mix64((uint64_t)want.verdict, mix64(ns, concat)));
}

REGISTER_SCENARIO(c16_main, "C16", "format_rules", 100, 100, c16_gen, c16_exec, true);

} // namespace
