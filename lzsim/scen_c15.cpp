// C15 — BCJ and delta filters are exact inverses, size-preserving and stable.
// The streaming coders (simple_coder with its held-back tail, x86 prev_mask
// carried across calls, end-of-input flush; delta history) are driven through
// the public raw coders under delivery schedules aimed at instruction
// boundaries. The filtered bytes themselves are extracted by decoding only
// the LZMA2 layer: raw_encode([F, LZMA2]) then raw_decode([LZMA2]) gives what
// the streaming F encoder produced. Oracle: model/refbcj whole-buffer
// transforms (fixes the *meaning* of the transform).
#include "core.hpp"
#include "session.hpp"
#include "xzutil.hpp"
#include "../model/refbcj.hpp"

namespace {

static const lzma_vli ids[] = { LZMA_FILTER_X86, LZMA_FILTER_POWERPC, LZMA_FILTER_IA64, LZMA_FILTER_ARM, LZMA_FILTER_ARMTHUMB, LZMA_FILTER_SPARC,
	LZMA_FILTER_ARM64, LZMA_FILTER_RISCV, LZMA_FILTER_DELTA };
static const char *names[] = { "x86", "powerpc", "ia64", "arm", "armthumb", "sparc", "arm64", "riscv", "delta" };

// instruction-dense input for one architecture
static Bytes gen_code(int f, size_t len, uint64_t seed)
{
	Rng r(seed);
	Bytes b(len);
	for (auto &x : b) x = (uint8_t)r.next();
	auto put = [&](size_t pos, std::initializer_list<int> bytes) { size_t i = pos; for (int v : bytes) { if (i < b.size() && v >= 0) b[i] = (uint8_t)v; ++i; } };
	size_t n = len / (3 + r.below(12)) + 1;
	for (size_t k = 0; k < n && len > 8; ++k) {
		size_t p = (size_t)r.below(len);
		switch (f) {
		case 0: put(p, { r.chance(500) ? 0xE8 : 0xE9, -1, -1, -1, r.chance(700) ? (r.chance(500) ? 0x00 : 0xFF) : -1 }); if (r.chance(300)) put(p + 1 + r.below(4), { r.chance(500) ? 0xE8 : 0xE9 }); break;
		case 1: p &= ~(size_t)3; put(p, { 0x48 | (int)r.below(4), -1, -1, (int)((b[p + 3 < len ? p + 3 : p] & 0xFC) | 1) }); break;
		case 2: p &= ~(size_t)15; put(p, { (int)((b[p] & 0xE0) | (0x10 + r.below(16))) }); if (p + 16 <= len) { /* make slot opcodes 5 now and then */ for (int s = 0; s < 3; ++s) if (r.chance(500)) { size_t bit = 5 + 41 * (size_t)s + 37; size_t by = p + bit / 8; if (by + 1 < len) { unsigned sh = bit % 8; uint16_t w = (uint16_t)(b[by] | (b[by + 1] << 8)); w = (uint16_t)((w & ~(0xF << sh)) | (0x5 << sh)); b[by] = (uint8_t)w; b[by + 1] = (uint8_t)(w >> 8); } size_t bit2 = 5 + 41 * (size_t)s + 9; size_t by2 = p + bit2 / 8; if (by2 + 1 < len) { unsigned sh = bit2 % 8; uint16_t w = (uint16_t)(b[by2] | (b[by2 + 1] << 8)); w = (uint16_t)(w & ~(0x7 << sh)); b[by2] = (uint8_t)w; b[by2 + 1] = (uint8_t)(w >> 8); } } } break;
		case 3: p &= ~(size_t)3; put(p + 3, { 0xEB }); break;
		case 4: p &= ~(size_t)1; put(p + 1, { 0xF0 | (int)r.below(8), -1, 0xF8 | (int)r.below(8) }); break;
		case 5: p &= ~(size_t)3; if (r.chance(500)) put(p, { 0x40, (int)r.below(64) }); else put(p, { 0x7F, 0xC0 | (int)r.below(64) }); break;
		case 6: p &= ~(size_t)3; if (r.chance(500)) put(p + 3, { 0x94 | (int)r.below(4) }); else { put(p + 3, { 0x90 | (int)(r.below(4) << 5) | (int)(r.chance(300) ? r.below(16) : 0) }); if (r.chance(600)) put(p + 2, { (int)(r.chance(500) ? r.below(4) : 0xFC + r.below(4)) }); } break;
		case 7: p &= ~(size_t)1; switch (r.below(4)) { case 0: put(p, { 0xEF, (int)r.below(256) }); break; case 1: put(p, { 0x6F | (int)(r.below(2) << 7) }); break; case 2: put(p, { 0x17 | (int)(r.below(8) << 7), -1, -1, -1, (int)((r.below(2) ? 0x67 : 0x03) | (r.below(2) << 7)) }); break; default: put(p, { 0x97, -1, -1, -1, 0x13 | (int)(r.below(2) << 7) }); break; } break;
		default: break;
		}
	}
	return b;
}

// raw coder under a delivery schedule; returns false on error
static bool raw_run(bool encode, lzma_filter *filters, const Bytes &in, Bytes &out, Rng &rng, int style, size_t aim, std::string &err)
{
	SimAlloc al;
	Session ss(&al.a);
	ss.set_input(&in);
	lzma_ret r = encode ? lzma_raw_encoder(&ss.s, filters) : lzma_raw_decoder(&ss.s, filters);
	if (r != LZMA_OK) { err = fmt("raw coder init: %s", ret_name(r)); ss.end(); return false; }
	bool finishing = false;
	uint64_t guard = 0;
	for (;;) {
		size_t in_n, out_n;
		size_t pos = ss.in_pos;
		switch (style) {
		case 0: in_n = ss.in_left(); out_n = 1 << 16; break;
		case 1: in_n = 1; out_n = 1 + (size_t)rng.below(2); break;
		case 2: in_n = 1 + (size_t)rng.below(9); out_n = 1 + (size_t)rng.below(9); break;
		case 3: in_n = (size_t)rng.size_skewed(2000) + 1; out_n = (size_t)rng.size_skewed(2000) + 1; break;
		default: // one byte at a time around `aim`, big elsewhere
			if (pos + 20 >= aim && pos < aim + 20) { in_n = 1; out_n = 1 + (size_t)rng.below(4); }
			else if (pos < aim) { in_n = aim > pos + 20 ? aim - 20 - pos : 1; out_n = 1 << 16; }
			else { in_n = ss.in_left(); out_n = 1 << 16; }
			break;
		}
		if (in_n > ss.in_left()) in_n = ss.in_left();
		if (finishing) in_n = ss.in_left();
		lzma_action act = in_n == ss.in_left() ? LZMA_FINISH : LZMA_RUN;
		if (act == LZMA_FINISH) finishing = true;
		r = ss.step(in_n, out_n, act);
		if (r == LZMA_STREAM_END) break;
		if (r != LZMA_OK) { err = fmt("raw coder: %s", ret_name(r)); ss.end(); return false; }
		if (++guard > 3000000) { err = "no termination"; ss.end(); return false; }
	}
	if (!ss.acct_error.empty()) { err = ss.acct_error; ss.end(); return false; }
	out.swap(ss.out);
	ss.end();
	if (al.cur) { err = "leak"; al.purge(); return false; }
	return true;
}

static void c15_gen(Rng &rng, Plan &plan, bool thorough)
{
	gen_sched_params(rng, plan, thorough);
	int f = (int)rng.below(9);
	plan.setp("filter", f);
	plan.setp("len", (int64_t)(rng.chance(200) ? rng.below(40) : rng.size_skewed(thorough ? 60000 : 12000)));
	plan.setp("seed", (int64_t)(rng.next() >> 2));
	if (f == 8) plan.setp("dist", rng.range(1, 256));
	else if (rng.chance(500)) {
		static const unsigned al[] = { 1, 4, 16, 4, 2, 4, 4, 2 };
		uint32_t st = (uint32_t)(rng.chance(300) ? 0xFFFFFFFFu - rng.below(1 << 12) : rng.below(1 << 24));
		plan.setp("start", (int64_t)(st - st % al[f]));
	}
	plan.setp("style", (int64_t)rng.below(5));
	plan.setp("aim", (int64_t)rng.below(1000000));
	plan.setp("delivery_seed", (int64_t)(rng.next() >> 2));
	plan.setp("second_filter", rng.chance(200) ? (int64_t)rng.below(9) : -1);
}

static void c15_exec(const Plan &plan, Verdict &v)
{
	int f = (int)plan.p("filter") % 9;
	size_t len = (size_t)plan.p("len", 100);
	Bytes input = gen_code(f, len, (uint64_t)plan.p("seed", 1));
	uint32_t start = (uint32_t)plan.p("start", 0);
	unsigned dist = (unsigned)plan.p("dist", 1);
	lzma_options_bcj ob; memset(&ob, 0, sizeof ob); ob.start_offset = start;
	lzma_options_delta od; memset(&od, 0, sizeof od); od.type = LZMA_DELTA_TYPE_BYTE; od.dist = dist;
	lzma_options_lzma lz; lzma_lzma_preset(&lz, 0); lz.dict_size = 4096;
	lzma_filter with[3], only[2];
	with[0].id = ids[f]; with[0].options = f == 8 ? (void *)&od : (plan.hasp("start") ? (void *)&ob : nullptr);
	with[1].id = LZMA_FILTER_LZMA2; with[1].options = &lz;
	with[2].id = LZMA_VLI_UNKNOWN; with[2].options = nullptr;
	only[0] = with[1]; only[1] = with[2];
	Rng rng((uint64_t)plan.p("delivery_seed"));
	int style = (int)plan.p("style");
	size_t aim = len ? (size_t)((double)plan.p("aim") / 1e6 * (double)len) : 0;
	v.count("runs.total");
	v.count(std::string("filter.") + names[f]);
	std::string ctx = fmt(" [%s, %zu bytes, start offset %u, dist %u, delivery style %d aimed at %zu]", names[f], len, start, dist, style, aim);
	std::string err;

	// reference transforms
	Bytes want_enc = input, want_dec = input;
	bool have_ref = f == 8 || ref::bcj_supported(ids[f]);
	if (f == 8) { ref::delta_apply(want_enc, dist, true); ref::delta_apply(want_dec, dist, false); }
	else if (have_ref) { ref::bcj_apply(ids[f], want_enc, start, true); ref::bcj_apply(ids[f], want_dec, start, false); }

	// 1. streaming encoder output = reference transform
	Bytes packed, filtered;
	if (!raw_run(true, with, input, packed, rng, style, aim, err)) { v.fail("coder-error", "C15/coder-error", "encode: " + err + ctx); return; }
	Rng r0(1);
	if (!raw_run(false, only, packed, filtered, r0, 0, 0, err)) { v.fail("coder-error", "C15/coder-error", "unwrap: " + err + ctx); return; }
	if (filtered.size() != input.size()) { v.fail("size-changed", "C15/size-changed", fmt("the filter changed the length: %zu -> %zu", input.size(), filtered.size()) + ctx); return; }
	if (have_ref && filtered != want_enc) {
		size_t i = 0; while (i < filtered.size() && filtered[i] == want_enc[i]) ++i;
		v.fail("transform-differs", "C15/transform-differs", fmt("streaming encoder output differs from the reference algorithm at byte %zu", i) + ctx); return;
	}
	// 2. full chain decode under another delivery = identity
	Bytes back;
	if (!raw_run(false, with, packed, back, rng, (style + 1) % 5, aim, err)) { v.fail("coder-error", "C15/coder-error", "decode: " + err + ctx); return; }
	if (back != input) {
		size_t i = 0; while (i < back.size() && i < input.size() && back[i] == input[i]) ++i;
		v.fail("not-inverse", "C15/not-inverse", fmt("decode(encode(x)) != x, first difference at byte %zu of %zu", i, input.size()) + ctx); return;
	}
	// 3. streaming decoder applied to arbitrary bytes = reference decode transform
	Bytes packed2, decoded;
	Rng r1(2);
	if (!raw_run(true, only, input, packed2, r1, 0, 0, err)) { v.fail("coder-error", "C15/coder-error", "wrap: " + err + ctx); return; }
	if (!raw_run(false, with, packed2, decoded, rng, style, aim, err)) { v.fail("coder-error", "C15/coder-error", "decode raw: " + err + ctx); return; }
	if (decoded.size() != input.size()) { v.fail("size-changed", "C15/size-changed", "decoder changed the length" + ctx); return; }
	if (have_ref && decoded != want_dec) {
		size_t i = 0; while (i < decoded.size() && decoded[i] == want_dec[i]) ++i;
		v.fail("transform-differs", "C15/transform-differs", fmt("streaming decoder output differs from the reference algorithm at byte %zu", i) + ctx); return;
	}
	// 4. one-shot functions = streaming coder
	if (f == 0 || f == 6 || f == 7) {
		Bytes one = input, two = input;
		size_t n1, n2;
		if (f == 0) { n1 = lzma_bcj_x86_encode(start, one.data(), one.size()); n2 = lzma_bcj_x86_decode(start, two.data(), two.size()); }
		else if (f == 6) { n1 = lzma_bcj_arm64_encode(start, one.data(), one.size()); n2 = lzma_bcj_arm64_decode(start, two.data(), two.size()); }
		else { n1 = lzma_bcj_riscv_encode(start, one.data(), one.size()); n2 = lzma_bcj_riscv_decode(start, two.data(), two.size()); }
		if (n1 > one.size() || n2 > two.size()) { v.fail("one-shot-size", "C15/one-shot-size", "one-shot function reports more bytes than given" + ctx); return; }
		if (one != filtered) { size_t i = 0; while (i < one.size() && one[i] == filtered[i]) ++i; v.fail("one-shot-differs", "C15/one-shot-differs", fmt("one-shot encode differs from the streaming encoder at byte %zu", i) + ctx); return; }
		if (two != decoded) { v.fail("one-shot-differs", "C15/one-shot-differs", "one-shot decode differs from the streaming decoder" + ctx); return; }
		v.count("oracle.one_shot_compared");
	}
	if (!have_ref) v.count("oracle.no_reference_riscv");
	size_t changed = 0;
	for (size_t i = 0; i < filtered.size(); ++i) if (filtered[i] != input[i]) ++changed;
	if (changed) v.feature(mix64(mix64((uint64_t)f, plan.hasp("start")), mix64(style, len / 256)));
	v.feature2(fnv_str(plan.to_text(false)));
	v.count("oracle.bytes_transformed", changed);
}

REGISTER_SCENARIO(c15_main, "C15", "bcj_delta", 100, 100, c15_gen, c15_exec, false);

} // namespace
