// lzsim core: PRNG, plans, verdicts, simulated allocator, data generators,
// scenario registry. Everything a run does is a pure function of its Plan.
#pragma once

#include <cstdint>
#include <cstdio>
#include <cstdlib>
#include <cstring>
#include <map>
#include <set>
#include <string>
#include <unordered_map>
#include <vector>

#include <lzma.h>

extern "C" {
#include "../simrt/sim.h"
extern uint32_t lzma_verif_mf_norm_after;
}

typedef std::vector<uint8_t> Bytes;

// ------------------------------------------------------------------ PRNG
struct Rng {
	uint64_t s[4];
	explicit Rng(uint64_t seed = 0) { reseed(seed); }
	void reseed(uint64_t x);
	// sub-stream: independent generator derived from this seed and a name
	static Rng derive(uint64_t seed, const char *stream, uint64_t idx = 0);
	uint64_t next();
	uint64_t below(uint64_t n) { return n ? next() % n : 0; }
	int64_t range(int64_t lo, int64_t hi) { return lo + (int64_t)below((uint64_t)(hi - lo + 1)); }
	bool chance(uint32_t permille) { return below(1000) < permille; }
	template <class T> const T &pick(const std::vector<T> &v) { return v[below(v.size())]; }
	// size skewed towards small values and boundaries
	uint64_t size_skewed(uint64_t max);
};

uint64_t fnv1a(const void *p, size_t n, uint64_t h = 0xcbf29ce484222325ull);
inline uint64_t fnv_str(const std::string &s, uint64_t h = 0xcbf29ce484222325ull) { return fnv1a(s.data(), s.size(), h); }
inline uint64_t mix64(uint64_t a, uint64_t b) { a ^= b + 0x9e3779b97f4a7c15ull + (a << 6) + (a >> 2); return a; }

std::string hex(const uint8_t *p, size_t n);
Bytes unhex(const std::string &s);

// ------------------------------------------------------------------ Plan
struct Op {
	std::string name;
	std::vector<std::pair<std::string, int64_t>> kv;
	Op() {}
	explicit Op(const std::string &n) : name(n) {}
	Op &set(const std::string &k, int64_t v);
	int64_t get(const std::string &k, int64_t def = 0) const;
	bool has(const std::string &k) const;
};

struct Plan {
	std::string prop;     // C07
	std::string scen;     // scenario name within the property
	uint64_t seed = 0;
	std::vector<std::pair<std::string, int64_t>> params;
	std::map<std::string, std::string> blobs;   // hex blobs (small artefacts)
	std::vector<Op> ops;
	std::vector<uint32_t> choices;  // non-empty => replay schedule from list
	bool have_choices = false;

	void setp(const std::string &k, int64_t v);
	int64_t p(const std::string &k, int64_t def = 0) const;
	bool hasp(const std::string &k) const;
	std::string to_text(bool with_choices = true) const;
	static bool from_text(const std::string &text, Plan &out, std::string &err);
};

// --------------------------------------------------------------- Verdict
struct Verdict {
	bool ok = true;
	std::string cls;   // violation class (stable, used for minimisation)
	std::string sig;   // signature for known-findings matching
	std::string msg;
	std::map<std::string, uint64_t> counters;   // summed across runs
	std::vector<uint64_t> features;             // hashed; distinct counted across runs
	std::vector<uint64_t> features2;            // secondary distinct measure
	uint64_t trace_hash = 0;
	void fail(const std::string &c, const std::string &s, const std::string &m) {
		if (!ok) return;   // first violation wins
		ok = false; cls = c; sig = s; msg = m;
	}
	void count(const std::string &k, uint64_t n = 1) { counters[k] += n; }
	void feature(uint64_t f) { features.push_back(f); }
	void feature2(uint64_t f) { features2.push_back(f); }
};

std::string fmt(const char *f, ...) __attribute__((format(printf, 1, 2)));

// ------------------------------------------------------------- Allocator
// A lzma_allocator that counts, bounds, poisons, fails on demand and checks
// frees. Single-threaded by construction (the scheduler runs one thread).
struct SimAlloc {
	lzma_allocator a;
	struct Blk { size_t size; uint32_t seq; bool big; };
	// Live-block table: fixed-size open addressing in one mmap'ed region, so
	// that the bookkeeping itself never calls malloc/free from a simulated
	// thread (ThreadSanitizer would see those as unsynchronised accesses of
	// the harness, not of liblzma).
	struct Slot { void *ptr; Blk blk; };   // ptr: NULL empty, (void*)1 tombstone
	struct LiveTable {
		Slot *slots = nullptr;
		size_t cap = 0, n = 0, used = 0;
		LiveTable();
		~LiveTable();
		Blk *find(void *p);
		void insert(void *p, const Blk &b);
		void erase(void *p);
		size_t size() const { return n; }
		void clear();
		template <class F> void each(F f) { for (size_t i = 0; i < cap; ++i) if ((uintptr_t)slots[i].ptr > 1) f(slots[i].ptr, slots[i].blk); }
	} live;
	uint64_t cur = 0, peak = 0, total_allocs = 0, total_frees = 0;
	uint32_t seq = 0;         // allocation counter since last reset_seq()
	// fault plan
	uint32_t fail_nth = 0;    // fail exactly the nth allocation (1-based) since reset_seq
	uint32_t fail_from = 0;   // from this allocation on ...
	uint32_t fail_permille = 0; // ... fail with this probability
	uint64_t fail_above = 0;  // fail any request larger than this (0 = off)
	Rng frng;
	uint64_t failures = 0;
	// misuse detected by free()
	std::string misuse;
	bool enabled_null_passthrough = false;

	SimAlloc();
	~SimAlloc();
	void reset_seq() { seq = 0; }
	void clear_faults() { fail_nth = 0; fail_from = 0; fail_permille = 0; fail_above = 0; }
	void reset_peak() { peak = cur; }
	// free everything still live (after a leak was reported) so the process
	// can go on
	void purge();
	// byte that fresh allocations are filled with (two runs with different values and the same
	// results show that no uninitialised byte reached an output)
	static uint8_t poison_byte;
	static void *s_alloc(void *opaque, size_t nmemb, size_t size);
	static void s_free(void *opaque, void *ptr);
};

// ---------------------------------------------------------------- Data
enum InputClass { IN_EMPTY = 0, IN_ONE, IN_RANDOM, IN_ZEROS, IN_RUNS, IN_TEXT,
	IN_REPEAT_FAR, IN_X86ISH, IN_MIXED, IN_SPARSE, IN_LOWENT, IN_CLASS_COUNT };
const char *input_class_name(int c);
// deterministic in (cls, len, seed)
Bytes gen_input(int cls, size_t len, uint64_t seed);

// ------------------------------------------------------- dirty handles
// With plan parameter dirty_kind != 0 every Session's lzma_stream has served
// another coder (completely or part-way, never ended) before the scenario
// initialises it: whatever the earlier use left in the handle or in a reused
// coder structure must not change any result. Set by run_plan, consumed by
// the Session constructor (defined in xzutil.cpp).
struct DirtySpec { int kind = 0; uint64_t seed = 0; uint64_t uses = 0; };
extern DirtySpec g_dirty;
void dirty_preuse(lzma_stream *s);

// ------------------------------------------------------------ Registry
struct Scenario {
	const char *prop;
	const char *name;
	// weight in the per-property swarm (per tier)
	int weight_quick, weight_thorough;
	void (*gen)(Rng &rng, Plan &plan, bool thorough);
	void (*exec)(const Plan &plan, Verdict &v);
	// true if the scenario needs the thread scheduler
	bool threaded;
};
void register_scenario(const Scenario &s);
const std::vector<Scenario> &scenarios();
const Scenario *find_scenario(const std::string &prop, const std::string &name);
#define REGISTER_SCENARIO(var, ...) \
	static const Scenario var##_def = { __VA_ARGS__ }; \
	static struct var##_reg { var##_reg() { register_scenario(var##_def); } } var##_reg_inst

// Run one plan: sets up allocator-independent global state (sim, H1 knob),
// calls scenario exec, fills trace hash. Never throws.
void run_plan(const Plan &plan, Verdict &v);

// Scheduler parameters are stored in the plan (params sched_*), generated by
// this helper and applied by sim_from_plan().
void gen_sched_params(Rng &rng, Plan &plan, bool thorough);
void sim_from_plan(const Plan &plan, sim_params &sp);

// status names
const char *ret_name(int r);

extern const char *g_flavour;  // "asan" / "tsan" / "plain"
