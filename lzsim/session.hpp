// Session: a simulated client of one lzma_stream. Every lzma_code() call uses
// exact-size heap buffers (so that a stray byte is an ASan report and a
// canary mismatch), and the accounting of the six public fields is verified
// on every call (part of C11, active in every scenario).
#pragma once
#include "core.hpp"

struct Session {
	lzma_stream s = LZMA_STREAM_INIT;
	const Bytes *in = nullptr;
	size_t in_pos = 0;       // bytes of *in handed over and consumed
	Bytes out;
	lzma_ret last = LZMA_OK;
	uint64_t calls = 0;
	uint64_t noprog_calls = 0;
	std::vector<int> notices;
	std::string acct_error;  // first accounting violation seen
	bool keep_output = true;

	explicit Session(const lzma_allocator *al = nullptr) { s.allocator = al; if (g_dirty.kind) dirty_preuse(&s); }
	void set_input(const Bytes *b) { in = b; in_pos = 0; }
	size_t in_limit = (size_t)-1;   // end of the input segment currently on offer
	size_t in_left() const
	{
		if (!in) return 0;
		size_t end = in->size() < in_limit ? in->size() : in_limit;
		return end > in_pos ? end - in_pos : 0;
	}

	// One lzma_code() call offering at most in_n input bytes and out_n bytes
	// of output space.
	lzma_ret step(size_t in_n, size_t out_n, lzma_action a)
	{
		if (in_n > in_left()) in_n = in_left();
		// exact-size blocks: ASan red zones start right after the last byte
		uint8_t *ib = (uint8_t *)malloc(in_n ? in_n : 1);
		uint8_t *ob = (uint8_t *)malloc(out_n ? out_n : 1);
		if (in_n) memcpy(ib, in->data() + in_pos, in_n);
		memset(ob, 0xEE, out_n ? out_n : 1);
		s.next_in = ib;   // never NULL: see DESIGN.md (NULL + 0 pointer arithmetic is not judged)
		s.avail_in = in_n;
		s.next_out = ob;
		s.avail_out = out_n;
		uint64_t ti = s.total_in, to = s.total_out;
		lzma_ret r = lzma_code(&s, a);
		++calls;
		size_t used = in_n - s.avail_in;
		size_t made = out_n - s.avail_out;
		if (acct_error.empty()) {
			if (s.avail_in > in_n || s.avail_out > out_n) acct_error = "avail_in/avail_out grew";
			else if (in_n && s.next_in != ib + used) acct_error = "next_in not advanced by the bytes consumed";
			else if (s.next_out != ob + made) acct_error = "next_out not advanced by the bytes produced";
			else if (s.total_in != ti + used) acct_error = fmt("total_in advanced by %llu, consumed %zu", (unsigned long long)(s.total_in - ti), used);
			else if (s.total_out != to + made) acct_error = fmt("total_out advanced by %llu, produced %zu", (unsigned long long)(s.total_out - to), made);
			// Bytes of the offered output space beyond what is reported as
			// produced may be scribbled on (the BCJ coder filters in place and
			// takes the unfiltered tail back), so they are not compared;
			// anything outside the block is an ASan report.
		}
		if (keep_output) out.insert(out.end(), ob, ob + made);
		in_pos += used;
		if (used == 0 && made == 0) ++noprog_calls; else noprog_calls = 0;
		free(ib);
		free(ob);
		s.next_in = nullptr; s.next_out = nullptr; s.avail_in = 0; s.avail_out = 0;
		last = r;
		if (getenv("LZSIM_TRACE")) fprintf(stderr, "call %llu action=%d in=%zu out=%zu -> %s used=%zu made=%zu t=%llu\n", (unsigned long long)calls, (int)a, in_n, out_n, ret_name(r), used, made, (unsigned long long)sim_elapsed_ns());
		if (getenv("LZSIM_TRACE") && getenv("LZSIM_TRACE")[0] == '2') { char b[2000]; sim_describe(b, sizeof b); fputs(b, stderr); }
		if (r == LZMA_NO_CHECK || r == LZMA_UNSUPPORTED_CHECK || r == LZMA_GET_CHECK) notices.push_back((int)r);
		return r;
	}

	void end() { lzma_end(&s); }
};

inline bool ret_is_public(lzma_ret r) { return (int)r >= 0 && (int)r <= 12; }
