// C13 — the Index and file-info APIs describe files exactly; random access is
// correct. (a) histories of lzma_index_* calls against IndexModel, a plain
// list-of-records model written from the .xz file format specification
// (section 4, Index; section 2, Stream layout); (b) lzma_file_info_decoder over
// a simulated seekable file: the simulator decides how many bytes each read
// returns and honours every LZMA_SEEK_NEEDED.
#include "core.hpp"
#include "session.hpp"
#include "xzutil.hpp"

namespace {

typedef unsigned __int128 u128;
static const uint64_t VLI_MAX = UINT64_MAX / 2;

static unsigned vli_size(uint64_t v) { unsigned n = 1; while (v >= 0x80) { v >>= 7; ++n; } return n; }
static uint64_t ceil4(uint64_t v) { return (v + 3) & ~(uint64_t)3; }

struct MStream {
	std::vector<std::pair<uint64_t, uint64_t>> recs;   // (unpadded, uncompressed)
	bool has_flags = false;
	int check = 0;
	uint64_t padding = 0;
};

struct IndexModel {
	std::vector<MStream> streams;
	IndexModel() { streams.emplace_back(); }
	uint64_t blocks() const { uint64_t n = 0; for (auto &s : streams) n += s.recs.size(); return n; }
	static u128 index_size_of(uint64_t count, u128 list_size) { u128 u = 1 + vli_size(count) + list_size + 4; return (u + 3) & ~(u128)3; }
	u128 list_size(const MStream &s) const { u128 n = 0; for (auto &r : s.recs) n += vli_size(r.first) + vli_size(r.second); return n; }
	u128 stream_blocks_size(const MStream &s) const { u128 n = 0; for (auto &r : s.recs) n += ceil4(r.first); return n; }
	u128 stream_size(const MStream &s) const { return 12 + stream_blocks_size(s) + index_size_of(s.recs.size(), list_size(s)) + 12; }
	u128 stream_uncomp(const MStream &s) const { u128 n = 0; for (auto &r : s.recs) n += r.second; return n; }
	u128 file_size() const { u128 n = 0; for (auto &s : streams) n += stream_size(s) + s.padding; return n; }
	u128 uncompressed() const { u128 n = 0; for (auto &s : streams) n += stream_uncomp(s); return n; }
	u128 total_size() const { u128 n = 0; for (auto &s : streams) n += stream_blocks_size(s); return n; }
	// lzma_index_size / lzma_index_stream_size treat all records as one Index / one Stream
	u128 combined_index_size() const { u128 l = 0; for (auto &s : streams) l += list_size(s); return index_size_of(blocks(), l); }
	u128 combined_stream_size() const { return 12 + total_size() + combined_index_size() + 12; }
	uint32_t checks() const { uint32_t m = 0; for (auto &s : streams) if (s.has_flags) m |= 1u << s.check; return m; }
};

struct Handle { lzma_index *i = nullptr; IndexModel m; bool live = false; };

static std::string u128s(u128 v) { if (v > UINT64_MAX) return ">2^64"; return std::to_string((uint64_t)v); }

// Compare every query, a full iteration in all four modes and a sample of
// locate() calls with the model.
static std::string compare(const lzma_index *i, const IndexModel &m, Rng &rng, const SimAlloc *al, uint64_t *located)
{
	if (lzma_index_block_count(i) != m.blocks()) return fmt("block_count %llu, model %llu", (unsigned long long)lzma_index_block_count(i), (unsigned long long)m.blocks());
	if (lzma_index_stream_count(i) != m.streams.size()) return fmt("stream_count %llu, model %zu", (unsigned long long)lzma_index_stream_count(i), m.streams.size());
	if ((u128)lzma_index_size(i) != m.combined_index_size()) return fmt("index_size %llu, model %s", (unsigned long long)lzma_index_size(i), u128s(m.combined_index_size()).c_str());
	if ((u128)lzma_index_total_size(i) != m.total_size()) return fmt("total_size %llu, model %s", (unsigned long long)lzma_index_total_size(i), u128s(m.total_size()).c_str());
	if ((u128)lzma_index_stream_size(i) != m.combined_stream_size()) return fmt("stream_size %llu, model %s", (unsigned long long)lzma_index_stream_size(i), u128s(m.combined_stream_size()).c_str());
	if ((u128)lzma_index_file_size(i) != m.file_size()) return fmt("file_size %llu, model %s", (unsigned long long)lzma_index_file_size(i), u128s(m.file_size()).c_str());
	if ((u128)lzma_index_uncompressed_size(i) != m.uncompressed()) return fmt("uncompressed_size %llu, model %s", (unsigned long long)lzma_index_uncompressed_size(i), u128s(m.uncompressed()).c_str());
	if (lzma_index_checks(i) != m.checks()) return fmt("checks 0x%x, model 0x%x", lzma_index_checks(i), m.checks());
	if (lzma_index_memused(i) != lzma_index_memusage(m.streams.size(), m.blocks())) return fmt("memused %llu != memusage(%zu streams, %llu blocks) %llu", (unsigned long long)lzma_index_memused(i), m.streams.size(), (unsigned long long)m.blocks(), (unsigned long long)lzma_index_memusage(m.streams.size(), m.blocks()));
	if (al && lzma_index_memused(i) < al->cur) return fmt("memused %llu is less than the %llu bytes really allocated", (unsigned long long)lzma_index_memused(i), (unsigned long long)al->cur);

	// iteration, all four modes
	for (int mode = 0; mode < 4; ++mode) {
		lzma_index_iter it;
		lzma_index_iter_init(&it, i);
		u128 coff = 0, uoff = 0;
		uint64_t bnum = 0;
		for (size_t s = 0; s < m.streams.size(); ++s) {
			const MStream &ms = m.streams[s];
			u128 s_coff = coff, s_uoff = uoff;
			auto check_stream = [&]() -> std::string {
				if (it.stream.number != s + 1) return fmt("stream.number %llu, model %zu", (unsigned long long)it.stream.number, s + 1);
				if (it.stream.block_count != ms.recs.size()) return "stream.block_count";
				if ((u128)it.stream.compressed_offset != s_coff) return fmt("stream.compressed_offset %llu, model %s", (unsigned long long)it.stream.compressed_offset, u128s(s_coff).c_str());
				if ((u128)it.stream.uncompressed_offset != s_uoff) return "stream.uncompressed_offset";
				if ((u128)it.stream.compressed_size != m.stream_size(ms)) return fmt("stream.compressed_size %llu, model %s", (unsigned long long)it.stream.compressed_size, u128s(m.stream_size(ms)).c_str());
				if ((u128)it.stream.uncompressed_size != m.stream_uncomp(ms)) return "stream.uncompressed_size";
				if (it.stream.padding != ms.padding) return fmt("stream.padding %llu, model %llu", (unsigned long long)it.stream.padding, (unsigned long long)ms.padding);
				if ((it.stream.flags != nullptr) != ms.has_flags) return "stream.flags presence";
				if (ms.has_flags && (int)it.stream.flags->check != ms.check) return "stream.flags->check";
				return "";
			};
			bool stream_visit = mode == LZMA_INDEX_ITER_STREAM || (mode == LZMA_INDEX_ITER_ANY && ms.recs.empty());
			if (stream_visit) {
				if (lzma_index_iter_next(&it, (lzma_index_iter_mode)mode)) return fmt("iteration mode %d ended before stream %zu", mode, s + 1);
				std::string e = check_stream();
				if (!e.empty()) return fmt("iteration mode %d: ", mode) + e;
			}
			u128 bc = 12, bu = 0;   // offsets inside the stream
			for (size_t b = 0; b < ms.recs.size(); ++b) {
				++bnum;
				bool visit = mode == LZMA_INDEX_ITER_ANY || mode == LZMA_INDEX_ITER_BLOCK || (mode == LZMA_INDEX_ITER_NONEMPTY_BLOCK && ms.recs[b].second != 0);
				if (visit) {
					if (lzma_index_iter_next(&it, (lzma_index_iter_mode)mode)) return fmt("iteration mode %d ended before block %llu", mode, (unsigned long long)bnum);
					std::string e = check_stream();
					if (!e.empty()) return fmt("iteration mode %d (at block %llu): ", mode, (unsigned long long)bnum) + e;
					if (it.block.number_in_file != bnum) return fmt("mode %d block.number_in_file %llu, model %llu", mode, (unsigned long long)it.block.number_in_file, (unsigned long long)bnum);
					if (it.block.number_in_stream != b + 1) return "block.number_in_stream";
					if ((u128)it.block.compressed_file_offset != s_coff + bc) return fmt("block.compressed_file_offset %llu, model %s", (unsigned long long)it.block.compressed_file_offset, u128s(s_coff + bc).c_str());
					if ((u128)it.block.uncompressed_file_offset != s_uoff + bu) return "block.uncompressed_file_offset";
					if ((u128)it.block.compressed_stream_offset != bc) return "block.compressed_stream_offset";
					if ((u128)it.block.uncompressed_stream_offset != bu) return "block.uncompressed_stream_offset";
					if (it.block.unpadded_size != ms.recs[b].first) return "block.unpadded_size";
					if (it.block.uncompressed_size != ms.recs[b].second) return "block.uncompressed_size";
					if (it.block.total_size != ceil4(ms.recs[b].first)) return "block.total_size";
				}
				bc += ceil4(ms.recs[b].first);
				bu += ms.recs[b].second;
			}
			coff += m.stream_size(ms) + ms.padding;
			uoff += m.stream_uncomp(ms);
		}
		if (!lzma_index_iter_next(&it, (lzma_index_iter_mode)mode)) return fmt("iteration mode %d returned an extra item", mode);
	}
	// locate
	u128 total = m.uncompressed();
	for (int k = 0; k < 6; ++k) {
		uint64_t target;
		if (total == 0) target = rng.below(3);
		else {
			uint64_t t64 = total > VLI_MAX ? VLI_MAX : (uint64_t)total;
			switch (rng.below(4)) {
			case 0: target = rng.below(t64 + 2); break;
			case 1: target = t64 - 1; break;
			case 2: target = t64; break;
			default: {
				// a block boundary
				u128 acc = 0; uint64_t pick = rng.below(m.blocks() + 1), n = 0;
				for (auto &s : m.streams) for (auto &r : s.recs) { if (n++ < pick) acc += r.second; }
				target = acc > VLI_MAX ? VLI_MAX : (uint64_t)acc;
				if (rng.chance(300) && target > 0) --target;
				break;
			}
			}
		}
		lzma_index_iter it;
		lzma_index_iter_init(&it, i);
		bool notfound = lzma_index_iter_locate(&it, target);
		// model: the unique non-empty block with start <= target < start + size
		u128 acc = 0; bool found = false; uint64_t bn = 0, want_bn = 0; u128 want_off = 0; uint64_t want_size = 0;
		for (auto &s : m.streams) for (auto &r : s.recs) { ++bn; if (!found && r.second != 0 && (u128)target >= acc && (u128)target < acc + r.second) { found = true; want_bn = bn; want_off = acc; want_size = r.second; } acc += r.second; }
		if (notfound == found) return fmt("locate(%llu) returned %s, model says %s (total %s)", (unsigned long long)target, notfound ? "not found" : "found", found ? "found" : "not found", u128s(total).c_str());
		if (found) {
			if (it.block.number_in_file != want_bn || (u128)it.block.uncompressed_file_offset != want_off || it.block.uncompressed_size != want_size)
				return fmt("locate(%llu) gave block %llu at %llu size %llu, model block %llu at %s size %llu", (unsigned long long)target, (unsigned long long)it.block.number_in_file,
					(unsigned long long)it.block.uncompressed_file_offset, (unsigned long long)it.block.uncompressed_size, (unsigned long long)want_bn, u128s(want_off).c_str(), (unsigned long long)want_size);
			if (located) ++*located;
		}
	}
	return "";
}

static uint64_t gen_size(Rng &rng, bool unpadded)
{
	switch (rng.below(12)) {
	case 0: return unpadded ? 5 : 0;
	case 1: return unpadded ? 6 + rng.below(3) : 1;
	case 2: return 127 + rng.below(3);
	case 3: return 16383 + rng.below(3);
	case 4: return (1ull << 21) - 1 + rng.below(3);
	case 5: return (1ull << (7 * (2 + rng.below(7)))) - 1 + rng.below(3);
	case 6: return rng.chance(500) ? VLI_MAX / 2 : VLI_MAX / 4 + rng.below(1000);      // limit territory
	case 7: return rng.chance(300) ? VLI_MAX - rng.below(8) : (1ull << 40) + rng.below(1000);
	default: return 20 + rng.below(100000);
	}
}

static void c13_gen(Rng &rng, Plan &plan, bool thorough)
{
	gen_sched_params(rng, plan, thorough);
	int n = 5 + (int)rng.below(thorough ? 60 : 35);
	bool many = rng.chance(150);     // long runs of small records: group and tree boundaries
	for (int k = 0; k < n; ++k) {
		int r = (int)rng.below(20);
		int h = (int)rng.below(3);
		if (k == 0 && rng.chance(150)) r = 16;   // decode an empty Index, then go on with the decoded object
		if (r < 8) {
			Op op("append");
			op.set("h", h);
			if (many) { op.set("count", 100 + (int64_t)rng.below(700)); op.set("u", (int64_t)(20 + rng.below(1000))); op.set("s", (int64_t)rng.below(5000)); }
			else { op.set("count", 1 + (int64_t)rng.below(4)); op.set("u", (int64_t)gen_size(rng, true)); op.set("s", (int64_t)gen_size(rng, false)); }
			plan.ops.push_back(op);
		} else if (r < 10) { Op op("flags"); op.set("h", h).set("check", (int64_t)(rng.chance(850) ? rng.pick(std::vector<int>{ 0, 1, 4, 10 }) : (int)rng.below(20))); plan.ops.push_back(op); }
		else if (r < 12) { Op op("padding"); op.set("h", h).set("n", (int64_t)(rng.chance(800) ? 4 * rng.below(40) : (rng.chance(500) ? rng.below(1000) : VLI_MAX - rng.below(16)))); plan.ops.push_back(op); }
		else if (r < 15) { Op op("cat"); op.set("dest", h).set("src", (h + 1 + (int)rng.below(2)) % 3).set("iter_steps", rng.chance(500) ? (int64_t)rng.below(30) : -1); plan.ops.push_back(op); }
		else if (r < 16) { Op op("dup"); op.set("src", h).set("dest", (h + 1) % 3); plan.ops.push_back(op); }
		else if (r < 17) { Op op("encdec"); op.set("h", h).set("replace", rng.chance(500) ? 1 : 0); plan.ops.push_back(op); }
		else { Op op("check"); op.set("h", h).set("seed", (int64_t)rng.below(1 << 30)); plan.ops.push_back(op); }
	}
	for (int h = 0; h < 3; ++h) { Op op("check"); op.set("h", h).set("seed", (int64_t)rng.below(1 << 30)); plan.ops.push_back(op); }
}

static void c13_exec(const Plan &plan, Verdict &v)
{
	SimAlloc als[3];
	Handle H[3];
	auto ensure = [&](int h) { if (!H[h].live) { H[h].i = lzma_index_init(&als[h].a); H[h].m = IndexModel(); H[h].live = H[h].i != nullptr; } return H[h].live; };
	v.count("runs.total");
	uint64_t located = 0;
	std::string ctx;
	auto full_check = [&](int h, uint64_t seed, const char *when) -> bool {
		Rng r(seed);
		std::string e = compare(H[h].i, H[h].m, r, nullptr, &located);
		if (!e.empty()) { v.fail("model-mismatch", "C13/model-mismatch", std::string(when) + ": index differs from the list-of-records model: " + e + fmt(" [%zu streams, %llu blocks]", H[h].m.streams.size(), (unsigned long long)H[h].m.blocks())); return false; }
		return true;
	};
	for (size_t oi = 0; oi < plan.ops.size() && v.ok; ++oi) {
		const Op &op = plan.ops[oi];
		if (op.name == "append") {
			int h = (int)op.get("h") % 3; if (!ensure(h)) continue;
			int count = (int)op.get("count", 1);
			for (int k = 0; k < count && v.ok; ++k) {
				uint64_t u = (uint64_t)op.get("u") + (uint64_t)k * 4 % 97, s = (uint64_t)op.get("s") + (uint64_t)k % 11;
				IndexModel before = H[h].m;
				lzma_ret r = lzma_index_append(H[h].i, &als[h].a, u, s);
				// model verdict
				IndexModel after = H[h].m;
				after.streams.back().recs.push_back({ u, s });
				bool args_bad = u < 5 || u > (VLI_MAX & ~(uint64_t)3) || s > VLI_MAX;
				bool over = after.file_size() > VLI_MAX || after.uncompressed() > VLI_MAX || after.combined_index_size() > (1ull << 34) || IndexModel::index_size_of(after.streams.back().recs.size(), after.list_size(after.streams.back())) > (1ull << 34);
				bool near = after.file_size() > VLI_MAX / 2 || after.uncompressed() > VLI_MAX / 2;
				if (r == LZMA_OK) {
					if (args_bad || over) { v.fail("limit-not-enforced", "C13/limit-not-enforced", fmt("lzma_index_append(%llu, %llu) succeeded although it exceeds the format limits (file size %s, uncompressed %s)", (unsigned long long)u, (unsigned long long)s, u128s(after.file_size()).c_str(), u128s(after.uncompressed()).c_str())); break; }
					H[h].m = after;
					v.count("ops.append_ok");
				} else {
					if (!args_bad && !over && !near) { v.fail("append-refused", "C13/append-refused", fmt("lzma_index_append(%llu, %llu) returned %s far from any limit", (unsigned long long)u, (unsigned long long)s, ret_name(r))); break; }
					v.count("ops.append_refused");
					if (!full_check(h, oi, "after a refused append")) break;
				}
			}
		} else if (op.name == "flags") {
			int h = (int)op.get("h") % 3; if (!ensure(h)) continue;
			lzma_stream_flags sf; memset(&sf, 0, sizeof sf);
			sf.version = 0; sf.check = (lzma_check)op.get("check"); sf.backward_size = LZMA_BACKWARD_SIZE_MIN;
			lzma_ret r = lzma_index_stream_flags(H[h].i, &sf);
			bool valid = op.get("check") >= 0 && op.get("check") <= 15;
			if (r == LZMA_OK) {
				if (!valid) { v.fail("flags-accepted", "C13/flags-accepted", "invalid stream flags accepted"); break; }
				H[h].m.streams.back().has_flags = true; H[h].m.streams.back().check = (int)op.get("check");
			} else if (valid) { v.fail("flags-refused", "C13/flags-refused", fmt("valid stream flags refused: %s", ret_name(r))); break; }
		} else if (op.name == "padding") {
			int h = (int)op.get("h") % 3; if (!ensure(h)) continue;
			uint64_t n = (uint64_t)op.get("n");
			lzma_ret r = lzma_index_stream_padding(H[h].i, n);
			IndexModel after = H[h].m; after.streams.back().padding = n;
			bool bad = (n & 3) != 0 || n > VLI_MAX;
			bool over = after.file_size() > VLI_MAX;
			if (r == LZMA_OK) {
				if (bad || over) { v.fail("limit-not-enforced", "C13/limit-not-enforced", fmt("lzma_index_stream_padding(%llu) accepted", (unsigned long long)n)); break; }
				H[h].m = after;
			} else {
				if (!bad && !over) { v.fail("padding-refused", "C13/padding-refused", fmt("valid stream padding %llu refused: %s", (unsigned long long)n, ret_name(r))); break; }
				if (!full_check(h, oi, "after a refused padding")) break;
			}
		} else if (op.name == "cat") {
			int d = (int)op.get("dest") % 3, s = (int)op.get("src") % 3;
			if (d == s || !ensure(d) || !ensure(s)) continue;
			// allocators must match for cat: rebuild src under dest's allocator if needed
			// (both handles use their own SimAlloc; lzma_index_cat only allocates
			// from the allocator passed, and frees src's pieces with it too, so use
			// one allocator for both operands)
			if (&als[d] != &als[s]) {
				// duplicate src into dest's allocator, end the original
				lzma_index *copy = lzma_index_dup(H[s].i, &als[d].a);
				if (!copy) continue;
				lzma_index_end(H[s].i, &als[s].a);
				H[s].i = copy;
				// known finding KF-C13-1 (fixed): dup must keep the checks; verified by the check op
			}
			lzma_index_iter it;
			int64_t steps = op.get("iter_steps", -1);
			uint64_t seen_blocks = 0;
			if (steps >= 0) {
				lzma_index_iter_init(&it, H[d].i);
				for (int64_t k = 0; k < steps; ++k) { if (lzma_index_iter_next(&it, LZMA_INDEX_ITER_BLOCK)) break; ++seen_blocks; }
			}
			IndexModel after = H[d].m;
			for (auto &st : H[s].m.streams) after.streams.push_back(st);
			bool over = after.file_size() > VLI_MAX || after.uncompressed() > VLI_MAX;
			bool near = after.file_size() > VLI_MAX / 2 || after.uncompressed() > VLI_MAX / 2;
			IndexModel src_before = H[s].m;
			lzma_ret r = lzma_index_cat(H[d].i, H[s].i, &als[d].a);
			if (r == LZMA_OK) {
				if (over) { v.fail("limit-not-enforced", "C13/limit-not-enforced", "lzma_index_cat exceeded the format limits"); break; }
				H[d].m = after;
				H[s].i = nullptr; H[s].live = false; H[s].m = IndexModel();
				v.count("ops.cat_ok");
				if (steps >= 0) {
					// the iterator created before the cat keeps working and sees the rest
					uint64_t rest = 0;
					uint64_t last = seen_blocks ? it.block.number_in_file : 0;
					bool ordered = true;
					while (!lzma_index_iter_next(&it, LZMA_INDEX_ITER_BLOCK)) { ++rest; if (it.block.number_in_file != last + 1) ordered = false; last = it.block.number_in_file; }
					if (seen_blocks + rest != H[d].m.blocks() || !ordered) { v.fail("iterator-after-cat", "C13/iterator-after-cat", fmt("an iterator kept across lzma_index_cat visited %llu + %llu of %llu blocks (in order: %d)", (unsigned long long)seen_blocks, (unsigned long long)rest, (unsigned long long)H[d].m.blocks(), (int)ordered)); break; }
					v.count("reach.iterator_across_cat");
				}
			} else {
				if (!over && !near) { v.fail("cat-refused", "C13/cat-refused", fmt("lzma_index_cat returned %s far from any limit", ret_name(r))); break; }
				// the source now lives in dest's allocator: account for it there
				v.count("ops.cat_refused");
				Rng r1(oi);
				std::string e = compare(H[d].i, H[d].m, r1, nullptr, nullptr);
				if (e.empty()) e = compare(H[s].i, src_before, r1, nullptr, nullptr);
				if (!e.empty()) { v.fail("caller-object-changed", "C13/caller-object-changed", "a refused lzma_index_cat changed an operand: " + e); break; }
				// move src back to a state where its allocator is d's
				lzma_index_end(H[s].i, &als[d].a); H[s].i = nullptr; H[s].live = false; H[s].m = IndexModel();
			}
		} else if (op.name == "dup") {
			int s = (int)op.get("src") % 3, d = (int)op.get("dest") % 3;
			if (d == s || !ensure(s)) continue;
			if (H[d].live) { lzma_index_end(H[d].i, &als[d].a); H[d].live = false; H[d].i = nullptr; }
			H[d].i = lzma_index_dup(H[s].i, &als[d].a);
			if (!H[d].i) { v.fail("dup-null", "C13/dup-null", "lzma_index_dup returned NULL"); break; }
			H[d].live = true; H[d].m = H[s].m;
			v.count("ops.dup");
			if (!full_check(d, oi, "right after lzma_index_dup")) break;
		} else if (op.name == "encdec") {
			int h = (int)op.get("h") % 3; if (!ensure(h)) continue;
			uint64_t sz = lzma_index_size(H[h].i);
			if (sz > (32u << 20)) continue;
			Bytes buf((size_t)sz);
			size_t pos = 0;
			lzma_ret r = lzma_index_buffer_encode(H[h].i, buf.data(), &pos, buf.size());
			if (r != LZMA_OK || pos != sz) { v.fail("encode", "C13/encode", fmt("lzma_index_buffer_encode returned %s, wrote %zu of %llu bytes", ret_name(r), pos, (unsigned long long)sz)); break; }
			// independent parse of the encoded Index per the format specification
			{
				size_t p = 0; bool ok = buf[p++] == 0x00;
				auto vli = [&](uint64_t &out) -> bool { out = 0; for (unsigned sh = 0; sh < 63 && p < buf.size(); sh += 7) { uint8_t b = buf[p++]; out |= (uint64_t)(b & 0x7f) << sh; if (!(b & 0x80)) return !(b == 0 && sh != 0); } return false; };
				uint64_t n = 0; ok = ok && vli(n) && n == H[h].m.blocks();
				for (auto &st : H[h].m.streams) for (auto &rec : st.recs) { uint64_t a, b; if (!ok) break; ok = vli(a) && vli(b) && a == rec.first && b == rec.second; }
				while (ok && (p & 3)) ok = buf[p++] == 0;
				if (ok) { uint32_t crc = lzma_crc32(buf.data(), p, 0); uint32_t st = (uint32_t)buf[p] | (uint32_t)buf[p + 1] << 8 | (uint32_t)buf[p + 2] << 16 | (uint32_t)buf[p + 3] << 24; ok = crc == st && p + 4 == buf.size(); }
				if (!ok) { v.fail("encoded-index", "C13/encoded-index", "the encoded Index does not parse back to the records per the format specification"); break; }
			}
			lzma_index *d = nullptr; uint64_t ml = UINT64_MAX; size_t ip = 0;
			SimAlloc tmp;
			r = lzma_index_buffer_decode(&d, &ml, &tmp.a, buf.data(), &ip, buf.size());
			if (r != LZMA_OK) { v.fail("decode", "C13/decode", fmt("decoding the encoded Index returned %s", ret_name(r))); break; }
			IndexModel one; one.streams[0].recs.clear();
			for (auto &st : H[h].m.streams) for (auto &rec : st.recs) one.streams[0].recs.push_back(rec);
			Rng r2(oi);
			std::string e = compare(d, one, r2, &tmp, nullptr);
			lzma_index_end(d, &tmp.a);
			if (!e.empty()) { v.fail("model-mismatch", "C13/model-mismatch", "decoded Index: " + e); break; }
			if (tmp.cur != 0) { v.fail("leak", "C13/leak", "decoded index leaked"); tmp.purge(); break; }
			v.count("ops.encdec");
			if (op.get("replace", 0)) {
				// the history continues on the decoded object (one Stream holding all Records)
				d = nullptr; ml = UINT64_MAX; ip = 0;
				r = lzma_index_buffer_decode(&d, &ml, &als[h].a, buf.data(), &ip, buf.size());
				if (r != LZMA_OK || d == nullptr) { v.fail("decode", "C13/decode", fmt("decoding the encoded Index again returned %s", ret_name(r))); break; }
				lzma_index_end(H[h].i, &als[h].a);
				H[h].i = d; H[h].m = one;
				v.count(one.blocks() == 0 ? "reach.history_continues_on_decoded_empty_index" : "reach.history_continues_on_decoded_index");
			}
		} else if (op.name == "check") {
			int h = (int)op.get("h") % 3; if (!H[h].live) continue;
			if (!full_check(h, (uint64_t)op.get("seed"), "check")) break;
			v.count("ops.check");
		}
	}
	uint64_t total_blocks = 0;
	for (int h = 0; h < 3; ++h) { total_blocks += H[h].m.blocks(); if (H[h].live) lzma_index_end(H[h].i, &als[h].a); }
	// cat moves allocations between handles that used different allocators
	// only through the dup above, so each allocator must balance
	uint64_t left = als[0].cur + als[1].cur + als[2].cur;
	if (v.ok && left != 0) { v.fail("leak", "C13/leak", fmt("%llu bytes still allocated after lzma_index_end", (unsigned long long)left)); for (auto &a : als) a.purge(); }
	if (!v.ok) { for (auto &a : als) a.purge(); return; }
	v.count("oracle.located", located);
	v.feature(fnv_str(plan.to_text(false)));
	v.feature2(mix64(total_blocks > 512, mix64(total_blocks > 0, v.counters.count("ops.cat_ok") ? 1 : 0)));
}

REGISTER_SCENARIO(c13_index, "C13", "index_histories", 60, 60, c13_gen, c13_exec, false);

// ------------------------------------------------------------ file-info
static void fi_gen(Rng &rng, Plan &plan, bool thorough)
{
	gen_sched_params(rng, plan, thorough);
	gen_chain_params(rng, plan, true, true);
	gen_artefact_params(rng, plan, thorough, thorough ? 80000 : 25000);
	// many tiny Blocks are wanted here, so keep the encoder cheap to set up
	plan.setp("ch_preset", 0); plan.setp("ch_dict", 4096); plan.setp("ch_mf", LZMA_MF_HC3); plan.setp("ch_mode", LZMA_MODE_FAST); plan.setp("ch_nice", 32); plan.setp("ch_depth", 4);
	plan.setp("art_streams", rng.range(1, 4));
	for (int i = 0; i < 4; ++i) {
		std::string p = fmt("art%d_", i);
		plan.setp(p + "kind", 0);
		plan.setp(p + "class", rng.chance(500) ? IN_RANDOM : 2 + (int64_t)rng.below(7));   // incompressible => files big enough to need seeks
		plan.setp(p + "len", (int64_t)rng.size_skewed(thorough ? 60000 : 30000));
		static const int64_t bs[] = { 0, 1, 50, 700, 4096 };
		plan.setp(p + "block", bs[rng.below(5)]);
		plan.setp(p + "empty_blocks", rng.chance(300) ? 1 : 0);
		static const int checks[] = { LZMA_CHECK_NONE, LZMA_CHECK_CRC32, LZMA_CHECK_CRC64, LZMA_CHECK_SHA256 };
		plan.setp(p + "check", checks[rng.below(4)]);
		// Stream Padding: small, around the file-info decoder's 8 KiB window, and several windows long
		static const int64_t pads[] = { 8188, 8192, 8196, 12000, 16384, 20000 };
		plan.setp(p + "pad", rng.chance(600) ? (int64_t)(4 * rng.below(9)) : rng.chance(500) ? pads[rng.below(6)] : (int64_t)(4 * rng.below(7000)));
	}
	plan.setp("read_style", (int64_t)rng.below(4));
	plan.setp("read_seed", (int64_t)(rng.next() >> 2));
	plan.setp("memlimit", rng.chance(200) ? 1 : -1);
	plan.setp("decode_blocks", (int64_t)rng.below(6));
	if (rng.chance(350)) {
		plan.setp("synth_file", 1);
		int ns = (int)rng.range(2, 5);
		plan.setp("synth_streams", ns);
		for (int k = 0; k < ns; ++k) {
			int64_t size = rng.chance(600) ? 8192 * (int64_t)rng.range(1, 3) + 4 * ((int64_t)rng.below(24) - 8) : 100 + 4 * (int64_t)rng.below(6000);
			plan.setp(fmt("synth_size%d", k), size);
			plan.setp(fmt("synth_recs%d", k), rng.range(1, 12));
			plan.setp(fmt("synth_check%d", k), (int64_t)rng.below(4));
			plan.setp(fmt("synth_pad%d", k), rng.chance(600) ? 0 : 4 * (int64_t)rng.below(12));
		}
	}
}

static void fi_exec(const Plan &plan, Verdict &v)
{
	Bytes file, plain;
	XzInfo info;
	std::string err;
	IndexModel m; m.streams.clear();
	bool synth = plan.p("synth_file", 0) != 0;
	if (synth) {
		// Streams of exactly chosen sizes (the file-info decoder reads Stream Headers, Footers and
		// Indexes only; the Blocks are filler): Stream boundaries at every small offset from the
		// 8 KiB windows the decoder reads backwards from the end of the file
		int ns = (int)plan.p("synth_streams", 2);
		Rng r((uint64_t)plan.p("read_seed") ^ 0x1234);
		for (int k = 0; k < ns; ++k) {
			uint64_t target = (uint64_t)plan.p(fmt("synth_size%d", k), 1000) & ~3ull;
			int nrec = (int)plan.p(fmt("synth_recs%d", k), 2);
			static const int checks[] = { LZMA_CHECK_NONE, LZMA_CHECK_CRC32, LZMA_CHECK_CRC64, LZMA_CHECK_SHA256 };
			int check = checks[plan.p(fmt("synth_check%d", k), 1) % 4];
			MStream ms; ms.has_flags = true; ms.check = check;
			lzma_index *i = lzma_index_init(nullptr);
			for (int q = 0; q + 1 < nrec; ++q) { uint64_t u = 8 + 4 * r.below(100), un = r.below(100000); ms.recs.push_back({ u, un }); lzma_index_append(i, nullptr, u, un); }
			// the last Record takes what is left
			uint64_t last = 8, un_last = r.below(1000000);
			for (int it = 0; it < 6; ++it) {
				lzma_index *d = lzma_index_dup(i, nullptr);
				lzma_index_append(d, nullptr, last, un_last);
				uint64_t size = 2 * LZMA_STREAM_HEADER_SIZE + lzma_index_total_size(d) + lzma_index_size(d);
				lzma_index_end(d, nullptr);
				if (size == target) break;
				int64_t nl = (int64_t)last + (int64_t)target - (int64_t)size;
				last = nl < 8 ? 8 : (uint64_t)nl;
			}
			ms.recs.push_back({ last, un_last });
			lzma_index_append(i, nullptr, last, un_last);
			lzma_stream_flags sf; memset(&sf, 0, sizeof sf); sf.version = 0; sf.check = (lzma_check)check; sf.backward_size = lzma_index_size(i);
			uint8_t hdr[LZMA_STREAM_HEADER_SIZE];
			lzma_stream_header_encode(&sf, hdr);
			file.insert(file.end(), hdr, hdr + sizeof hdr);
			file.insert(file.end(), (size_t)lzma_index_total_size(i), 0xA7);
			size_t at = file.size(), pos = 0;
			file.resize(at + (size_t)lzma_index_size(i));
			lzma_index_buffer_encode(i, file.data() + at, &pos, (size_t)lzma_index_size(i));
			lzma_stream_footer_encode(&sf, hdr);
			file.insert(file.end(), hdr, hdr + sizeof hdr);
			lzma_index_end(i, nullptr);
			ms.padding = (uint64_t)plan.p(fmt("synth_pad%d", k), 0) & ~3ull;
			file.insert(file.end(), (size_t)ms.padding, 0);
			m.streams.push_back(ms);
		}
		v.count("reach.file_info_streams_of_chosen_sizes");
	} else if (!build_artefact(plan, file, plain, info, err)) { v.fail("harness", "harness/artefact", err); return; }
	v.count("runs.total");
	// the model: what the file really contains, from the writer's field map
	if (!synth) {
		MStream cur; bool open = false;
		uint64_t hdr = 0, payload = 0;
		int stream_no = -1;
		for (auto &f : info.fields) {
			if (f.field == "stream_header") { cur = MStream(); open = true; ++stream_no; cur.has_flags = true; cur.check = (int)plan.p(fmt("art%d_check", stream_no), LZMA_CHECK_CRC32); }
			else if (f.field == "block_header") { hdr = f.len; payload = 0; }
			else if (f.field == "payload") payload = f.len;
			else if (f.field == "stream_footer") { m.streams.push_back(cur); open = false; }
			else if (f.field == "stream_padding") m.streams.back().padding = f.len;
			if (f.field == "payload") {
				// the record is completed when the check (if any) is known
				uint64_t chk = lzma_check_size((lzma_check)cur.check);
				cur.recs.push_back({ hdr + payload + chk, 0 });
			}
		}
		(void)open;
		size_t bi = 0;
		for (auto &s : m.streams) for (auto &r : s.recs) r.second = info.block_plain_sizes[bi++];
	}
	SimAlloc al;
	lzma_stream s = LZMA_STREAM_INIT;
	s.allocator = &al.a;
	lzma_index *idx = nullptr;
	uint64_t memlimit = plan.p("memlimit", -1) < 0 ? UINT64_MAX : 1;
	lzma_ret r = lzma_file_info_decoder(&s, &idx, memlimit, file.size());
	if (r != LZMA_OK) { v.fail("init", "C13/init", fmt("lzma_file_info_decoder returned %s", ret_name(r))); return; }
	Rng rng((uint64_t)plan.p("read_seed"));
	int style = (int)plan.p("read_style");
	size_t pos = 0;
	uint64_t seeks = 0, reads = 0, guard = 0;
	for (;;) {
		size_t n;
		switch (style) {
		case 0: n = 1; break;
		case 1: n = 1 + (size_t)rng.below(64); break;
		case 2: n = 1 + (size_t)rng.size_skewed(5000); break;
		default: n = file.size(); break;
		}
		if (n > file.size() - pos) n = file.size() - pos;
		uint8_t *ib = (uint8_t *)malloc(n ? n : 1);
		if (n) memcpy(ib, file.data() + pos, n);
		s.next_in = ib; s.avail_in = n;
		// the read position reaching the end of the file is all the decoder is told (no LZMA_FINISH needed)
		r = lzma_code(&s, LZMA_RUN);
		pos += n - s.avail_in;
		free(ib);
		++reads;
		if (r == LZMA_SEEK_NEEDED) {
			++seeks;
			if (s.seek_pos > file.size()) { v.fail("seek-beyond-file", "C13/seek-beyond-file", fmt("seek to %llu requested, file size %zu", (unsigned long long)s.seek_pos, file.size())); break; }
			pos = (size_t)s.seek_pos;
			continue;
		}
		if (r == LZMA_MEMLIMIT_ERROR) { v.count("reach.memlimit_error"); uint64_t need = lzma_memusage(&s); if (lzma_memlimit_set(&s, need) != LZMA_OK) { v.fail("memlimit-set", "C13/memlimit-set", "cannot raise the limit to lzma_memusage()"); break; } continue; }
		if (r != LZMA_OK) break;
		if (++guard > 2000000) { v.fail("liveness-calls", "C13/liveness-calls", "file-info decoder does not terminate"); break; }
	}
	lzma_end(&s);
	v.count("sim.seeks", seeks);
	v.count("sim.reads", reads);
	if (v.ok && r != LZMA_STREAM_END) v.fail("status", "C13/status", fmt("file-info decoder ended with %s on a valid file of %zu bytes, %zu streams", ret_name(r), file.size(), m.streams.size()));
	if (v.ok && !idx) v.fail("status", "C13/status", "no index returned");
	if (v.ok) {
		Rng r2(7);
		uint64_t located = 0;
		std::string e = compare(idx, m, r2, nullptr, &located);
		if (!e.empty()) v.fail("file-info-mismatch", "C13/file-info-mismatch", "index from the file-info decoder differs from the file's real structure: " + e + fmt(" [%zu streams, %llu blocks, read style %d, %llu seeks]", m.streams.size(), (unsigned long long)m.blocks(), style, (unsigned long long)seeks));
		if (v.ok && (u128)file.size() != m.file_size()) v.fail("harness", "harness/model", "model file size differs from the real file");
	}
	// random access: decoding a Block at the offsets the index gives yields
	// exactly the bytes of that range
	if (v.ok) {
		int nb = synth ? 0 : (int)plan.p("decode_blocks", 2);
		Rng r3((uint64_t)plan.p("read_seed") ^ 0x55);
		for (int k = 0; k < nb && v.ok && lzma_index_uncompressed_size(idx) > 0; ++k) {
			uint64_t target = r3.below(lzma_index_uncompressed_size(idx));
			lzma_index_iter it;
			lzma_index_iter_init(&it, idx);
			if (lzma_index_iter_locate(&it, target)) { v.fail("locate", "C13/locate", "locate failed inside the file"); break; }
			size_t off = (size_t)it.block.compressed_file_offset;
			lzma_filter bf[LZMA_FILTERS_MAX + 1];
			lzma_block blk; memset(&blk, 0, sizeof blk);
			blk.version = 1; blk.check = it.stream.flags->check; blk.filters = bf;
			if (off >= file.size() || file[off] == 0) { v.fail("random-access", "C13/random-access", "offset from the index does not point at a Block Header"); break; }
			blk.header_size = lzma_block_header_size_decode(file[off]);
			if (lzma_block_header_decode(&blk, nullptr, file.data() + off) != LZMA_OK) { v.fail("random-access", "C13/random-access", "Block Header at the index's offset does not decode"); break; }
			if (lzma_block_compressed_size(&blk, it.block.unpadded_size) != LZMA_OK) { v.fail("random-access", "C13/random-access", "unpadded size from the index does not fit the Block Header"); lzma_filters_free(bf, nullptr); break; }
			Bytes out((size_t)it.block.uncompressed_size);
			size_t ip = off + blk.header_size, op = 0;
			lzma_ret br = lzma_block_buffer_decode(&blk, nullptr, file.data(), &ip, off + (size_t)it.block.total_size, out.data(), &op, out.size());
			lzma_filters_free(bf, nullptr);
			size_t uo = (size_t)it.block.uncompressed_file_offset;
			if (br != LZMA_OK || op != out.size() || memcmp(out.data(), plain.data() + uo, op) != 0) { v.fail("random-access", "C13/random-access", fmt("decoding the Block located for offset %llu gives %s and %zu bytes that are not plaintext[%zu..)", (unsigned long long)target, ret_name(br), op, uo)); break; }
			v.count("oracle.blocks_decoded_by_offset");
		}
	}
	lzma_index_end(idx, &al.a);
	if (v.ok && al.cur != 0) { v.fail("leak", "C13/leak", fmt("%llu bytes leaked by the file-info decoder", (unsigned long long)al.cur)); al.purge(); }
	if (!v.ok) { al.purge(); return; }
	v.feature(mix64(fnv_str(plan.to_text(false)), seeks));
	v.feature2(mix64(m.streams.size(), mix64(style, m.blocks() > 0)));
}

REGISTER_SCENARIO(c13_fileinfo, "C13", "file_info", 40, 40, fi_gen, fi_exec, false);

} // namespace
