// C10 — allocation failure at any point is reported cleanly and nothing leaks.
// The resource under simulation is the lzma_allocator. For every API flow the
// k-th allocation is made to fail (swept over k), or every allocation from the
// k-th on fails with probability p, or one handle is reused for a history of
// different coders without lzma_end in between while allocations fail.
#include "core.hpp"
#include "session.hpp"
#include "xzutil.hpp"

#include <functional>

namespace {

static void al_free(void *p, const lzma_allocator *al) { if (p) al->free(al->opaque, p); }

struct FlowData {
	Bytes input;          // what is fed to lzma_code
	Bytes aux;
	Chain chain;
	lzma_mt mt;
	lzma_options_lzma lz;
	lzma_block block;
	lzma_filter bfilters[LZMA_FILTERS_MAX + 1];
	lzma_index *dest_index = nullptr;
	uint64_t file_size = 0;
	size_t in_chunk = 4096, out_chunk = 4096;
	std::vector<size_t> full_flush_at;
	bool threaded = false;
	bool uses_seek = false;
	bool abandon = false;   // the client walks away before the end: never LZMA_FINISH
	std::function<lzma_ret(lzma_stream *)> init;
	std::function<void(const lzma_allocator *)> cleanup;   // objects handed out by the coder (e.g. lzma_index)
};

struct ACtx {
	SimAlloc al;
	Verdict *v = nullptr;
	std::string P = "C10";
	std::string flow;
	bool threaded = false;
	bool mem_error_seen = false;
	bool violated = false;

	// A failing pthread_create (thorough tier) is one more legitimate source of
	// LZMA_MEM_ERROR. Runs with it are judged on memory safety and allocator
	// balance only: which call reports what is not predictable from the
	// allocation count any more.
	bool lenient = false;

	void viol(const std::string &cls, const std::string &msg)
	{
		if (violated) return;
		if (lenient && cls != "leak" && cls != "alloc-misuse" && cls != "caller-object-changed" && cls != "out-param") { v->count("runs.lenient_judgement_skipped"); return; }
		violated = true;
		v->fail(cls, P + "/" + cls, msg + " [flow " + flow + fmt(", failing allocation #%u, %llu injected failures]", al.fail_nth, (unsigned long long)al.failures));
	}

	// Judge one API call that returns lzma_ret. before = al.failures sampled
	// before the call. Returns true when the flow has to stop (error).
	bool chk(lzma_ret r, uint64_t before, const char *what, bool may_options_error = false)
	{
		bool failed_now = al.failures > before;
		if (r == LZMA_MEM_ERROR) {
			mem_error_seen = true;
			if (al.failures == 0) viol("spurious-mem-error", std::string(what) + " returned LZMA_MEM_ERROR although no allocation failed");
			return true;
		}
		if (failed_now && !threaded) {
			viol("failure-not-reported", std::string(what) + " returned " + ret_name(r) + " although an allocation failed during the call");
			return true;
		}
		if (r == LZMA_OK || r == LZMA_STREAM_END) return false;
		if (may_options_error && r == LZMA_OPTIONS_ERROR) return true;
		if (r == LZMA_SEEK_NEEDED || r == LZMA_BUF_ERROR || r == LZMA_GET_CHECK || r == LZMA_NO_CHECK || r == LZMA_UNSUPPORTED_CHECK) return false;
		if (al.failures == 0 || threaded) {
			// with a pending worker failure other statuses are not expected either
			viol("unexpected-status", std::string(what) + " returned " + ret_name(r));
		} else {
			viol("wrong-error", std::string(what) + " returned " + ret_name(r) + " after an allocation failure");
		}
		return true;
	}
};

// ------------------------------------------------------------ artefacts
struct Artefacts {
	Bytes text, xz_multi, xz_single, lzma, lz, raw_x86, block_file, index_raw, microlzma;
	lzma_options_lzma lz_opt;
	bool ok = false;
	std::string err;
};

static void small_chain(Chain &c, int shape)
{
	Plan p;
	p.setp("ch_shape", shape);
	p.setp("ch_preset", 1);
	p.setp("ch_dict", 8192);
	p.setp("ch_delta_dist", 3);
	p.setp("ch_bcj", 0);
	chain_from_plan(p, c);
}

static Artefacts &arts()
{
	static Artefacts a;
	if (a.ok || !a.err.empty()) return a;
	a.text = gen_input(IN_MIXED, 30000, 4242);
	Chain c; small_chain(c, 1);
	std::vector<size_t> bs = { 7000, 0, 9000, 5000 };
	XzInfo info;
	if (!xz_build_sized(a.text, bs, c.f, LZMA_CHECK_CRC64, a.xz_multi, &info, a.err)) return a;
	// second Stream + padding
	Bytes second;
	if (!xz_build_unsized(a.text, { 10000, 10000 }, c.f, LZMA_CHECK_SHA256, second, a.err)) return a;
	a.xz_multi.insert(a.xz_multi.end(), 8, 0);
	a.xz_multi.insert(a.xz_multi.end(), second.begin(), second.end());
	if (!xz_build_sized(a.text, {}, c.f, LZMA_CHECK_CRC32, a.xz_single, nullptr, a.err)) return a;
	lzma_lzma_preset(&a.lz_opt, 1);
	a.lz_opt.dict_size = 8192;
	if (!lzma_build(a.text, &a.lz_opt, a.lzma, a.err)) return a;
	if (!lz_build_member(a.text, 1, 0x0D, a.lz, a.err)) return a;
	if (!lz_build_member(a.text, 0, 0x0C, a.lz, a.err)) return a;
	a.ok = true;
	return a;
}

// ----------------------------------------------------------- the flows
enum { F_EASY_ENC = 0, F_STREAM_ENC, F_STREAM_ENC_MT, F_ALONE_ENC, F_RAW_ENC_BCJ, F_STREAM_DEC, F_STREAM_DEC_MT,
	F_AUTO_XZ, F_AUTO_LZMA, F_AUTO_LZ, F_ALONE_DEC, F_LZIP_DEC, F_RAW_DEC, F_FILE_INFO, F_INDEX_DEC, F_INDEX_ENC,
	F_MICROLZMA_ENC, F_STREAM_FLOW_COUNT,
	// custom (non-stream) flows
	F_INDEX_OPS = F_STREAM_FLOW_COUNT, F_FILTERS, F_STRINGS, F_HEADERS, F_BUFFER_API, F_BLOCK_CODERS, F_UPDATE_ST, F_UPDATE_MT,
	F_INDEX_HASH, F_COUNT };

static const char *flow_names[] = { "easy_encoder", "stream_encoder", "stream_encoder_mt", "alone_encoder", "raw_encoder_x86_delta_lzma2",
	"stream_decoder", "stream_decoder_mt", "auto_decoder(xz)", "auto_decoder(lzma)", "auto_decoder(lz)", "alone_decoder", "lzip_decoder",
	"raw_decoder", "file_info_decoder", "index_decoder", "index_encoder", "microlzma_encoder",
	"index_ops", "filters_copy/free", "string_conversion", "block_header/filter_flags", "single-call buffer API", "block_encoder/decoder",
	"filters_update(stream_encoder)", "filters_update(stream_encoder_mt)", "index_hash" };

static bool make_flow(int id, FlowData &d, uint64_t variant)
{
	Artefacts &a = arts();
	if (!a.ok) return false;
	Rng r(variant);
	d.in_chunk = 1 + (size_t)r.below(9000);
	d.out_chunk = 1 + (size_t)r.below(9000);
	if (d.in_chunk < 64) d.in_chunk = 64;
	if (d.out_chunk < 64) d.out_chunk = 64;
	small_chain(d.chain, 1);
	memset(&d.mt, 0, sizeof d.mt);
	switch (id) {
	case F_EASY_ENC:
		d.input = a.text;
		d.init = [](lzma_stream *s) { return lzma_easy_encoder(s, 1, LZMA_CHECK_CRC64); };
		return true;
	case F_STREAM_ENC:
		d.input = a.text;
		d.full_flush_at = { 5000, 17000 };
		d.init = [&d](lzma_stream *s) { return lzma_stream_encoder(s, d.chain.f, LZMA_CHECK_SHA256); };
		return true;
	case F_STREAM_ENC_MT:
		d.input = a.text;
		d.threaded = true;
		d.mt.threads = 3; d.mt.block_size = 6000; d.mt.timeout = (uint32_t)r.below(2) * 20; d.mt.filters = d.chain.f; d.mt.check = LZMA_CHECK_CRC32;
		d.full_flush_at = { 9000 };
		d.init = [&d](lzma_stream *s) { return lzma_stream_encoder_mt(s, &d.mt); };
		return true;
	case F_ALONE_ENC:
		d.input = a.text;
		d.lz = a.lz_opt;
		d.init = [&d](lzma_stream *s) { return lzma_alone_encoder(s, &d.lz); };
		return true;
	case F_RAW_ENC_BCJ:
		d.input = a.text;
		small_chain(d.chain, 3);
		d.init = [&d](lzma_stream *s) { return lzma_raw_encoder(s, d.chain.f); };
		return true;
	case F_STREAM_DEC:
		d.input = a.xz_multi;
		d.init = [](lzma_stream *s) { return lzma_stream_decoder(s, UINT64_MAX, LZMA_CONCATENATED | LZMA_TELL_ANY_CHECK); };
		return true;
	case F_STREAM_DEC_MT:
		d.input = a.xz_multi;
		d.threaded = true;
		d.mt.threads = 3; d.mt.timeout = (uint32_t)r.below(2) * 20; d.mt.flags = LZMA_CONCATENATED;
		d.mt.memlimit_threading = UINT64_MAX; d.mt.memlimit_stop = UINT64_MAX;
		d.init = [&d](lzma_stream *s) { return lzma_stream_decoder_mt(s, &d.mt); };
		return true;
	case F_AUTO_XZ:
		d.input = a.xz_single;
		d.init = [](lzma_stream *s) { return lzma_auto_decoder(s, UINT64_MAX, 0); };
		return true;
	case F_AUTO_LZMA:
		d.input = a.lzma;
		d.init = [](lzma_stream *s) { return lzma_auto_decoder(s, UINT64_MAX, 0); };
		return true;
	case F_AUTO_LZ:
		d.input = a.lz;
		d.init = [](lzma_stream *s) { return lzma_auto_decoder(s, UINT64_MAX, LZMA_CONCATENATED); };
		return true;
	case F_ALONE_DEC:
		d.input = a.lzma;
		d.init = [](lzma_stream *s) { return lzma_alone_decoder(s, UINT64_MAX); };
		return true;
	case F_LZIP_DEC:
		d.input = a.lz;
		d.init = [](lzma_stream *s) { return lzma_lzip_decoder(s, UINT64_MAX, LZMA_CONCATENATED); };
		return true;
	case F_RAW_DEC: {
		// produce the raw stream with the raw encoder first (no faults here)
		small_chain(d.chain, 3);
		lzma_stream s = LZMA_STREAM_INIT;
		if (lzma_raw_encoder(&s, d.chain.f) != LZMA_OK) return false;
		Bytes buf(65536);
		s.next_in = a.text.data(); s.avail_in = a.text.size();
		for (;;) {
			s.next_out = buf.data(); s.avail_out = buf.size();
			lzma_ret rr = lzma_code(&s, LZMA_FINISH);
			d.input.insert(d.input.end(), buf.data(), buf.data() + (buf.size() - s.avail_out));
			if (rr == LZMA_STREAM_END) break;
			if (rr != LZMA_OK) { lzma_end(&s); return false; }
		}
		lzma_end(&s);
		d.init = [&d](lzma_stream *s2) { return lzma_raw_decoder(s2, d.chain.f); };
		return true;
	}
	case F_FILE_INFO:
		d.input = a.xz_multi;
		d.uses_seek = true;
		d.file_size = a.xz_multi.size();
		d.in_chunk = 16 + (size_t)r.below(3000);
		d.init = [&d](lzma_stream *s) { d.dest_index = nullptr; return lzma_file_info_decoder(s, &d.dest_index, UINT64_MAX, d.file_size); };
		d.cleanup = [&d](const lzma_allocator *al) { lzma_index_end(d.dest_index, al); d.dest_index = nullptr; };
		return true;
	case F_INDEX_DEC: {
		// a raw Index with many Records
		lzma_index *i = lzma_index_init(nullptr);
		for (int k = 0; k < 1200; ++k) lzma_index_append(i, nullptr, 20 + (lzma_vli)(k % 50) * 4, 1 + (lzma_vli)k);
		d.input.resize((size_t)lzma_index_size(i));
		size_t pos = 0;
		lzma_index_buffer_encode(i, d.input.data(), &pos, d.input.size());
		lzma_index_end(i, nullptr);
		d.in_chunk = 1 + (size_t)r.below(700);
		d.init = [&d](lzma_stream *s) { d.dest_index = nullptr; return lzma_index_decoder(s, &d.dest_index, UINT64_MAX); };
		d.cleanup = [&d](const lzma_allocator *al) { lzma_index_end(d.dest_index, al); d.dest_index = nullptr; };
		return true;
	}
	case F_INDEX_ENC: {
		d.dest_index = lzma_index_init(nullptr);
		for (int k = 0; k < 700; ++k) lzma_index_append(d.dest_index, nullptr, 20 + (lzma_vli)(k % 50) * 4, 1 + (lzma_vli)k);
		d.init = [&d](lzma_stream *s) { return lzma_index_encoder(s, d.dest_index); };
		// the index belongs to the harness (allocated without the simulated allocator)
		return true;
	}
	case F_MICROLZMA_ENC:
		d.input = a.text;
		d.lz = a.lz_opt;
		d.init = [&d](lzma_stream *s) { return lzma_microlzma_encoder(s, &d.lz); };
		// single-call style coder: everything offered with LZMA_FINISH, the
		// output space is the size limit
		d.in_chunk = d.input.size();
		d.out_chunk = 4000;
		return true;
	default: return false;
	}
}

struct FlowOut { Bytes out; lzma_ret status = LZMA_OK; bool completed = false; bool init_failed = false; };

// Run a stream flow on handle s (which may already host another coder).
static void run_stream_flow(ACtx &c, FlowData &d, lzma_stream *s, FlowOut &fo)
{
	uint64_t before = c.al.failures;
	uint64_t live_before = c.al.cur;
	bool fresh = s->internal == nullptr;
	lzma_ret r = d.init(s);
	if (c.chk(r, before, "init")) {
		fo.status = r; fo.init_failed = true;
		if (r == LZMA_MEM_ERROR && fresh && c.al.cur != live_before)
			c.viol("failed-init-leaves-memory", fmt("a failed initialisation left %llu bytes allocated", (unsigned long long)(c.al.cur - live_before)));
		if (r == LZMA_MEM_ERROR && !fresh && c.al.cur != 0)
			c.viol("failed-init-leaves-memory", fmt("a failed re-initialisation left %llu bytes allocated", (unsigned long long)c.al.cur));
		return;
	}
	size_t in_pos = 0;
	size_t flush_i = 0;
	Bytes obuf(d.out_chunk);
	uint64_t guard = 0;
	for (;;) {
		size_t limit = d.input.size();
		lzma_action act = LZMA_RUN;
		if (flush_i < d.full_flush_at.size() && d.full_flush_at[flush_i] < d.input.size()) limit = d.full_flush_at[flush_i];
		size_t n = std::min(d.in_chunk, limit - in_pos);
		if (in_pos + n >= limit) act = limit == d.input.size() ? LZMA_FINISH : LZMA_FULL_FLUSH;
		if (d.uses_seek) act = LZMA_RUN;   // the file-info decoder is not told where the read ends
		if (d.abandon) { act = LZMA_RUN; if (in_pos >= d.input.size()) { fo.status = LZMA_OK; return; } }
		if (act != LZMA_RUN) n = limit - in_pos;
		s->next_in = d.input.data() + in_pos;
		s->avail_in = n;
		s->next_out = obuf.data();
		s->avail_out = obuf.size();
		before = c.al.failures;
		r = lzma_code(s, act);
		in_pos += n - s->avail_in;
		fo.out.insert(fo.out.end(), obuf.data(), obuf.data() + (obuf.size() - s->avail_out));
		if (!ret_is_public(r)) { c.viol("internal-ret", fmt("lzma_code returned internal status %d", (int)r)); fo.status = r; return; }
		if (r == LZMA_SEEK_NEEDED) {
			if (s->seek_pos > d.file_size) { c.viol("seek", "seek beyond the file"); return; }
			in_pos = (size_t)s->seek_pos;
			continue;
		}
		if (r == LZMA_STREAM_END && act == LZMA_FULL_FLUSH) { ++flush_i; continue; }
		if (c.chk(r, before, "lzma_code")) { fo.status = r; return; }
		if (r == LZMA_STREAM_END) { fo.status = r; fo.completed = true; return; }
		if (++guard > 400000) { c.viol("liveness-calls", "flow does not terminate"); return; }
	}
}

// ------------------------------------------------------- custom flows
static bool index_equal(const lzma_index *a, const lzma_index *b)
{
	if (lzma_index_block_count(a) != lzma_index_block_count(b) || lzma_index_stream_count(a) != lzma_index_stream_count(b)
			|| lzma_index_file_size(a) != lzma_index_file_size(b) || lzma_index_uncompressed_size(a) != lzma_index_uncompressed_size(b)
			|| lzma_index_checks(a) != lzma_index_checks(b) || lzma_index_total_size(a) != lzma_index_total_size(b))
		return false;
	lzma_index_iter ia, ib;
	lzma_index_iter_init(&ia, a);
	lzma_index_iter_init(&ib, b);
	for (;;) {
		bool ea = lzma_index_iter_next(&ia, LZMA_INDEX_ITER_ANY), eb = lzma_index_iter_next(&ib, LZMA_INDEX_ITER_ANY);
		if (ea != eb) return false;
		if (ea) return true;
		if (ia.stream.number != ib.stream.number || ia.block.number_in_file != ib.block.number_in_file
				|| ia.block.compressed_file_offset != ib.block.compressed_file_offset
				|| ia.block.uncompressed_file_offset != ib.block.uncompressed_file_offset
				|| ia.block.unpadded_size != ib.block.unpadded_size || ia.block.uncompressed_size != ib.block.uncompressed_size
				|| ia.stream.padding != ib.stream.padding)
			return false;
	}
}

struct IdxSnap { lzma_vli blocks, streams, fsize, usize, total; uint32_t checks; uint64_t mem; };
static IdxSnap snap(const lzma_index *i)
{
	return { lzma_index_block_count(i), lzma_index_stream_count(i), lzma_index_file_size(i), lzma_index_uncompressed_size(i),
		lzma_index_total_size(i), lzma_index_checks(i), lzma_index_memused(i) };
}
static bool snap_eq(const IdxSnap &a, const IdxSnap &b)
{
	return a.blocks == b.blocks && a.streams == b.streams && a.fsize == b.fsize && a.usize == b.usize && a.total == b.total && a.checks == b.checks && a.mem == b.mem;
}

static void run_custom(ACtx &c, int id, uint64_t variant)
{
	const lzma_allocator *al = &c.al.a;
	Rng r(variant);
	Artefacts &a = arts();
	switch (id) {
	case F_INDEX_OPS: {
		uint64_t before = c.al.failures;
		lzma_index *x = lzma_index_init(al);
		if (!x) { if (c.al.failures == before) c.viol("spurious-null", "lzma_index_init returned NULL without a failed allocation"); else c.mem_error_seen = true; return; }
		lzma_index *y = nullptr, *z = nullptr;
		bool stop = false;
		int n = 600 + (int)r.below(700);
		for (int k = 0; k < n && !stop; ++k) {
			IdxSnap s0 = snap(x);
			before = c.al.failures;
			lzma_ret rr = lzma_index_append(x, al, 12 + (lzma_vli)(k % 97) * 4, 1 + (lzma_vli)(k % 1000));
			if (c.chk(rr, before, "lzma_index_append")) {
				stop = true;
				if (!snap_eq(s0, snap(x))) c.viol("caller-object-changed", "a failed lzma_index_append changed the index");
			}
		}
		lzma_stream_flags sf; memset(&sf, 0, sizeof sf); sf.check = LZMA_CHECK_CRC64; sf.backward_size = LZMA_BACKWARD_SIZE_MIN;
		if (!stop) { lzma_index_stream_flags(x, &sf); lzma_index_stream_padding(x, 8); }
		if (!stop) {
			before = c.al.failures;
			y = lzma_index_dup(x, al);
			if (!y) { stop = true; if (c.al.failures == before) c.viol("spurious-null", "lzma_index_dup returned NULL without a failed allocation"); else c.mem_error_seen = true; }
			else if (c.al.failures > before) c.viol("failure-not-reported", "lzma_index_dup succeeded although an allocation failed");
			else if (!index_equal(x, y)) c.viol("dup-differs", "lzma_index_dup result differs from the source");
		}
		if (!stop) {
			z = lzma_index_init(al);
			if (!z) { stop = true; c.mem_error_seen = true; }
		}
		if (!stop) {
			for (int k = 0; k < 30 && !stop; ++k) {
				before = c.al.failures;
				if (c.chk(lzma_index_append(z, al, 100, 50), before, "lzma_index_append")) stop = true;
			}
		}
		if (!stop) {
			sf.check = LZMA_CHECK_SHA256;
			lzma_index_stream_flags(z, &sf);
			IdxSnap sy = snap(y), sz = snap(z);
			before = c.al.failures;
			lzma_ret rr = lzma_index_cat(y, z, al);
			if (c.chk(rr, before, "lzma_index_cat")) {
				stop = true;
				if (!snap_eq(sy, snap(y)) || !snap_eq(sz, snap(z))) c.viol("caller-object-changed", "a failed lzma_index_cat changed one of its operands");
				if (!index_equal(x, y)) c.viol("caller-object-changed", "a failed lzma_index_cat changed the destination index");
			} else {
				z = nullptr;   // moved into y
				if (lzma_index_stream_count(y) != 2 || lzma_index_block_count(y) != sy.blocks + sz.blocks) c.viol("cat-wrong", "lzma_index_cat result has wrong counts");
			}
		}
		if (!stop) {
			// encode + decode through the single-call API
			Bytes buf((size_t)lzma_index_size(x));
			size_t pos = 0;
			before = c.al.failures;
			if (!c.chk(lzma_index_buffer_encode(x, buf.data(), &pos, buf.size()), before, "lzma_index_buffer_encode")) {
				lzma_index *d = nullptr;
				uint64_t ml = UINT64_MAX;
				size_t ip = 0;
				before = c.al.failures;
				lzma_ret rr = lzma_index_buffer_decode(&d, &ml, al, buf.data(), &ip, pos);
				if (c.chk(rr, before, "lzma_index_buffer_decode")) { if (d) c.viol("out-param", "failed lzma_index_buffer_decode left *i non-NULL"); }
				else {
					if (lzma_index_block_count(d) != lzma_index_block_count(x)) c.viol("index-roundtrip", "decoded index differs");
					lzma_index_end(d, al);
				}
			}
		}
		lzma_index_end(x, al);
		lzma_index_end(y, al);
		lzma_index_end(z, al);
		return;
	}
	case F_FILTERS: {
		Chain ch; small_chain(ch, 3);
		// other orders of filters with and without options (options, none, options; none, options, options, options)
		static lzma_options_delta d2; d2.type = LZMA_DELTA_TYPE_BYTE; d2.dist = 9;
		if (variant % 3 == 1) { ch.f[0].id = LZMA_FILTER_DELTA; ch.f[0].options = &ch.delta; ch.f[1].id = LZMA_FILTER_X86; ch.f[1].options = nullptr; ch.f[2].id = LZMA_FILTER_LZMA2; ch.f[2].options = &ch.lz; ch.f[3].id = LZMA_VLI_UNKNOWN; ch.f[3].options = nullptr; }
		else if (variant % 3 == 2) { ch.f[0].id = LZMA_FILTER_DELTA; ch.f[0].options = &d2; ch.f[1].id = LZMA_FILTER_ARM; ch.f[1].options = nullptr; ch.f[2].id = LZMA_FILTER_DELTA; ch.f[2].options = &ch.delta; ch.f[3].id = LZMA_FILTER_LZMA2; ch.f[3].options = &ch.lz; ch.f[4].id = LZMA_VLI_UNKNOWN; ch.f[4].options = nullptr; }
		lzma_filter dst[LZMA_FILTERS_MAX + 1];
		for (auto &f : dst) { f.id = 0x7777; f.options = (void *)0x1234; }
		uint64_t before = c.al.failures;
		lzma_ret rr = lzma_filters_copy(ch.f, dst, al);
		if (c.chk(rr, before, "lzma_filters_copy")) {
			for (auto &f : dst) if (f.id != 0x7777 || f.options != (void *)0x1234) { c.viol("caller-object-changed", "a failed lzma_filters_copy modified the destination array"); break; }
			return;
		}
		lzma_filters_free(dst, al);
		return;
	}
	case F_STRINGS: {
		static const char *strs[] = { "x86:start=4096 delta:dist=7 lzma2:dict=64KiB,lc=2,lp=1,pb=1,mode=fast,nice=33,mf=hc4,depth=9",
			"arm64 lzma2:preset=3", "6e", "lzma1:dict=8KiB", "riscv:start=16--delta:dist=256--lzma2:preset=1,dict=1MiB" };
		const char *str = strs[r.below(5)];
		lzma_filter f[LZMA_FILTERS_MAX + 1];
		int errpos = -1;
		uint64_t before = c.al.failures;
		const char *msg = lzma_str_to_filters(str, &errpos, f, LZMA_STR_ALL_FILTERS, al);
		if (msg != nullptr) {
			if (c.al.failures == before) c.viol("unexpected-status", std::string("lzma_str_to_filters failed: ") + msg);
			else c.mem_error_seen = true;
			return;
		}
		if (c.al.failures > before) { c.viol("failure-not-reported", "lzma_str_to_filters succeeded although an allocation failed"); }
		char *out = nullptr;
		before = c.al.failures;
		lzma_ret rr = lzma_str_from_filters(&out, f, LZMA_STR_ENCODER | LZMA_STR_GETOPT_LONG, al);
		if (c.chk(rr, before, "lzma_str_from_filters")) { if (out) c.viol("out-param", "failed lzma_str_from_filters left *str non-NULL"); }
		else al_free(out, al);
		lzma_filters_free(f, al);
		char *lst = nullptr;
		before = c.al.failures;
		rr = lzma_str_list_filters(&lst, LZMA_VLI_UNKNOWN, LZMA_STR_ALL_FILTERS | LZMA_STR_ENCODER, al);
		if (!c.chk(rr, before, "lzma_str_list_filters")) al_free(lst, al);
		return;
	}
	case F_HEADERS: {
		// Block Header with three filters -> decode allocates options
		Chain ch; small_chain(ch, 3);
		lzma_block b; memset(&b, 0, sizeof b);
		b.version = 1; b.check = LZMA_CHECK_CRC32; b.filters = ch.f;
		b.compressed_size = 1234; b.uncompressed_size = 5678;
		if (lzma_block_header_size(&b) != LZMA_OK) return;
		Bytes hdr(b.header_size);
		if (lzma_block_header_encode(&b, hdr.data()) != LZMA_OK) return;
		lzma_filter df[LZMA_FILTERS_MAX + 1];
		lzma_block db; memset(&db, 0, sizeof db);
		db.version = 1; db.check = LZMA_CHECK_CRC32; db.filters = df;
		db.header_size = lzma_block_header_size_decode(hdr[0]);
		uint64_t before = c.al.failures;
		lzma_ret rr = lzma_block_header_decode(&db, al, hdr.data());
		if (c.chk(rr, before, "lzma_block_header_decode")) {
			for (int k = 0; k <= LZMA_FILTERS_MAX; ++k)
				if (df[k].id != LZMA_VLI_UNKNOWN || df[k].options != nullptr) { c.viol("out-param", "failed lzma_block_header_decode left filter entries set"); break; }
			return;
		}
		lzma_filters_free(df, al);
		// filter flags
		uint32_t sz = 0;
		if (lzma_filter_flags_size(&sz, &ch.f[1]) != LZMA_OK) return;
		Bytes ff(sz); size_t pos = 0;
		if (lzma_filter_flags_encode(&ch.f[1], ff.data(), &pos, ff.size()) != LZMA_OK) return;
		lzma_filter one; one.id = 0; one.options = nullptr;
		size_t ip = 0;
		before = c.al.failures;
		rr = lzma_filter_flags_decode(&one, al, ff.data(), &ip, ff.size());
		if (!c.chk(rr, before, "lzma_filter_flags_decode")) al_free(one.options, al);
		else if (one.options) c.viol("out-param", "failed lzma_filter_flags_decode left options non-NULL");
		return;
	}
	case F_BUFFER_API: {
		Bytes in(a.text.begin(), a.text.begin() + 9000);
		Chain ch; small_chain(ch, 1);
		Bytes out(lzma_stream_buffer_bound(in.size()));
		size_t op = 0;
		uint64_t before = c.al.failures;
		lzma_ret rr = lzma_stream_buffer_encode(ch.f, LZMA_CHECK_CRC64, al, in.data(), in.size(), out.data(), &op, out.size());
		if (c.chk(rr, before, "lzma_stream_buffer_encode")) { if (op != 0) c.viol("out-pos", "failed lzma_stream_buffer_encode advanced *out_pos"); return; }
		Bytes dec(in.size() + 10);
		size_t ip = 0, dp = 0; uint64_t ml = UINT64_MAX;
		before = c.al.failures;
		rr = lzma_stream_buffer_decode(&ml, 0, al, out.data(), &ip, op, dec.data(), &dp, dec.size());
		if (c.chk(rr, before, "lzma_stream_buffer_decode")) { if (ip != 0 || dp != 0) c.viol("out-pos", "failed lzma_stream_buffer_decode advanced its positions"); return; }
		if (dp != in.size() || memcmp(dec.data(), in.data(), dp) != 0) c.viol("roundtrip", "buffer API round trip differs");
		op = 0;
		before = c.al.failures;
		rr = lzma_easy_buffer_encode(2, LZMA_CHECK_CRC32, al, in.data(), in.size(), out.data(), &op, out.size());
		if (c.chk(rr, before, "lzma_easy_buffer_encode")) return;
		// raw
		op = 0;
		before = c.al.failures;
		rr = lzma_raw_buffer_encode(ch.f, al, in.data(), in.size(), out.data(), &op, out.size());
		if (c.chk(rr, before, "lzma_raw_buffer_encode")) return;
		ip = 0; dp = 0;
		before = c.al.failures;
		rr = lzma_raw_buffer_decode(ch.f, al, out.data(), &ip, op, dec.data(), &dp, dec.size());
		if (c.chk(rr, before, "lzma_raw_buffer_decode")) return;
		// block
		lzma_block b; memset(&b, 0, sizeof b);
		b.version = 0; b.check = LZMA_CHECK_CRC32; b.filters = ch.f;
		op = 0;
		before = c.al.failures;
		rr = lzma_block_buffer_encode(&b, al, in.data(), in.size(), out.data(), &op, out.size());
		if (c.chk(rr, before, "lzma_block_buffer_encode")) return;
		lzma_filter df[LZMA_FILTERS_MAX + 1];
		lzma_block db; memset(&db, 0, sizeof db);
		db.version = 0; db.check = LZMA_CHECK_CRC32; db.filters = df;
		db.header_size = lzma_block_header_size_decode(out[0]);
		before = c.al.failures;
		rr = lzma_block_header_decode(&db, al, out.data());
		if (c.chk(rr, before, "lzma_block_header_decode")) return;
		ip = db.header_size; dp = 0;
		before = c.al.failures;
		rr = lzma_block_buffer_decode(&db, al, out.data(), &ip, op, dec.data(), &dp, dec.size());
		bool stop = c.chk(rr, before, "lzma_block_buffer_decode");
		lzma_filters_free(df, al);
		if (stop) return;
		return;
	}
	case F_BLOCK_CODERS: {
		Chain ch; small_chain(ch, 1);
		lzma_block b; memset(&b, 0, sizeof b);
		b.version = 0; b.check = LZMA_CHECK_CRC64; b.filters = ch.f;
		b.compressed_size = LZMA_VLI_UNKNOWN; b.uncompressed_size = LZMA_VLI_UNKNOWN;
		if (lzma_block_header_size(&b) != LZMA_OK) return;
		lzma_stream s = LZMA_STREAM_INIT;
		s.allocator = al;
		FlowData d;
		d.input.assign(a.text.begin(), a.text.begin() + 12000);
		d.in_chunk = 3000; d.out_chunk = 2000;
		d.init = [&b](lzma_stream *st) { return lzma_block_encoder(st, &b); };
		FlowOut fo;
		run_stream_flow(c, d, &s, fo);
		if (fo.completed) {
			FlowData d2;
			d2.input = fo.out;
			d2.in_chunk = 1000; d2.out_chunk = 3000;
			d2.init = [&b](lzma_stream *st) { return lzma_block_decoder(st, &b); };
			FlowOut fo2;
			run_stream_flow(c, d2, &s, fo2);   // reuses the handle without lzma_end
			if (fo2.completed && fo2.out != d.input) c.viol("roundtrip", "block coder round trip differs");
		}
		lzma_end(&s);
		return;
	}
	case F_UPDATE_ST:
	case F_UPDATE_MT: {
		Chain ch; small_chain(ch, 0);
		Chain ch2; small_chain(ch2, variant % 3 == 0 ? 0 : 1);
		// (every third variant: the same chain with another match finder and the same dictionary size, so that
		// the LZ encoder re-initialises in place and keeps what it can of its old arrays)
		if (variant % 3 == 0) {
			static const lzma_match_finder pairs[][2] = { { LZMA_MF_HC3, LZMA_MF_HC4 }, { LZMA_MF_BT2, LZMA_MF_BT3 }, { LZMA_MF_HC4, LZMA_MF_HC3 }, { LZMA_MF_BT3, LZMA_MF_BT4 }, { LZMA_MF_BT4, LZMA_MF_BT2 }, { LZMA_MF_HC4, LZMA_MF_BT4 }, { LZMA_MF_BT2, LZMA_MF_BT4 } };
			ch.lz.mf = pairs[(variant / 3) % 7][0]; ch2.lz.mf = pairs[(variant / 3) % 7][1];
		}
		lzma_mt mt; memset(&mt, 0, sizeof mt);
		mt.threads = 2; mt.block_size = 5000; mt.filters = ch.f; mt.check = LZMA_CHECK_CRC32;
		lzma_stream s = LZMA_STREAM_INIT;
		s.allocator = al;
		uint64_t before = c.al.failures;
		lzma_ret rr = id == F_UPDATE_ST ? lzma_stream_encoder(&s, ch.f, LZMA_CHECK_CRC32) : lzma_stream_encoder_mt(&s, &mt);
		if (c.chk(rr, before, "init")) { lzma_end(&s); return; }
		Bytes in(a.text.begin(), a.text.begin() + 16000);
		Bytes out;
		Bytes buf(4096);
		size_t pos = 0;
		bool dead = false;
		auto code = [&](size_t upto, lzma_action act) -> bool {
			for (;;) {
				s.next_in = in.data() + pos; s.avail_in = upto - pos;
				s.next_out = buf.data(); s.avail_out = buf.size();
				uint64_t b4 = c.al.failures;
				lzma_ret r2 = lzma_code(&s, act);
				pos = upto - s.avail_in;
				out.insert(out.end(), buf.data(), buf.data() + (buf.size() - s.avail_out));
				if (r2 == LZMA_STREAM_END) return true;
				if (c.chk(r2, b4, "lzma_code")) { dead = true; return false; }
			}
		};
		if (code(7000, LZMA_FULL_BARRIER)) {
			before = c.al.failures;
			rr = lzma_filters_update(&s, ch2.f);
			bool refused = false;
			if (rr == LZMA_MEM_ERROR) { c.mem_error_seen = true; refused = true; if (c.al.failures == before) c.viol("spurious-mem-error", "lzma_filters_update returned LZMA_MEM_ERROR without a failed allocation"); }
			else if (c.al.failures > before && rr == LZMA_OK && id == F_UPDATE_ST) c.viol("failure-not-reported", "lzma_filters_update succeeded although an allocation failed");
			else if (rr != LZMA_OK) c.viol("unexpected-status", std::string("lzma_filters_update returned ") + ret_name(rr));
			// whatever happened, the encoder must still be usable: finish
			// with faults switched off and decode the result
			(void)refused;
			uint32_t saved_nth = c.al.fail_nth; c.al.fail_nth = 0;
			uint32_t saved_from = c.al.fail_from; c.al.fail_from = 0;
			if (code(in.size(), LZMA_FINISH)) {
				Bytes dec(in.size() + 1);
				size_t ip = 0, dp = 0; uint64_t ml = UINT64_MAX;
				lzma_ret dr = lzma_stream_buffer_decode(&ml, 0, nullptr, out.data(), &ip, out.size(), dec.data(), &dp, dec.size());
				if (dr != LZMA_OK || dp != in.size() || memcmp(dec.data(), in.data(), dp) != 0)
					c.viol("unusable-after-failed-update", fmt("after lzma_filters_update returned %s the finished stream does not decode to the input (%s)", ret_name(rr), ret_name(dr)));
			} else if (!dead || c.al.failures == 0) {
				c.viol("unusable-after-failed-update", "encoder could not finish after lzma_filters_update");
			}
			c.al.fail_nth = saved_nth; c.al.fail_from = saved_from;
		} else if (dead) {
			// the coding call reported the failed allocation; the client may still call
			// lzma_filters_update() on the handle (accepted or not) before ending it:
			// everything must go back to the allocator
			(void)lzma_filters_update(&s, ch2.f);
			c.v->count("reach.filters_update_after_mem_error");
		}
		lzma_end(&s);
		return;
	}
	case F_INDEX_HASH: {
		uint64_t before = c.al.failures;
		lzma_index_hash *h = lzma_index_hash_init(nullptr, al);
		if (!h) { if (c.al.failures == before) c.viol("spurious-null", "lzma_index_hash_init returned NULL"); else c.mem_error_seen = true; return; }
		for (int k = 0; k < 20; ++k) (void)lzma_index_hash_append(h, 100 + (lzma_vli)k * 4, 1000);
		before = c.al.failures;
		lzma_index_hash *h2 = lzma_index_hash_init(h, al);   // reuse
		if (!h2) { c.viol("spurious-null", "lzma_index_hash_init(reuse) returned NULL"); return; }
		lzma_index_hash_end(h2, al);
		return;
	}
	default: return;
	}
}

// ----------------------------------------------------------------- exec
static void c10_gen(Rng &rng, Plan &plan, bool thorough)
{
	gen_sched_params(rng, plan, thorough);
	// threaded flows: keep the schedule fixed per (seed) so that "the k-th
	// allocation" is well defined; strategy varies with the seed
	uint64_t idx = plan.seed % 1000000ull;
	int mode = (int)(idx % 4);
	plan.setp("variant", (int64_t)(plan.seed / 1000000ull));
	if (mode < 3) {
		// sweep: flow and k from the run index => complete for k <= runs / F_COUNT
		uint64_t j = idx / 4 * 3 + (uint64_t)mode;
		plan.setp("mode", 0);
		plan.setp("flow", (int64_t)(j % F_COUNT));
		// fail_index t: the executor fails allocation 1 + t % N, where N is the
		// number of allocations of the fault-free flow, and varies the
		// slicing with t / N
		plan.setp("fail_index", (int64_t)(j / F_COUNT));
		plan.setp("variant", (int64_t)(plan.seed / 1000000ull * 131 + j / F_COUNT / 64));
		plan.setp("after_fail", (int64_t)rng.below(3));
	} else if (rng.chance(400)) {
		// re-initialisation sweep: coder A is used on the handle (completed, or
		// abandoned part-way, so that it still owns half-built objects), then the
		// handle is re-initialised for coder B - the same kind more often than
		// not, because then liblzma reuses the coder structure instead of freeing
		// it - with the k-th allocation counted from B's init failing
		plan.setp("mode", 2);
		int a = (int)rng.below(F_STREAM_FLOW_COUNT);
		int b = rng.chance(600) ? a : (int)rng.below(F_STREAM_FLOW_COUNT);
		Op ua("use"); ua.set("flow", a).set("abandon_after", rng.chance(300) ? -1 : (int64_t)rng.below(6)); plan.ops.push_back(ua);
		Op ub("use"); ub.set("flow", b).set("abandon_after", rng.chance(700) ? -1 : (int64_t)rng.below(6)).set("fail_rel", rng.chance(600) ? (int64_t)rng.below(6) : (int64_t)rng.below(60)); plan.ops.push_back(ub);
		if (rng.chance(500)) { Op uc("use"); uc.set("flow", rng.chance(500) ? b : (int64_t)rng.below(F_STREAM_FLOW_COUNT)).set("abandon_after", -1); plan.ops.push_back(uc); }
		plan.setp("fail_from", 0);
		plan.setp("fail_permille", 0);
	} else if (rng.chance(500)) {
		plan.setp("mode", 1);   // from the k-th on, each allocation fails with probability p
		plan.setp("flow", (int64_t)rng.below(F_COUNT));
		plan.setp("fail_from", rng.range(1, 60));
		static const int pm[] = { 20, 100, 300, 700 };
		plan.setp("fail_permille", pm[rng.below(4)]);
		plan.setp("after_fail", (int64_t)rng.below(3));
	} else {
		plan.setp("mode", 2);   // history: one handle, several coders, no lzma_end in between
		int n = 2 + (int)rng.below(5);
		for (int i = 0; i < n; ++i) {
			Op op("use");
			op.set("flow", (int64_t)rng.below(F_STREAM_FLOW_COUNT));
			op.set("abandon_after", rng.chance(400) ? (int64_t)rng.below(6) : -1);
			plan.ops.push_back(op);
		}
		plan.setp("fail_from", rng.range(1, 120));
		static const int pm[] = { 0, 10, 50, 200 };
		plan.setp("fail_permille", pm[rng.below(4)]);
	}
	// threaded flows may also see a failing pthread_create (separate
	// configuration, judged only on "no crash, no leak")
	if (thorough && rng.chance(40)) plan.setp("fault_create_fail_nth", rng.range(1, 3));
}

static void set_faults(SimAlloc &al, const Plan &plan, uint32_t N = 0)
{
	al.clear_faults();
	al.reset_seq();
	if (plan.p("mode") == 0) {
		if (plan.hasp("fail_nth")) al.fail_nth = (uint32_t)plan.p("fail_nth", 0);
		else al.fail_nth = N ? 1 + (uint32_t)(plan.p("fail_index", 0) % N) : 1;
	}
	else { al.fail_from = (uint32_t)plan.p("fail_from", 0); al.fail_permille = (uint32_t)plan.p("fail_permille", 0); al.frng.reseed((uint64_t)plan.p("sched_seed", 1)); }
}

static void c10_exec(const Plan &plan, Verdict &v)
{
	if (!arts().ok) { v.fail("harness", "harness/artefact", "artefacts: " + arts().err); return; }
	int mode = (int)plan.p("mode", 0);
	uint64_t variant = (uint64_t)plan.p("variant", 1);
	bool create_fault = plan.p("fault_create_fail_nth", 0) != 0;
	v.count("runs.total");

	if (mode == 2) {
		ACtx c; c.v = &v; c.flow = "history"; c.threaded = true; c.lenient = create_fault;
		set_faults(c.al, plan);
		lzma_stream s = LZMA_STREAM_INIT;
		s.allocator = &c.al.a;
		std::vector<std::function<void(const lzma_allocator *)>> cleanups;
		std::vector<FlowData *> datas;
		for (auto &op : plan.ops) {
			if (op.name != "use") continue;
			FlowData *d = new FlowData();
			datas.push_back(d);
			if (!make_flow((int)op.get("flow") % F_STREAM_FLOW_COUNT, *d, variant)) continue;
			c.flow = std::string("history:") + flow_names[op.get("flow") % F_STREAM_FLOW_COUNT];
			int64_t ab = op.get("abandon_after", -1);
			if (ab >= 0 && op.get("flow") % F_STREAM_FLOW_COUNT != F_MICROLZMA_ENC) { d->input.resize(std::min(d->input.size(), (size_t)(ab * 997 + 1))); d->full_flush_at.clear(); d->abandon = true; }
			FlowOut fo;
			if (op.has("fail_rel")) {
				// count B's allocations on a fresh handle (fault-free), then fail the k-th counted from its init
				ACtx cnt; Verdict vc; cnt.v = &vc; cnt.flow = c.flow; cnt.threaded = true; cnt.lenient = true;
				FlowData dc; make_flow((int)op.get("flow") % F_STREAM_FLOW_COUNT, dc, variant);
				if (d->abandon) { dc.input.resize(d->input.size()); dc.full_flush_at.clear(); dc.abandon = true; }
				lzma_stream sc = LZMA_STREAM_INIT; sc.allocator = &cnt.al.a;
				FlowOut fc; run_stream_flow(cnt, dc, &sc, fc);
				if (dc.cleanup) dc.cleanup(&cnt.al.a);
				lzma_end(&sc);
				if (dc.dest_index && !dc.cleanup) lzma_index_end(dc.dest_index, nullptr);
				uint32_t nb = cnt.al.seq ? cnt.al.seq : 1;
				c.al.clear_faults(); c.al.reset_seq();
				c.al.fail_nth = 1 + (uint32_t)(op.get("fail_rel") % nb);
				c.mem_error_seen = false;
				v.count("reach.reinit_with_failing_allocation");
			} else if (plan.p("fail_permille", 0) == 0) c.al.clear_faults();
			// an abandoned coder gets only part of its input and never FINISH'es
			run_stream_flow(c, *d, &s, fo);
			// (an abandoned coder stops calling before a worker thread's failure has to surface)
			// (nor is the failure B's when workers of an abandoned threaded coder A were still allocating while B's init shut them down)
			bool prev_busy_workers = datas.size() >= 2 && datas[datas.size() - 2]->threaded && datas[datas.size() - 2]->abandon;
			if (op.has("fail_rel") && !d->abandon && !prev_busy_workers && c.al.failures > 0 && !c.mem_error_seen && !c.violated) c.viol("failure-not-reported", fmt("re-initialised coder finished with status %s although allocation #%u after the re-init failed", ret_name(fo.status), c.al.fail_nth));
			if (d->cleanup) d->cleanup(&c.al.a);
			if (d->dest_index && !d->cleanup) {}
			if (c.violated) break;
			v.count("reach.handle_reused");
		}
		lzma_end(&s);
		for (auto *d : datas) { if (d->dest_index && !d->cleanup) lzma_index_end(d->dest_index, nullptr); delete d; }
		if (c.violated) return;
		v.count("fault.alloc_fail", c.al.failures);
		if (!c.al.misuse.empty()) { v.fail("alloc-misuse", "C10/alloc-misuse", c.al.misuse + " [history]"); return; }
		if (c.al.cur != 0) { v.fail("leak", "C10/leak", fmt("%llu bytes in %zu blocks still allocated after lzma_end [history of %zu coders on one handle]", (unsigned long long)c.al.cur, c.al.live.size(), plan.ops.size())); c.al.purge(); return; }
		v.feature(mix64(fnv_str(plan.to_text(false)), 2));
		return;
	}

	int flow = (int)plan.p("flow", 0) % F_COUNT;
	ACtx c; c.v = &v; c.flow = flow_names[flow]; c.lenient = create_fault;
	if (flow >= F_STREAM_FLOW_COUNT) {
		// baseline for the allocation count
		ACtx base; Verdict vb; base.v = &vb; base.flow = c.flow; base.lenient = create_fault;
		run_custom(base, flow, variant);
		if (!vb.ok) { v.fail("baseline-" + vb.cls, "C10/baseline-" + vb.cls, "fault-free run: " + vb.msg); return; }
		if (base.al.cur != 0) { v.fail("leak", "C10/leak", "fault-free custom flow leaked [" + c.flow + "]"); base.al.purge(); return; }
		uint32_t N = base.al.seq;
		set_faults(c.al, plan, N);
		run_custom(c, flow, variant);
		if (c.violated) return;
		v.count("fault.alloc_fail", c.al.failures);
		if (c.al.failures == 0) { v.count("runs.fault_beyond_last_allocation"); }
		else v.feature(mix64((uint64_t)flow, mode == 0 ? c.al.fail_nth : fnv_str(plan.to_text(false))));
		if (!c.al.misuse.empty()) { v.fail("alloc-misuse", "C10/alloc-misuse", c.al.misuse + " [" + c.flow + "]"); return; }
		if (c.al.cur != 0) { v.fail("leak", "C10/leak", fmt("%llu bytes still allocated at the end of the flow [%s, failing allocation #%u of %u]", (unsigned long long)c.al.cur, c.flow.c_str(), c.al.fail_nth, N)); c.al.purge(); return; }
		if (c.al.failures > 0 && !c.mem_error_seen) v.fail("failure-not-reported", "C10/failure-not-reported", "no call reported the failed allocation [" + c.flow + fmt(", #%u of %u]", c.al.fail_nth, N));
		v.counters["max.allocs_in_flow"] = std::max<uint64_t>(v.counters["max.allocs_in_flow"], N);
		return;
	}

	// stream flow: fault-free baseline first (same schedule)
	FlowData d0;
	if (!make_flow(flow, d0, variant)) { v.fail("harness", "harness/flow", "cannot build flow"); return; }
	FlowOut base_out;
	uint32_t N;
	{
		ACtx base; Verdict vb; base.v = &vb; base.flow = c.flow; base.threaded = d0.threaded; base.lenient = create_fault;
		lzma_stream s = LZMA_STREAM_INIT; s.allocator = &base.al.a;
		run_stream_flow(base, d0, &s, base_out);
		if (d0.cleanup) d0.cleanup(&base.al.a);
		lzma_end(&s);
		if (!vb.ok) { v.fail("baseline-" + vb.cls, "C10/baseline-" + vb.cls, "fault-free run: " + vb.msg); return; }
		if (!base_out.completed && !create_fault) { v.fail("baseline", "C10/baseline", "fault-free flow did not complete [" + c.flow + "]"); return; }
		if (base.al.cur != 0) { v.fail("leak", "C10/leak", "fault-free flow leaked [" + c.flow + "]"); base.al.purge(); return; }
		N = base.al.seq;
	}
	if (d0.dest_index && !d0.cleanup) { lzma_index_end(d0.dest_index, nullptr); d0.dest_index = nullptr; }

	FlowData d;
	make_flow(flow, d, variant);
	c.threaded = d.threaded;
	set_faults(c.al, plan, N);
	if (mode == 0 && N && (uint64_t)plan.p("fail_index", 0) >= N) v.count("reach.sweep_wrapped");
	lzma_stream s = LZMA_STREAM_INIT;
	s.allocator = &c.al.a;
	FlowOut fo;
	run_stream_flow(c, d, &s, fo);
	if (d.cleanup) d.cleanup(&c.al.a);
	uint64_t injected = c.al.failures;
	v.count("fault.alloc_fail", injected);
	v.counters["max.allocs_in_flow"] = std::max<uint64_t>(v.counters["max.allocs_in_flow"], N);
	if (!c.violated && injected > 0 && !c.mem_error_seen && !create_fault)
		c.viol("failure-not-reported", fmt("the flow finished with status %s although %llu allocations failed", ret_name(fo.status), (unsigned long long)injected));
	if (!c.violated && injected == 0 && fo.completed && fo.out != base_out.out && !d.threaded)
		c.viol("nondeterministic", "fault-free repetition of the flow gave different output");
	int after = (int)plan.p("after_fail", 0);
	if (!c.violated && after >= 1 && injected > 0) {
		// the handle can be re-initialised (without lzma_end) and then works
		c.al.clear_faults();
		FlowData d2;
		int flow2 = after == 1 ? flow : (flow + 5) % F_STREAM_FLOW_COUNT;
		make_flow(flow2, d2, variant);
		bool saved_threaded = c.threaded;
		c.threaded = d2.threaded;
		uint64_t fbefore = c.al.failures;
		c.mem_error_seen = false;
		FlowOut fo2;
		run_stream_flow(c, d2, &s, fo2);
		if (d2.cleanup) d2.cleanup(&c.al.a);
		if (d2.dest_index && !d2.cleanup) { lzma_index_end(d2.dest_index, nullptr); d2.dest_index = nullptr; }
		(void)fbefore;
		if (!c.violated && !fo2.completed) c.viol("handle-unusable", std::string("after the failure the handle could not be re-initialised and used for ") + flow_names[flow2] + ": " + ret_name(fo2.status));
		if (!c.violated && after == 1 && !d2.threaded && fo2.out != base_out.out) c.viol("handle-unusable", "after the failure the re-initialised coder produced different output");
		v.count("reach.reinit_after_failure");
		c.threaded = saved_threaded;
	}
	lzma_end(&s);
	if (d.dest_index && !d.cleanup) { lzma_index_end(d.dest_index, nullptr); d.dest_index = nullptr; }
	if (c.violated) return;
	if (!c.al.misuse.empty()) { v.fail("alloc-misuse", "C10/alloc-misuse", c.al.misuse + " [" + c.flow + fmt(", #%u of %u]", c.al.fail_nth, N)); return; }
	if (c.al.cur != 0) { v.fail("leak", "C10/leak", fmt("%llu bytes in %zu blocks still allocated after lzma_end [%s, failing allocation #%u of %u]", (unsigned long long)c.al.cur, c.al.live.size(), c.flow.c_str(), c.al.fail_nth, N)); c.al.purge(); return; }
	if (injected == 0) v.count("runs.fault_beyond_last_allocation");
	else v.feature(mix64((uint64_t)flow, mode == 0 ? c.al.fail_nth : fnv_str(plan.to_text(false))));
	if (fo.init_failed) v.count("reach.init_failed");
}

REGISTER_SCENARIO(c10_main, "C10", "alloc_fail", 100, 100, c10_gen, c10_exec, true);

} // namespace
