// C04 — no input can make a decoder or parser misbehave. Every decoding and
// parsing entry point is fed stored-byte-fault variants of valid artefacts and
// of tests/files, and raw random bytes, with random delivery, memory limits,
// and a client that stalls (stops giving input or output space) at a random
// moment. Oracles: ASan+UBSan+asserts (build flavour), allocator balance,
// only documented status codes, a stalled client is told LZMA_BUF_ERROR (or a
// terminal status) within a bounded number of calls, every run terminates.
#include "core.hpp"
#include "session.hpp"
#include "xzutil.hpp"
#include "../model/reflzma.hpp"

#include <algorithm>
#include <dirent.h>

namespace {

enum { E_STREAM = 0, E_MT, E_AUTO, E_ALONE, E_LZIP, E_MICROLZMA, E_RAW, E_BLOCK, E_INDEX, E_FILE_INFO,
	E_BLOCK_HEADER, E_STREAM_FLAGS, E_FILTER_FLAGS, E_FILTER_STRING, E_BUFFER_API, E_INDEX_HASH, E_COUNT };
static const char *e_names[] = { "stream_decoder", "stream_decoder_mt", "auto_decoder", "alone_decoder", "lzip_decoder", "microlzma_decoder",
	"raw_decoder", "block_decoder", "index_decoder", "file_info_decoder", "block_header_decode", "stream_header/footer_decode",
	"filter_flags_decode+properties", "str_to_filters", "stream/block/raw/index buffer decode", "index_hash" };

static const std::vector<std::string> &all_test_files()
{
	static std::vector<std::string> names;
	static bool done = false;
	if (done) return names;
	done = true;
	const char *repo = getenv("VERIF_REPO");
	std::string dir = std::string(repo ? repo : "/repo") + "/tests/files";
	DIR *d = opendir(dir.c_str());
	if (!d) return names;
	while (dirent *e = readdir(d)) {
		std::string n = e->d_name;
		if (n.size() > 3 && n[0] != '.' && n != "README") names.push_back(n);
	}
	closedir(d);
	std::sort(names.begin(), names.end());
	return names;
}

static void c04_gen(Rng &rng, Plan &plan, bool thorough)
{
	gen_sched_params(rng, plan, thorough);
	plan.setp("entry", (int64_t)rng.below(E_COUNT));
	// data source: 0 generated artefact matching the entry, 1 tests/files,
	// 2 random bytes, 3 valid prefix + random tail
	static const int srcw[] = { 0, 0, 0, 0, 1, 1, 1, 2, 3, 3 };
	plan.setp("src", srcw[rng.below(10)]);
	plan.setp("file", (int64_t)rng.below(100000));
	gen_chain_params(rng, plan, true, true);
	gen_artefact_params(rng, plan, thorough, thorough ? 60000 : 15000);
	if (rng.chance(60)) { plan.setp("art0_spoil_block", rng.range(1, 6)); plan.setp("art0_kind", 0); }
	plan.setp("rand_len", (int64_t)rng.size_skewed(3000));
	plan.setp("rand_seed", (int64_t)(rng.next() >> 2));
	int nf = (int)rng.below(5);
	for (int i = 0; i < nf; ++i) {
		Op op("sfault");
		op.set("kind", (int64_t)rng.below(6)).set("pos", (int64_t)rng.below(1000000)).set("len", (int64_t)(1 + rng.below(8))).set("val", (int64_t)rng.below(256));
		plan.ops.push_back(op);
	}
	static const int64_t ml[] = { -1, -1, -1, -1, 1, 20000, 1000000, 40000, 50000, 70000, 100000, 150000, 300000, 600000 };
	plan.setp("memlimit", ml[rng.below(14)]);
	// field-level faults: a count or size field holding a boundary value (2^60,
	// 2^63-1, 2^32, ...); in an Index the Number of Records is at offset 1.
	// Now and then the CRC32 protecting the damaged header/Index is recomputed.
	if (rng.chance(250)) {
		Op op("sfault");
		op.set("kind", 6).set("val", (int64_t)rng.below(16)).set("len", (int64_t)rng.below(8));
		if (rng.chance(500)) op.set("abs", rng.chance(700) ? 1 : (int64_t)rng.below(40)); else op.set("pos", (int64_t)rng.below(1000000));
		plan.ops.push_back(op);
		if (rng.chance(700)) plan.setp("memlimit", -1);
	}
	plan.setp("fix_crc", rng.chance(400) ? 1 : 0);
	if (rng.chance(120)) plan.setp("synth_illegal", 1);
	uint32_t flags = 0;
	if (rng.chance(500)) flags |= LZMA_CONCATENATED;
	if (rng.chance(200)) flags |= LZMA_TELL_ANY_CHECK;
	if (rng.chance(200)) flags |= LZMA_TELL_NO_CHECK;
	if (rng.chance(200)) flags |= LZMA_TELL_UNSUPPORTED_CHECK;
	if (rng.chance(200)) flags |= LZMA_IGNORE_CHECK;
	if (rng.chance(150)) flags |= LZMA_FAIL_FAST;
	plan.setp("flags", flags);
	plan.setp("threads", rng.range(1, 5));
	plan.setp("timeout", rng.chance(500) ? 0 : rng.range(1, 30));
	plan.setp("memlimit_threading", rng.chance(300) ? 1 : -1);
	plan.setp("delivery_seed", (int64_t)(rng.next() >> 2));
	plan.setp("delivery_style", (int64_t)rng.below(4));
	// the client stalls after this many calls (-1: never): kind 0 = no more
	// input, 1 = no more output space, 2 = neither
	plan.setp("stall_after", rng.chance(500) ? (int64_t)rng.below(60) : -1);
	plan.setp("stall_kind", (int64_t)rng.below(3));
	plan.setp("finish", rng.chance(700) ? 1 : 0);
}

struct Ctx {
	Verdict *v;
	SimAlloc al;
	std::string entry;
	uint64_t out_digest = 1469598103934665603ull, out_len = 0;   // what the streaming decoders delivered
	int last_status = -1;
	void viol(const std::string &cls, const std::string &msg) { v->fail(cls, "C04/" + cls, msg + " [" + entry + "]"); }
};

static bool status_ok_for_decoder(lzma_ret r)
{
	return ret_is_public(r);
}

// Streaming entry points share this driver.
static void drive_stream(Ctx &c, lzma_stream *s, const Bytes &data, const Plan &plan, bool is_mt, bool uses_seek, uint64_t file_size)
{
	Rng rng((uint64_t)plan.p("delivery_seed"));
	int style = (int)plan.p("delivery_style");
	int64_t stall_after = plan.p("stall_after", -1);
	int stall_kind = (int)plan.p("stall_kind");
	bool finish = plan.p("finish", 1) != 0 && !uses_seek;
	size_t pos = 0;
	uint64_t calls = 0, stalled_calls = 0, guard = 0;
	bool stalled = false, finishing = false;
	size_t stall_in_left = 0;
	for (;;) {
		size_t in_n, out_n;
		switch (style) {
		case 0: in_n = 1 + (size_t)rng.below(64); out_n = 1 + (size_t)rng.below(64); break;
		case 1: in_n = (size_t)rng.size_skewed(8192); out_n = (size_t)rng.size_skewed(8192); break;
		case 2: in_n = 1; out_n = 1 + (size_t)rng.below(3); break;
		default: in_n = 1 << 16; out_n = 1 << 16; break;
		}
		if (!stalled && stall_after >= 0 && (int64_t)calls >= stall_after) { stalled = true; stall_in_left = data.size() - pos; c.v->count("reach.client_stalled"); }
		lzma_action act = LZMA_RUN;
		if (stalled) {
			if (stall_kind == 0 || stall_kind == 2) in_n = 0;
			if (stall_kind == 1 || stall_kind == 2) out_n = 0;
		}
		if (in_n > data.size() - pos) in_n = data.size() - pos;
		if (finishing) in_n = data.size() - pos;
		if (finish && !stalled && in_n == data.size() - pos) { act = LZMA_FINISH; finishing = true; }
		if (finishing) act = LZMA_FINISH;
		uint8_t *ib = (uint8_t *)malloc(in_n ? in_n : 1), *ob = (uint8_t *)malloc(out_n ? out_n : 1);
		if (in_n) memcpy(ib, data.data() + pos, in_n);
		s->next_in = ib; s->avail_in = in_n; s->next_out = ob; s->avail_out = out_n;
		lzma_ret r = lzma_code(s, act);
		++calls;
		size_t used = in_n - s->avail_in, made = out_n - s->avail_out;
		pos += used;
		for (size_t q = 0; q < made; ++q) c.out_digest = (c.out_digest ^ ob[q]) * 1099511628211ull;
		c.out_len += made; c.last_status = (int)r;
		free(ib); free(ob);
		s->next_in = nullptr; s->next_out = nullptr;
		if (!status_ok_for_decoder(r)) { c.viol("internal-ret", fmt("lzma_code returned undocumented status %d", (int)r)); return; }
		if (r == LZMA_SEEK_NEEDED) {
			if (!uses_seek) { c.viol("status", "LZMA_SEEK_NEEDED from a coder that does not seek"); return; }
			if (s->seek_pos > file_size) { c.viol("seek", fmt("seek to %llu beyond the file size %llu", (unsigned long long)s->seek_pos, (unsigned long long)file_size)); return; }
			pos = (size_t)std::min<uint64_t>(s->seek_pos, data.size());
			c.v->count("reach.seek");
			continue;
		}
		if (r == LZMA_MEMLIMIT_ERROR) {
			c.v->count("reach.memlimit_error");
			if (lzma_memlimit_set(s, UINT64_MAX) != LZMA_OK) return;   // e.g. not supported: stop
			continue;
		}
		if (is_notice(r)) continue;
		if (stalled) {
			// a caller that stops supplying input or output space is told,
			// after finitely many calls, that no progress is possible
			if (used == 0 && made == 0) ++stalled_calls; else stalled_calls = 0;
			if (r == LZMA_BUF_ERROR) { c.v->count("reach.stall_buf_error"); return; }
			if (r != LZMA_OK) return;   // terminal status
			uint64_t bound = is_mt ? 5000 : 2;
			if (is_mt && !sim_in_fair_phase()) { sim_fair_phase(); stalled_calls = 0; }
			if (stalled_calls > bound) {
				c.viol("stall-not-reported", fmt("client stalled (kind %d, %zu input bytes withheld) but %llu consecutive calls without progress returned LZMA_OK", stall_kind, stall_in_left, (unsigned long long)stalled_calls));
				return;
			}
			if (++guard > 3000000) { c.viol("liveness-calls", "no termination while stalled"); return; }
			continue;
		}
		if (r == LZMA_BUF_ERROR) {
			if (pos >= data.size()) return;        // input exhausted: the truthful answer
			if (in_n > 0 && out_n > 0) return;     // offered both, nothing possible (e.g. declared size reached)
			continue;                               // our own empty call; not fatal
		}
		if (r != LZMA_OK) return;
		if (is_mt && pos >= data.size()) sim_fair_phase();
		if (++guard > 3000000) { c.viol("liveness-calls", "no termination"); return; }
	}
}

static Bytes make_data(const Plan &plan, int entry, Chain &chain, Verdict &v, lzma_block *blk_out, lzma_filter *blk_filters, uint64_t *uncomp_size)
{
	Bytes data;
	int src = (int)plan.p("src");
	std::string err;
	Bytes plain;
	XzInfo info;
	// the single-call decoders get the artefact kind they expect
	if (entry == E_BUFFER_API) { static const int m[] = { E_STREAM, E_RAW, E_INDEX, E_BLOCK }; entry = m[plan.p("rand_seed") % 4]; }
	auto generated = [&]() {
		Bytes in = gen_input((int)plan.p("art0_class", IN_TEXT), (size_t)plan.p("art0_len", 500), (uint64_t)plan.p("art_seed", 1));
		if (uncomp_size) *uncomp_size = in.size();
		switch (entry) {
		case E_ALONE: { lzma_options_lzma lz = chain.lz; lz.preset_dict = nullptr; lz.preset_dict_size = 0; lzma_build(in, &lz, data, err); break; }
		case E_LZIP: lz_build_member(in, (int)(plan.p("art_seed") & 1), 0x0C + (uint8_t)(plan.p("art_seed") % 10), data, err); if (plan.p("art_streams", 1) > 1) lz_build_member(in, 1, 0x0D, data, err); break;
		case E_RAW: {
			lzma_stream s = LZMA_STREAM_INIT;
			if (lzma_raw_encoder(&s, chain.f) == LZMA_OK) {
				Bytes buf(65536); s.next_in = in.data(); s.avail_in = in.size();
				for (;;) { s.next_out = buf.data(); s.avail_out = buf.size(); lzma_ret r = lzma_code(&s, LZMA_FINISH); data.insert(data.end(), buf.data(), buf.data() + (buf.size() - s.avail_out)); if (r != LZMA_OK) break; }
			}
			lzma_end(&s);
			break;
		}
		case E_MICROLZMA: {
			lzma_stream s = LZMA_STREAM_INIT;
			lzma_options_lzma lz = chain.lz; lz.preset_dict = nullptr; lz.preset_dict_size = 0;
			if (lzma_microlzma_encoder(&s, &lz) == LZMA_OK) {
				Bytes buf(in.size() + 4096);
				s.next_in = in.data(); s.avail_in = in.size(); s.next_out = buf.data(); s.avail_out = buf.size();
				lzma_ret r = lzma_code(&s, LZMA_FINISH);
				if (r == LZMA_STREAM_END) { data.assign(buf.data(), buf.data() + s.total_out); if (uncomp_size) *uncomp_size = s.total_in; }
			}
			lzma_end(&s);
			break;
		}
		case E_BLOCK: case E_BLOCK_HEADER: {
			lzma_block b; memset(&b, 0, sizeof b);
			b.check = (lzma_check)plan.p("art0_check", LZMA_CHECK_CRC32); b.filters = chain.f;
			data.resize(lzma_block_buffer_bound(in.size()));
			size_t op = 0;
			if (lzma_block_buffer_encode(&b, nullptr, in.data(), in.size(), data.data(), &op, data.size()) == LZMA_OK) data.resize(op); else data.clear();
			break;
		}
		case E_FILTER_FLAGS: {
			// the Filter Flags of one filter of the chain, as they stand in a Block Header
			int nf = 0; while (chain.f[nf].id != LZMA_VLI_UNKNOWN) ++nf;
			const lzma_filter &one = chain.f[(size_t)plan.p("art_seed") % (size_t)(nf ? nf : 1)];
			uint32_t sz = 0;
			if (nf && lzma_filter_flags_size(&sz, &one) == LZMA_OK) { data.resize(sz); size_t op = 0; if (lzma_filter_flags_encode(&one, data.data(), &op, sz) != LZMA_OK) data.clear(); }
			break;
		}
		case E_INDEX: case E_INDEX_HASH: {
			lzma_index *i = lzma_index_init(nullptr);
			Rng r((uint64_t)plan.p("art_seed"));
			int n = (int)r.size_skewed(3000);
			for (int k = 0; k < n; ++k) lzma_index_append(i, nullptr, 5 + (lzma_vli)r.below(100000), (lzma_vli)r.below(1000000));
			data.resize((size_t)lzma_index_size(i)); size_t p = 0;
			lzma_index_buffer_encode(i, data.data(), &p, data.size());
			lzma_index_end(i, nullptr);
			break;
		}
		default: build_artefact(plan, data, plain, info, err); break;
		}
	};
	if (plan.p("synth_illegal", 0) && (entry == E_ALONE || entry == E_AUTO || entry == E_RAW)) {
		// a stream with one symbol whose distance reaches just outside the dictionary (model/reflzma synth)
		ref::SynthRng sr((uint64_t)plan.p("art_seed", 1));
		sr.illegal_site_target = 0; sr.illegal_kind = 0;
		Bytes pl; unsigned ft = 0;
		if (entry == E_RAW) {
			uint32_t dict = chain.lz.dict_size ? chain.lz.dict_size : 4096;
			data = ref::synth_lzma2(sr, dict, 1 + (size_t)sr.below(3), pl, &ft);
			// decode it with a plain LZMA2 chain of that dictionary size
			chain.f[0].id = LZMA_FILTER_LZMA2; chain.f[0].options = &chain.lz; chain.f[1].id = LZMA_VLI_UNKNOWN; chain.f[1].options = nullptr;
		} else data = ref::synth_alone(sr, 3, 0, 2, 1u << 16, sr.chance(500), sr.chance(500), 1 + (size_t)sr.below(300), pl, &ft);
		v.count("fault.illegal_distance_symbol", sr.illegal_emitted);
		if (uncomp_size) *uncomp_size = pl.size();
	} else if (src == 0 || src == 3) {
		generated();
		if (src == 3 && !data.empty()) {
			size_t keep = (size_t)((uint64_t)plan.p("rand_seed") % (data.size() + 1));
			data.resize(keep);
			Rng r((uint64_t)plan.p("rand_seed"));
			size_t n = (size_t)plan.p("rand_len");
			for (size_t i = 0; i < n; ++i) data.push_back((uint8_t)r.next());
		}
	} else if (src == 1) {
		auto &names = all_test_files();
		if (!names.empty()) read_test_file(names[(size_t)plan.p("file") % names.size()], data);
		if (data.size() > 300000) data.resize(300000);
	} else {
		Rng r((uint64_t)plan.p("rand_seed"));
		size_t n = (size_t)plan.p("rand_len");
		for (size_t i = 0; i < n; ++i) data.push_back((uint8_t)r.next());
	}
	for (auto &op : plan.ops) if (op.name == "sfault") apply_one_fault(op, data, &v);
	if (plan.p("fix_crc", 0) && src == 0 && !data.empty()) {
		if ((entry == E_BLOCK || entry == E_BLOCK_HEADER) && data[0] != 0) {
			size_t hs = ((size_t)data[0] + 1) * 4;
			if (hs <= data.size()) { uint32_t c = lzma_crc32(data.data(), hs - 4, 0); for (int i = 0; i < 4; ++i) data[hs - 4 + (size_t)i] = (uint8_t)(c >> (8 * i)); v.count("fault.header_crc_recomputed"); }
		} else if ((entry == E_INDEX || entry == E_INDEX_HASH) && data.size() >= 8 && data.size() % 4 == 0) {
			uint32_t c = lzma_crc32(data.data(), data.size() - 4, 0); for (int i = 0; i < 4; ++i) data[data.size() - 4 + (size_t)i] = (uint8_t)(c >> (8 * i)); v.count("fault.index_crc_recomputed");
		}
	}
	(void)blk_out; (void)blk_filters;
	return data;
}

static void c04_exec_once(const Plan &plan, Verdict &v, uint64_t *digest);

static void c04_exec(const Plan &plan, Verdict &v)
{
	uint64_t d1 = 0, d2 = 0;
	SimAlloc::poison_byte = 0xA5;
	c04_exec_once(plan, v, &d1);
	int entry = (int)plan.p("entry") % E_COUNT;
	bool st_stream = entry == E_STREAM || entry == E_AUTO || entry == E_ALONE || entry == E_LZIP || entry == E_MICROLZMA || entry == E_RAW || entry == E_BLOCK;
	bool small_format = entry == E_LZIP || entry == E_ALONE || entry == E_AUTO || entry == E_MICROLZMA;
	if (v.ok && st_stream && d1 != 0 && (small_format || plan.p("rand_seed") % 2 == 0)) {
		// poison differential (stands in for MSan): the same decode with fresh allocations filled with
		// another byte must deliver the same bytes and the same final status
		Verdict v2;
		SimAlloc::poison_byte = 0x00;   // the "lucky" case of a fresh heap: zeros
		c04_exec_once(plan, v2, &d2);
		SimAlloc::poison_byte = 0xA5;
		v.count("oracle.poison_differential_runs");
		if (v2.ok && d2 != d1) v.fail("uninitialised-memory-in-output", "C04/uninitialised-memory-in-output", fmt("the decoder's output or final status depends on the contents of freshly allocated memory [%s]", e_names[entry]));
	}
}

static void c04_exec_once(const Plan &plan, Verdict &v, uint64_t *digest)
{
	int entry = (int)plan.p("entry") % E_COUNT;
	Ctx c; c.v = &v; c.entry = e_names[entry];
	Chain chain;
	chain_from_plan(plan, chain);
	uint64_t uncomp = 0;
	Bytes data = make_data(plan, entry, chain, v, nullptr, nullptr, &uncomp);
	int64_t mlp = plan.p("memlimit", -1);
	uint64_t memlimit = mlp < 0 ? UINT64_MAX : (uint64_t)mlp;
	uint32_t flags = (uint32_t)plan.p("flags");
	const lzma_allocator *al = &c.al.a;
	v.count("runs.total");
	v.count(std::string("entry.") + e_names[entry]);
	v.count(fmt("src.%d", (int)plan.p("src")));

	lzma_stream s = LZMA_STREAM_INIT;
	s.allocator = al;
	lzma_index *idx = nullptr;
	lzma_ret r = LZMA_OK;
	bool streaming = true, is_mt = false, seek = false;
	lzma_mt mt; memset(&mt, 0, sizeof mt);
	lzma_block blk; memset(&blk, 0, sizeof blk);
	lzma_filter bf[LZMA_FILTERS_MAX + 1];
	for (auto &f : bf) { f.id = LZMA_VLI_UNKNOWN; f.options = nullptr; }
	Bytes body;
	switch (entry) {
	case E_STREAM: r = lzma_stream_decoder(&s, memlimit, flags & ~(uint32_t)LZMA_FAIL_FAST); break;
	case E_MT:
		mt.flags = flags; mt.threads = (uint32_t)plan.p("threads", 2); mt.timeout = (uint32_t)plan.p("timeout", 0);
		mt.memlimit_stop = memlimit; mt.memlimit_threading = plan.p("memlimit_threading", -1) < 0 ? UINT64_MAX : 1;
		r = lzma_stream_decoder_mt(&s, &mt); is_mt = true; break;
	case E_AUTO: r = lzma_auto_decoder(&s, memlimit, flags & ~(uint32_t)LZMA_FAIL_FAST); break;
	case E_ALONE: r = lzma_alone_decoder(&s, memlimit); break;
	case E_LZIP: r = lzma_lzip_decoder(&s, memlimit, flags & ~(uint32_t)LZMA_FAIL_FAST); break;
	case E_MICROLZMA: {
		// parameters are part of the (possibly hostile) container: vary them
		Rng pr((uint64_t)plan.p("rand_seed"));
		uint64_t comp = pr.chance(600) ? data.size() : pr.below(data.size() + 10);
		uint64_t us = pr.chance(600) ? uncomp : pr.below(uncomp * 2 + 10);
		r = lzma_microlzma_decoder(&s, comp, us, pr.chance(500), pr.chance(700) ? chain.lz.dict_size : (uint32_t)pr.below(1 << 22));
		break;
	}
	case E_RAW: r = lzma_raw_decoder(&s, chain.f); break;
	case E_BLOCK: {
		if (data.empty()) return;
		blk.version = 1; blk.check = (lzma_check)plan.p("art0_check", LZMA_CHECK_CRC32); blk.filters = bf;
		blk.header_size = lzma_block_header_size_decode(data[0]);
		if (data[0] == 0 || blk.header_size > data.size()) { v.count("runs.header_unreadable"); return; }
		Bytes hdr(data.begin(), data.begin() + blk.header_size);   // exact-size copy: over-reads are ASan reports
		uint64_t before = c.al.failures; (void)before;
		r = lzma_block_header_decode(&blk, al, hdr.data());
		if (r != LZMA_OK) { if (!ret_is_public(r)) c.viol("internal-ret", "block_header_decode"); streaming = false; break; }
		body.assign(data.begin() + blk.header_size, data.end());
		r = lzma_block_decoder(&s, &blk);
		break;
	}
	case E_INDEX: r = lzma_index_decoder(&s, &idx, memlimit); break;
	case E_FILE_INFO: r = lzma_file_info_decoder(&s, &idx, memlimit, data.size()); seek = true; break;
	default: streaming = false; break;
	}
	if (streaming) {
		if (r == LZMA_OK) drive_stream(c, &s, entry == E_BLOCK ? body : data, plan, is_mt, seek, data.size());
		else if (!ret_is_public(r)) c.viol("internal-ret", fmt("init returned %d", (int)r));
		if (digest) *digest = mix64(mix64(c.out_digest, c.out_len), (uint64_t)(c.last_status + 2)) | 1;
		lzma_end(&s);
		lzma_index_end(idx, al);
		lzma_filters_free(bf, al);
	} else if (entry == E_BLOCK) {
		lzma_end(&s);
		lzma_filters_free(bf, al);
	} else switch (entry) {
	case E_BLOCK_HEADER: {
		if (data.empty()) break;
		blk.version = (uint32_t)(plan.p("rand_seed") & 1); blk.check = (lzma_check)(plan.p("rand_seed") % 16); blk.filters = bf;
		blk.header_size = lzma_block_header_size_decode(data[0]);
		if (data[0] == 0 || blk.header_size > data.size()) { v.count("runs.header_unreadable"); break; }
		Bytes hdr(data.begin(), data.begin() + blk.header_size);
		r = lzma_block_header_decode(&blk, al, hdr.data());
		if (!ret_is_public(r)) c.viol("internal-ret", "lzma_block_header_decode");
		if (r == LZMA_OK) {
			// derived sizes must be computable without overflow
			(void)lzma_block_unpadded_size(&blk);
			(void)lzma_block_total_size(&blk);
			if (blk.compressed_size != LZMA_VLI_UNKNOWN) (void)lzma_block_compressed_size(&blk, lzma_block_unpadded_size(&blk));
			v.count("reach.header_accepted");
		} else {
			for (int k = 0; k <= LZMA_FILTERS_MAX; ++k) if (bf[k].options != nullptr) { c.viol("out-param", "failed lzma_block_header_decode left filter options allocated"); break; }
		}
		lzma_filters_free(bf, al);
		break;
	}
	case E_STREAM_FLAGS: {
		if (data.size() < LZMA_STREAM_HEADER_SIZE) data.resize(LZMA_STREAM_HEADER_SIZE, 0);
		lzma_stream_flags a, b;
		Bytes h(data.begin(), data.begin() + LZMA_STREAM_HEADER_SIZE), f(data.end() - LZMA_STREAM_HEADER_SIZE, data.end());
		lzma_ret r1 = lzma_stream_header_decode(&a, h.data()), r2 = lzma_stream_footer_decode(&b, f.data());
		if (!ret_is_public(r1) || !ret_is_public(r2)) c.viol("internal-ret", "stream flags decode");
		if (r1 == LZMA_OK && r2 == LZMA_OK) { lzma_ret r3 = lzma_stream_flags_compare(&a, &b); if (!ret_is_public(r3)) c.viol("internal-ret", "flags compare"); v.count("reach.flags_accepted"); }
		break;
	}
	case E_FILTER_FLAGS: {
		lzma_filter one; one.id = 0; one.options = nullptr;
		Bytes buf = data;   // exact size
		size_t ip = 0;
		r = buf.empty() ? LZMA_OK : lzma_filter_flags_decode(&one, al, buf.data(), &ip, buf.size());
		if (!ret_is_public(r)) c.viol("internal-ret", "lzma_filter_flags_decode");
		if (r == LZMA_OK && !buf.empty()) {
			if (ip > buf.size()) c.viol("accounting", "filter_flags_decode advanced beyond the buffer");
			uint32_t sz = 0;
			(void)lzma_filter_flags_size(&sz, &one);
			if (one.options) c.al.a.free(c.al.a.opaque, one.options);
			v.count("reach.filter_flags_accepted");
		} else if (one.options != nullptr) c.viol("out-param", "failed lzma_filter_flags_decode left options set");
		// properties_decode with every filter id we know
		static const lzma_vli ids[] = { LZMA_FILTER_LZMA1, LZMA_FILTER_LZMA2, LZMA_FILTER_DELTA, LZMA_FILTER_X86, LZMA_FILTER_ARM64, LZMA_FILTER_RISCV, 0x12345 };
		lzma_filter pf; pf.id = ids[(size_t)plan.p("rand_seed") % 7]; pf.options = nullptr;
		size_t n = std::min<size_t>(buf.size(), (size_t)plan.p("rand_len") % 8);
		Bytes props(buf.begin(), buf.begin() + (long)n);
		r = lzma_properties_decode(&pf, al, props.data(), props.size());
		if (!ret_is_public(r)) c.viol("internal-ret", "lzma_properties_decode");
		if (r == LZMA_OK && pf.options) c.al.a.free(c.al.a.opaque, pf.options);
		else if (r != LZMA_OK && pf.options) c.viol("out-param", "failed lzma_properties_decode left options set");
		if (plan.p("rand_seed") % 3 == 0) {
			// every value of the first properties byte of every filter (rest: seeded), directly and as Filter Flags
			Rng pr((uint64_t)plan.p("rand_seed"));
			for (int fi = 0; fi < 6; ++fi) for (int b0 = 0; b0 < 256; ++b0) {
				uint8_t pb[8] = { (uint8_t)b0, (uint8_t)pr.next(), (uint8_t)pr.next(), (uint8_t)pr.next(), (uint8_t)pr.next(), 0, 0, 0 };
				size_t plen = ids[fi] == LZMA_FILTER_LZMA1 ? 5 : (ids[fi] == LZMA_FILTER_LZMA2 || ids[fi] == LZMA_FILTER_DELTA) ? 1 : 4;
				lzma_filter q; q.id = ids[fi]; q.options = nullptr;
				lzma_ret r3 = lzma_properties_decode(&q, al, pb, plen);
				if (!ret_is_public(r3)) c.viol("internal-ret", "lzma_properties_decode");
				if (r3 == LZMA_OK && q.options) c.al.a.free(c.al.a.opaque, q.options);
				else if (r3 != LZMA_OK && q.options) { c.viol("out-param", "failed lzma_properties_decode left options set"); break; }
				uint8_t ff[16]; size_t n2 = 0;
				lzma_vli id = ids[fi]; while (id >= 0x80) { ff[n2++] = (uint8_t)(id | 0x80); id >>= 7; } ff[n2++] = (uint8_t)id;
				ff[n2++] = (uint8_t)plen; memcpy(ff + n2, pb, plen); n2 += plen;
				Bytes exact(ff, ff + n2);
				lzma_filter q2; q2.id = 0; q2.options = nullptr; size_t ip2 = 0;
				lzma_ret r4 = lzma_filter_flags_decode(&q2, al, exact.data(), &ip2, exact.size());
				if (!ret_is_public(r4)) c.viol("internal-ret", "lzma_filter_flags_decode");
				if (r4 == LZMA_OK && q2.options) c.al.a.free(c.al.a.opaque, q2.options);
				else if (r4 != LZMA_OK && q2.options) { c.viol("out-param", "failed lzma_filter_flags_decode left options set"); break; }
				if (c.al.cur != 0) { c.viol("leak", fmt("properties byte 0x%02x of filter 0x%llx: %llu bytes not returned to the allocator", b0, (unsigned long long)ids[fi], (unsigned long long)c.al.cur)); c.al.purge(); break; }
			}
			v.count("reach.properties_first_byte_sweep");
		}
		break;
	}
	case E_FILTER_STRING: {
		// mutate a valid filter string, or random printable bytes
		static const char *valid[] = { "x86:start=4096 delta:dist=7 lzma2:dict=64KiB,lc=2,lp=1,pb=1,mode=fast,nice=33,mf=hc4,depth=9",
			"arm64 lzma2:preset=3", "6e", "lzma1:dict=8KiB,lc=3", "riscv:start=16--delta:dist=256--lzma2:preset=1,dict=1MiB",
			"powerpc--ia64--arm--lzma2:preset=9e,dict=1536MiB", "lzma2:dict=4GiB", "0 1", "armthumb:start=0xFFFFFFFE lzma2" };
		Rng pr((uint64_t)plan.p("rand_seed"));
		std::string str = valid[pr.below(9)];
		int nm = (int)pr.below(5);
		static const char alphabet[] = "0123456789abcdefghijklmnopqrstuvwxyzKMGiB:=,- \t.x";
		for (int i = 0; i < nm && !str.empty(); ++i) {
			size_t p = (size_t)pr.below(str.size());
			switch (pr.below(3)) {
			case 0: str[p] = alphabet[pr.below(sizeof(alphabet) - 1)]; break;
			case 1: str.insert(p, 1, alphabet[pr.below(sizeof(alphabet) - 1)]); break;
			default: str.erase(p, 1 + (size_t)pr.below(3)); break;
			}
		}
		if (plan.p("src") == 2) { str.clear(); for (size_t i = 0; i < data.size() && i < 200; ++i) str.push_back((char)(data[i] % 127 ? data[i] % 127 : 'x')); }
		lzma_filter f[LZMA_FILTERS_MAX + 1];
		int errpos = -7;
		uint32_t sflags = (uint32_t)pr.below(2) * LZMA_STR_ALL_FILTERS | (uint32_t)pr.below(2) * LZMA_STR_NO_VALIDATION;
		char *heap = strdup(str.c_str());   // exact-size heap copy
		const char *msg = lzma_str_to_filters(heap, &errpos, f, sflags, al);
		if (msg == nullptr) {
			v.count("reach.filter_string_accepted");
			char *out = nullptr;
			lzma_ret r2 = lzma_str_from_filters(&out, f, LZMA_STR_ENCODER | LZMA_STR_GETOPT_LONG, al);
			if (!ret_is_public(r2)) c.viol("internal-ret", "lzma_str_from_filters");
			if (out) c.al.a.free(c.al.a.opaque, out);
			lzma_filters_free(f, al);
		} else if (errpos < 0 || (size_t)errpos > str.size()) c.viol("errpos", fmt("lzma_str_to_filters error position %d outside the string of length %zu", errpos, str.size()));
		free(heap);
		break;
	}
	case E_BUFFER_API: {
		Bytes in = data;
		Bytes out((size_t)plan.p("rand_len") + 1);
		size_t ip = 0, op = 0;
		uint64_t ml = memlimit;
		switch (plan.p("rand_seed") % 4) {
		case 0: r = lzma_stream_buffer_decode(&ml, flags & ~(uint32_t)(LZMA_FAIL_FAST), al, in.data(), &ip, in.size(), out.data(), &op, out.size()); break;
		case 1: r = lzma_raw_buffer_decode(chain.f, al, in.data(), &ip, in.size(), out.data(), &op, out.size()); break;
		case 2: { lzma_index *i2 = nullptr; r = lzma_index_buffer_decode(&i2, &ml, al, in.data(), &ip, in.size()); if (r == LZMA_OK) lzma_index_end(i2, al); else if (i2) c.viol("out-param", "index left set"); break; }
		default: {
			if (in.empty() || in[0] == 0) break;
			blk.version = 1; blk.check = LZMA_CHECK_CRC32; blk.filters = bf;
			blk.header_size = lzma_block_header_size_decode(in[0]);
			if (blk.header_size > in.size()) break;
			r = lzma_block_header_decode(&blk, al, in.data());
			if (r == LZMA_OK) { ip = blk.header_size; r = lzma_block_buffer_decode(&blk, al, in.data(), &ip, in.size(), out.data(), &op, out.size()); }
			lzma_filters_free(bf, al);
			break;
		}
		}
		if (!ret_is_public(r)) c.viol("internal-ret", fmt("buffer API returned %d", (int)r));
		if (ip > in.size() || op > out.size()) c.viol("accounting", "buffer API position beyond the buffer");
		if (r != LZMA_OK && r != LZMA_NO_CHECK && r != LZMA_UNSUPPORTED_CHECK && (plan.p("rand_seed") % 4) != 2 && op != 0 && (plan.p("rand_seed") % 4) == 0)
			c.viol("out-pos", "failed lzma_stream_buffer_decode advanced *out_pos");
		break;
	}
	case E_INDEX_HASH: {
		lzma_index_hash *h = lzma_index_hash_init(nullptr, al);
		if (!h) break;
		Rng pr((uint64_t)plan.p("rand_seed"));
		int n = (int)pr.below(50);
		for (int k = 0; k < n; ++k) { lzma_ret r2 = lzma_index_hash_append(h, (lzma_vli)pr.next() >> (pr.below(60)), (lzma_vli)pr.next() >> pr.below(60)); if (!ret_is_public(r2)) c.viol("internal-ret", "index_hash_append"); if (r2 != LZMA_OK) break; }
		size_t ip = 0;
		Bytes in = data;
		size_t step = 1 + (size_t)pr.below(50);
		uint64_t guard = 0;
		for (;;) {
			size_t lim = std::min(in.size(), ip + step);
			lzma_ret r2 = lzma_index_hash_decode(h, in.data(), &ip, lim);
			if (!ret_is_public(r2)) { c.viol("internal-ret", "index_hash_decode"); break; }
			if (r2 != LZMA_OK) break;
			if (lim == in.size() && ip == lim) break;
			if (++guard > 1000000) { c.viol("liveness-calls", "index_hash_decode loops"); break; }
		}
		lzma_index_hash_end(h, al);
		break;
	}
	default: break;
	}
	if (!v.ok) return;
	if (!c.al.misuse.empty()) { c.viol("alloc-misuse", c.al.misuse); return; }
	if (c.al.cur != 0) { c.viol("leak", fmt("%llu bytes in %zu blocks still allocated at the end", (unsigned long long)c.al.cur, c.al.live.size())); c.al.purge(); return; }
	v.feature(mix64(fnv_str(plan.to_text(false)), (uint64_t)entry));
	v.feature2(mix64((uint64_t)entry, mix64((uint64_t)plan.p("src"), mix64((uint64_t)r, plan.p("stall_after", -1) >= 0))));
}

REGISTER_SCENARIO(c04_main, "C04", "hostile_input", 100, 100, c04_gen, c04_exec, true);

} // namespace
