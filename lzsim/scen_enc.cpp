// Encoder sessions: one executor shared by C01 (lossless), C06 (slicing and
// schedule independence, deterministic output), C08 (threaded encoder) and
// C12 (flush durability, mid-stream option changes). A session is a history
// of client operations on one lzma_stream:
//   feed n in_each out_each      offer the next n input bytes with LZMA_RUN
//   flush kind n in_each out_each  offer n more bytes and complete a flush
//                                (kind = LZMA_SYNC_FLUSH / FULL_FLUSH / FULL_BARRIER)
//   update lc lp pb | chain2     lzma_filters_update()
//   progress                     lzma_get_progress()
//   finish in_each out_each      rest of the input with LZMA_FINISH
// Oracles: see the per-check comments below and DESIGN.md section 6.
#include "core.hpp"
#include "session.hpp"
#include <algorithm>
#include "xzutil.hpp"
#include "../model/refxz.hpp"
#include "../model/refbcj.hpp"
#include "../model/refcheck.hpp"

enum { EK_STREAM_MT = 0, EK_STREAM_ST, EK_EASY, EK_ALONE, EK_RAW, EK_COUNT };

struct FlushPoint { size_t in_off; size_t out_len; int kind; };

struct EncResult {
	Bytes out;
	lzma_ret status = LZMA_OK;
	std::vector<FlushPoint> acks;      // flushes acknowledged with STREAM_END
	std::vector<size_t> full_offsets;  // input offsets of completed full flushes/barriers
	std::string error, error_cls;
	bool ended_early = false;
	bool refused = false;              // a flush/update was refused and the session stopped
	uint64_t final_block_size = 0;     // Block size after a re-initialisation that changed it
	bool delayed_refusal = false;      // the threaded encoder said LZMA_OK to a chain it can only refuse later
	uint64_t calls = 0;
	uint64_t max_progress_out = 0;
	size_t consumed = 0;
	uint64_t updates_ok = 0, updates_refused = 0, chain_changes = 0;
};

struct EncSetup {
	int kind;
	Chain chain, chain2;
	lzma_mt mt;
	lzma_check check;
	uint32_t preset;
	bool use_preset;
};

static void setup_from_plan(const Plan &plan, EncSetup &es, bool canonical)
{
	es.kind = (int)plan.p("enc_kind", EK_STREAM_MT);
	chain_from_plan(plan, es.chain);
	es.check = (lzma_check)plan.p("check", LZMA_CHECK_CRC32);
	es.use_preset = plan.p("use_preset", 0) != 0;
	es.preset = (uint32_t)plan.p("preset", 1);
	memset(&es.mt, 0, sizeof es.mt);
	es.mt.threads = canonical ? 1 : (uint32_t)plan.p("threads", 2);
	if (es.mt.threads < 1) es.mt.threads = 1;
	if (es.mt.threads > 16) es.mt.threads = 16;
	es.mt.block_size = (uint64_t)plan.p("block_size", 4096);
	es.mt.timeout = canonical ? 0 : (uint32_t)plan.p("timeout", 0);
	es.mt.check = es.check;
	if (es.use_preset) es.mt.preset = es.preset;
	else es.mt.filters = es.chain.f;
}

static lzma_ret enc_init(lzma_stream *s, EncSetup &es)
{
	switch (es.kind) {
	case EK_STREAM_MT: return lzma_stream_encoder_mt(s, &es.mt);
	case EK_STREAM_ST: return lzma_stream_encoder(s, es.chain.f, es.check);
	case EK_EASY: return lzma_easy_encoder(s, es.preset, es.check);
	case EK_ALONE: return lzma_alone_encoder(s, &es.chain.lz);
	case EK_RAW: return lzma_raw_encoder(s, es.chain.f);
	default: return LZMA_PROG_ERROR;
	}
}

// Decode `data` with the decoder matching the encoder kind. run_only: the
// data is a prefix cut at a flush point, so the decoder is not told that the
// input ends.
static DecResult dec_matching(const EncSetup &es, const Bytes &data, bool run_only, const lzma_allocator *al)
{
	if (es.kind == EK_RAW) {
		DecResult res;
		lzma_stream s = LZMA_STREAM_INIT;
		s.allocator = al;
		lzma_ret r = lzma_raw_decoder(&s, const_cast<lzma_filter *>(es.chain.f));
		if (r != LZMA_OK) { res.status = r; return res; }
		Bytes buf(1 << 16);
		s.next_in = data.data(); s.avail_in = data.size();
		int stuck = 0;
		for (;;) {
			s.next_out = buf.data(); s.avail_out = buf.size();
			size_t before = s.avail_in;
			r = lzma_code(&s, run_only ? LZMA_RUN : LZMA_FINISH);
			size_t made = buf.size() - s.avail_out;
			res.out.insert(res.out.end(), buf.data(), buf.data() + made);
			if (r != LZMA_OK) break;
			if (made == 0 && before == s.avail_in) { if (++stuck > 3) break; } else stuck = 0;
		}
		res.status = r;
		res.total_in = s.total_in;
		lzma_end(&s);
		return res;
	}
	return decode_st(es.kind == EK_ALONE ? 2 : 0, data, 0, UINT64_MAX, !run_only, al);
}

static void run_session(const Plan &plan, const Bytes &input, bool canonical, SimAlloc &al, EncResult &res, Verdict &v)
{
	EncSetup es;
	setup_from_plan(plan, es, canonical);
	chain_from_plan(plan, es.chain2);
	Session ss(&al.a);
	ss.set_input(&input);
	ss.in_limit = 0;
	lzma_ret r = enc_init(&ss.s, es);
	if (r != LZMA_OK) { res.status = r; res.error = fmt("encoder init returned %s", ret_name(r)); res.error_cls = "init"; ss.end(); return; }

	int64_t end_after = (!canonical && plan.hasp("end_after_calls")) ? plan.p("end_after_calls") : -1;
	int64_t reinit_after = (!canonical && plan.hasp("reinit_after_calls")) ? plan.p("reinit_after_calls") : -1;
	bool did_reinit = false;
	bool finished = false;
	uint64_t prog_in = 0, prog_out = 0;
	bool is_stream = es.kind == EK_STREAM_MT || es.kind == EK_STREAM_ST || es.kind == EK_EASY;

	auto check_progress = [&]() {
		uint64_t pi = 0, po = 0;
		lzma_get_progress(&ss.s, &pi, &po);
		if (res.error.empty()) {
			if (pi < prog_in || po < prog_out) { res.error = fmt("progress went backwards: in %llu->%llu out %llu->%llu", (unsigned long long)prog_in, (unsigned long long)pi, (unsigned long long)prog_out, (unsigned long long)po); res.error_cls = "progress"; }
			else if (pi > ss.s.total_in) { res.error = fmt("progress_in %llu exceeds total_in %llu", (unsigned long long)pi, (unsigned long long)ss.s.total_in); res.error_cls = "progress"; }
		}
		prog_in = pi; prog_out = po;
		if (po > res.max_progress_out) res.max_progress_out = po;
	};

	Chain *cur_chain = es.use_preset ? nullptr : &es.chain;   // the chain the encoder is using now (changed by accepted updates; unknown while a preset is in use)
	int64_t upd_calls_left = canonical ? 0 : plan.p("same_chain_updates", 0), next_upd_call = plan.p("same_chain_update_first", 0);
	// returns 0 to go on, 1 when the session is over
	auto interrupt = [&]() -> int {
		if (end_after >= 0 && (int64_t)ss.calls >= end_after) { res.ended_early = true; v.count("reach.early_end"); return 1; }
		if (reinit_after >= 0 && !did_reinit && (int64_t)ss.calls >= reinit_after) {
			did_reinit = true;
			v.count("reach.reinit");
			// re-initialise without lzma_end: with a different thread count to
			// exercise both the thread-reuse and the thread-restart paths
			if (plan.p("reinit_threads", 0) > 0) es.mt.threads = (uint32_t)plan.p("reinit_threads");
			// ... and with another Block size (the workers' input buffers were sized for the old one)
			if (plan.p("reinit_block_size", 0) > 0) es.mt.block_size = (uint64_t)plan.p("reinit_block_size");
			lzma_ret r2 = enc_init(&ss.s, es);
			if (r2 != LZMA_OK) { res.status = r2; res.error = fmt("re-init returned %s", ret_name(r2)); res.error_cls = "init"; return 1; }
			cur_chain = es.use_preset ? nullptr : &es.chain;
			res.final_block_size = es.mt.block_size;
			ss.in_pos = 0; ss.in_limit = 0; ss.out.clear(); res.acks.clear(); res.full_offsets.clear();
			prog_in = prog_out = 0; res.max_progress_out = 0;
			return 2;   // restart the op list
		}
		// lzma_filters_update() with the chain already in use, between two lzma_code() calls of one
		// segment (e.g. while all workers are busy and a copy of the chain waits for the next one):
		// accepted or refused, it must not change the output, leak, or disturb anything
		if (es.kind == EK_STREAM_MT && cur_chain && upd_calls_left > 0 && (int64_t)ss.calls >= next_upd_call) {
			--upd_calls_left;
			next_upd_call = (int64_t)ss.calls + 1 + plan.p("same_chain_update_gap", 3);
			lzma_ret ur = lzma_filters_update(&ss.s, cur_chain->f);
			v.count(ur == LZMA_OK ? "reach.same_chain_update_between_calls_ok" : "reach.same_chain_update_between_calls_refused");
			if (ur != LZMA_OK && ur != LZMA_PROG_ERROR && ur != LZMA_OPTIONS_ERROR && ur != LZMA_MEM_ERROR) { res.error = fmt("filters_update returned %s", ret_name(ur)); res.error_cls = "update-status"; return 1; }
		}
		return 0;
	};

	// drive one action until its segment is done. Returns false when the
	// session cannot go on.
	auto drive = [&](lzma_action act, size_t in_each, size_t out_each, int &intr) -> bool {
		if (canonical) { in_each = (size_t)-1; out_each = 1 << 16; }
		if (in_each < 1) in_each = 1;
		uint64_t guard = 0;
		for (;;) {
			intr = interrupt();
			if (intr) return false;
			size_t in_n = act == LZMA_RUN ? in_each : ss.in_left();
			lzma_ret rr = ss.step(in_n, out_each, act);
			if (!ret_is_public(rr)) { res.error = fmt("internal status %d leaked", (int)rr); res.error_cls = "internal-ret"; return false; }
			// (after a fatal status the handle is dead and the property says nothing about its progress figures)
			if (plan.p("poll_progress", 0) && (rr == LZMA_OK || rr == LZMA_STREAM_END || rr == LZMA_BUF_ERROR || (int)rr == 101 /* LZMA_TIMED_OUT (internal value; public calls see LZMA_OK) */)) check_progress();
			if (rr == LZMA_STREAM_END) { res.status = rr; return true; }
			if (rr == LZMA_BUF_ERROR && out_each == 0) continue;   // our own stall; not fatal
			if (rr != LZMA_OK) { res.status = rr; return false; }
			if (act == LZMA_RUN && ss.in_left() == 0) return true;
			if (sim_in_fair_phase()) {
				if (++guard > 200000 + 16 * (input.size() + 1)) { res.error = fmt("no termination of action %d after %llu calls in the fair phase", (int)act, (unsigned long long)guard); res.error_cls = "liveness-calls"; return false; }
			}
		}
	};

restart:
	for (size_t oi = 0; oi < plan.ops.size() && !finished; ++oi) {
		const Op &op = plan.ops[oi];
		int intr = 0;
		size_t in_each = (size_t)op.get("in_each", 4096), out_each = (size_t)op.get("out_each", 4096);
		if (op.name == "feed") {
			size_t n = (size_t)op.get("n");
			ss.in_limit = std::min(input.size(), ss.in_pos + n);
			if (ss.in_left() == 0) continue;
			if (!drive(LZMA_RUN, in_each, out_each ? out_each : 1, intr)) { if (intr == 2) goto restart; break; }
		} else if (op.name == "flush") {
			size_t n = (size_t)op.get("n");
			lzma_action act = (lzma_action)op.get("kind", LZMA_FULL_FLUSH);
			if (act != LZMA_SYNC_FLUSH && act != LZMA_FULL_FLUSH && act != LZMA_FULL_BARRIER) continue;
			ss.in_limit = std::min(input.size(), ss.in_pos + n);
			size_t target = ss.in_limit;
			bool ok = drive(act, in_each, out_each ? out_each : 1, intr);
			if (intr == 2) goto restart;
			if (!ok) {
				if (intr) break;
				if (res.status == LZMA_OPTIONS_ERROR && act == LZMA_SYNC_FLUSH) { res.refused = true; v.count("reach.sync_flush_refused"); }
				break;
			}
			if (ss.in_pos != target) { res.error = fmt("flush returned STREAM_END with %zu bytes of its input unconsumed", target - ss.in_pos); res.error_cls = "flush-consumed"; break; }
			// LZMA_FULL_BARRIER only ends the Block; it does not promise that
			// the output has been delivered, so it is not a durability point.
			if (act != LZMA_FULL_BARRIER) res.acks.push_back({ ss.in_pos, ss.out.size(), (int)act });
			if (act != LZMA_SYNC_FLUSH) res.full_offsets.push_back(ss.in_pos);
			v.count(act == LZMA_SYNC_FLUSH ? "reach.sync_flush_ack" : act == LZMA_FULL_FLUSH ? "reach.full_flush_ack" : "reach.full_barrier_ack");
		} else if (op.name == "update") {
			if (es.kind != EK_STREAM_MT && es.kind != EK_STREAM_ST && es.kind != EK_RAW) continue;
			Chain *c = &es.chain;
			lzma_filter *f = es.chain.f;
			Chain saved_chain2 = es.chain2;   // restored on refusal: the encoder may still be using the old contents
			if (op.get("chain2")) {
				// switch to the alternative chain (different shape)
				c = &es.chain2;
				c->lz = es.chain.lz;
				int n = 0;
				if (!es.chain.has_bcj && !es.chain.lzma1) { c->delta.type = LZMA_DELTA_TYPE_BYTE; c->delta.dist = 1 + (uint32_t)op.get("dist", 1) % 256; c->f[n].id = LZMA_FILTER_DELTA; c->f[n].options = &c->delta; ++n; }
				c->f[n].id = LZMA_FILTER_LZMA2; c->f[n].options = &c->lz; ++n;
				c->f[n].id = LZMA_VLI_UNKNOWN; c->f[n].options = nullptr;
				f = c->f;
			}
			if (int bad = (int)op.get("bad", 0)) {
				// a chain the encoder must refuse, whenever it is offered; the
				// encoder has to go on with the chain it had
				Chain b;
				b.lz = es.chain.lz; b.lz.preset_dict = nullptr; b.lz.preset_dict_size = 0;
				b.bcj.start_offset = 0; b.delta.type = LZMA_DELTA_TYPE_BYTE; b.delta.dist = 1;
				int n = 0;
				lzma_vli last = es.chain.lzma1 ? LZMA_FILTER_LZMA1 : LZMA_FILTER_LZMA2;
				switch (bad) {
				case 1: b.lz.lc = 4; b.lz.lp = 1; break;
				case 2: b.lz.dict_size = 100; break;
				case 3: b.bcj.start_offset = 2; b.f[n].id = LZMA_FILTER_ARM; b.f[n].options = &b.bcj; ++n; break;   // passes the memory-usage validation, fails in the filter's init
				case 4: b.bcj.start_offset = 1 + 2 * (uint32_t)op.get("dist", 1); b.f[n].id = LZMA_FILTER_ARM64; b.f[n].options = &b.bcj; ++n; break;
				case 5: b.delta.dist = 257; b.f[n].id = LZMA_FILTER_DELTA; b.f[n].options = &b.delta; ++n; break;
				case 6: b.lz.nice_len = 1; break;
				case 7: b.lz.mf = (lzma_match_finder)0x55; break;
				case 8: b.f[n].id = 0x4000000000000123ull; b.f[n].options = nullptr; ++n; break;
				case 9: b.f[n].id = last; b.f[n].options = &b.lz; ++n; break;   // LZMA2 twice: only valid as the last filter
				default: b.bcj.start_offset = 3; b.f[n].id = LZMA_FILTER_POWERPC; b.f[n].options = &b.bcj; ++n; break;
				}
				b.f[n].id = last; b.f[n].options = &b.lz; ++n;
				b.f[n].id = LZMA_VLI_UNKNOWN; b.f[n].options = nullptr;
				lzma_ret ur = lzma_filters_update(&ss.s, b.f);
				v.count("reach.filters_update_bad_chain_offered");
				// Mid-Block only LZMA2's lc/lp/pb are looked at and everything else in
				// the offered chain is ignored by design, so LZMA_OK is an error only
				// for the kinds that are invalid in that reading too.
				if (ur == LZMA_OK && (bad == 1 || bad == 8)) { res.error = fmt("lzma_filters_update accepted an invalid chain (kind %d)", bad); res.error_cls = "bad-update-accepted"; break; }
				// The threaded encoder validates a new chain only roughly (memory-usage
				// calculation) and reports the rest from a later lzma_code() - the
				// documented "delayed error" of lzma_stream_encoder_mt(); that late
				// LZMA_OPTIONS_ERROR is the refusal.
				if (ur == LZMA_OK && es.kind == EK_STREAM_MT) { res.delayed_refusal = true; upd_calls_left = 0; v.count("reach.filters_update_bad_chain_delayed_refusal"); continue; }
				if (ur == LZMA_OK) { v.count("reach.filters_update_bad_chain_ignored_midblock"); continue; }
				if (ur != LZMA_OPTIONS_ERROR && ur != LZMA_PROG_ERROR && ur != LZMA_MEM_ERROR) { res.error = fmt("filters_update returned %s", ret_name(ur)); res.error_cls = "update-status"; break; }
				++res.updates_refused;
				continue;
			}
			lzma_options_lzma saved = c->lz;
			if (op.has("lc")) { c->lz.lc = (uint32_t)op.get("lc"); c->lz.lp = (uint32_t)op.get("lp"); c->lz.pb = (uint32_t)op.get("pb"); }
			if (op.has("dict")) c->lz.dict_size = (uint32_t)op.get("dict");
			if (op.has("mf")) { c->lz.mf = (lzma_match_finder)op.get("mf"); if (c->lz.nice_len < 4) c->lz.nice_len = 4; }
			lzma_ret ur = lzma_filters_update(&ss.s, f);
			if (ur == LZMA_OK) { ++res.updates_ok; v.count("reach.filters_update_ok"); cur_chain = c; if (c != &es.chain) { ++res.chain_changes; v.count("reach.chain_changed"); } }
			else {
				++res.updates_refused; v.count("reach.filters_update_refused");
				c->lz = saved;
				if (c == &es.chain2) es.chain2 = saved_chain2;
				if (ur != LZMA_OPTIONS_ERROR && ur != LZMA_PROG_ERROR && ur != LZMA_MEM_ERROR) { res.error = fmt("filters_update returned %s", ret_name(ur)); res.error_cls = "update-status"; break; }
			}
		} else if (op.name == "progress") {
			check_progress();
		} else if (op.name == "finish") {
			ss.in_limit = input.size();
			if (!canonical && op.get("fair", 1)) sim_fair_phase();
			bool ok = drive(LZMA_FINISH, in_each, out_each ? out_each : 1, intr);
			if (intr == 2) goto restart;
			if (ok) finished = true;
			break;
		}
	}
	if (!finished && !res.ended_early && !res.refused && res.error.empty() && (res.status == LZMA_OK || res.status == LZMA_STREAM_END)) {
		// no finish op (minimised plan): finish generically
		int intr = 0;
		ss.in_limit = input.size();
		if (!canonical) sim_fair_phase();
		if (drive(LZMA_FINISH, (size_t)-1, 1 << 16, intr)) finished = true;
	}
	if (res.error.empty() && !ss.acct_error.empty()) { res.error = ss.acct_error; res.error_cls = "accounting"; }
	if (finished && res.error.empty() && is_stream) {
		uint64_t pi = 0, po = 0;
		lzma_get_progress(&ss.s, &pi, &po);
		if (pi != ss.s.total_in || po != ss.s.total_out) {
			res.error = fmt("final progress (%llu,%llu) != totals (%llu,%llu)", (unsigned long long)pi, (unsigned long long)po, (unsigned long long)ss.s.total_in, (unsigned long long)ss.s.total_out);
			res.error_cls = "progress-final";
		} else if (res.max_progress_out > ss.s.total_out) {
			res.error = fmt("progress_out reached %llu but only %llu bytes were ever produced", (unsigned long long)res.max_progress_out, (unsigned long long)ss.s.total_out);
			res.error_cls = "progress";
		}
	}
	if (!finished && res.delayed_refusal && res.status == LZMA_OPTIONS_ERROR) res.refused = true;
	if (!finished && res.error.empty() && !res.ended_early && !res.refused) {
		res.error = fmt("session ended with status %s", ret_name(res.status)); res.error_cls = "enc-status";
	}
	res.calls = ss.calls;
	res.consumed = ss.in_pos;
	res.out.swap(ss.out);
	ss.end();
}

// Block uncompressed sizes of a single-Stream .xz taken from its Index.
static bool xz_block_sizes(const Bytes &xz, std::vector<uint64_t> &sizes, std::string &err)
{
	if (xz.size() < 2 * LZMA_STREAM_HEADER_SIZE) { err = "too short"; return false; }
	lzma_stream_flags ff;
	if (lzma_stream_footer_decode(&ff, xz.data() + xz.size() - LZMA_STREAM_HEADER_SIZE) != LZMA_OK) { err = "footer"; return false; }
	if (ff.backward_size + LZMA_STREAM_HEADER_SIZE > xz.size()) { err = "backward size"; return false; }
	size_t ioff = xz.size() - LZMA_STREAM_HEADER_SIZE - (size_t)ff.backward_size;
	lzma_index *idx = nullptr;
	uint64_t memlimit = UINT64_MAX;
	size_t pos = ioff;
	if (lzma_index_buffer_decode(&idx, &memlimit, nullptr, xz.data(), &pos, xz.size() - LZMA_STREAM_HEADER_SIZE) != LZMA_OK) { err = "index"; return false; }
	lzma_index_iter it;
	lzma_index_iter_init(&it, idx);
	while (!lzma_index_iter_next(&it, LZMA_INDEX_ITER_BLOCK)) sizes.push_back(it.block.uncompressed_size);
	lzma_index_end(idx, nullptr);
	return true;
}

// C02: the produced bytes judged by the independent reference decoder
// (model/refxz, model/reflzma): valid instance of the format, every stored
// field truthful, declared dictionary not smaller than the farthest match,
// and the reference recovers the input.
static void ref_validate(const Plan &plan, const EncSetup &es, const Bytes &out, const Bytes &input, uint64_t chain_changes, Verdict &v)
{
	const std::string P = plan.prop;
	bool is_stream = es.kind == EK_STREAM_MT || es.kind == EK_STREAM_ST || es.kind == EK_EASY;
	if (is_stream) {
		ref::XzResult r = ref::parse_xz(out.data(), out.size(), true);
		if (r.verdict == ref::XZ_UNSUPPORTED) { v.count("oracle.ref_unsupported"); return; }
		if (r.verdict != ref::XZ_VALID) { v.fail("ref-invalid", P + "/ref-invalid", "the reference .xz parser rejects the encoder's output: " + r.why + fmt(" [%zu bytes]", out.size())); return; }
		if (r.consumed != out.size()) { v.fail("ref-trailing", P + "/ref-trailing", "bytes after the last Stream"); return; }
		if (r.out != input) { v.fail("ref-data", P + "/ref-data", fmt("the reference decoder recovers %zu bytes that differ from the %zu input bytes", r.out.size(), input.size())); return; }
		if (r.streams.size() != 1) { v.fail("ref-streams", P + "/ref-streams", fmt("%zu Streams in the output of one encoder session", r.streams.size())); return; }
		for (auto &b : r.streams[0].blocks) {
			if ((uint64_t)b.max_dist > b.dict_declared) { v.fail("ref-dict", P + "/ref-dict", fmt("a match reaches back %u bytes but the Block declares a dictionary of %llu", b.max_dist, (unsigned long long)b.dict_declared)); return; }
		}
		v.count("oracle.ref_xz_validated");
		v.counters["bits.xz_features"] |= r.features;
		return;
	}
	if (es.kind == EK_ALONE) {
		ref::AloneResult a = ref::decode_alone(out.data(), out.size());
		if (!a.valid) { v.fail("ref-invalid", P + "/ref-invalid", "the reference .lzma decoder rejects the encoder's output: " + a.why); return; }
		if (a.out != input || a.consumed != out.size()) { v.fail("ref-data", P + "/ref-data", fmt("the reference .lzma decoder recovers %zu bytes (input %zu), consumed %zu of %zu", a.out.size(), input.size(), a.consumed, out.size())); return; }
		v.count("oracle.ref_lzma_validated");
		return;
	}
	if (es.kind == EK_RAW && !es.chain.lzma1 && !chain_changes && es.chain.preset_dict.empty()) {
		// raw chain ending in LZMA2
		ref::Lzma2Result l = ref::decode_lzma2(out.data(), out.size(), es.chain.lz.dict_size);
		if (!l.valid) { v.fail("ref-invalid", P + "/ref-invalid", "the reference LZMA2 decoder rejects the raw encoder's output: " + l.why); return; }
		if (l.consumed != out.size()) { v.fail("ref-trailing", P + "/ref-trailing", "bytes after the LZMA2 end marker"); return; }
		if ((uint64_t)l.max_dist > es.chain.lz.dict_size) { v.fail("ref-dict", P + "/ref-dict", fmt("a match reaches back %u bytes with dict_size %u", l.max_dist, es.chain.lz.dict_size)); return; }
		Bytes plain = l.out;
		int nf = 0; while (es.chain.f[nf].id != LZMA_VLI_UNKNOWN) ++nf;
		bool ok = true;
		for (int i = nf - 2; i >= 0 && ok; --i) {
			if (es.chain.f[i].id == LZMA_FILTER_DELTA) ref::delta_apply(plain, ((const lzma_options_delta *)es.chain.f[i].options)->dist, false);
			else if (ref::bcj_supported(es.chain.f[i].id)) ref::bcj_apply(es.chain.f[i].id, plain, es.chain.f[i].options ? es.chain.bcj.start_offset : 0, false);
			else ok = false;
		}
		if (!ok) { v.count("oracle.ref_unsupported"); return; }
		if (plain != input) { v.fail("ref-data", P + "/ref-data", fmt("the reference decoders recover %zu bytes that differ from the input (%zu bytes) [chain %s]", plain.size(), input.size(), es.chain.desc.c_str())); return; }
		v.count("oracle.ref_raw_validated");
	}
}

static void enc_exec_inner(const Plan &plan, Verdict &v, Bytes &input);

// Uncompressed offsets at which the LZMA2 chunks of a one-shot encoding of `input` end
// (the encoder is deterministic: a session that has been fed the same prefix ends its
// chunks at the same places).
static std::vector<size_t> lzma2_chunk_ends(const Bytes &input, lzma_filter *chain)
{
	std::vector<size_t> ends;
	Bytes out(input.size() + input.size() / 3 + 4096);
	size_t op = 0;
	if (lzma_raw_buffer_encode(chain, nullptr, input.data(), input.size(), out.data(), &op, out.size()) != LZMA_OK) return ends;
	size_t p = 0, u = 0;
	while (p < op) {
		uint8_t c = out[p];
		if (c == 0) break;
		if (c == 1 || c == 2) { if (p + 3 > op) break; size_t n = (((size_t)out[p + 1] << 8) | out[p + 2]) + 1; p += 3 + n; u += n; }
		else if (c >= 0x80) {
			if (p + 5 > op) break;
			size_t n = ((((size_t)c & 0x1F) << 16) | ((size_t)out[p + 1] << 8) | out[p + 2]) + 1;
			size_t cs = (((size_t)out[p + 3] << 8) | out[p + 4]) + 1;
			p += 5 + (c >= 0xC0 ? 1 : 0) + cs; u += n;
		} else break;
		ends.push_back(u);
	}
	return ends;
}

static void enc_exec(const Plan &plan, Verdict &v)
{
	Bytes input = gen_input((int)plan.p("in_class", IN_TEXT), (size_t)plan.p("in_len", 1000), (uint64_t)plan.p("in_seed", 1));
	if (plan.hasp("aim_delta")) {
		// aim a flush (or the end of the input) a few bytes behind a chunk boundary that the chunk
		// size limits forced: the parser's look-ahead has then already run into the end of the input
		EncSetup es0;
		setup_from_plan(plan, es0, false);
		lzma_filter lone[2] = { { LZMA_FILTER_LZMA2, &es0.chain.lz }, { LZMA_VLI_UNKNOWN, nullptr } };
		std::vector<size_t> ends = lzma2_chunk_ends(input, lone);
		if (ends.size() >= 2) {
			size_t b = ends[(size_t)plan.p("aim_chunk", 0) % (ends.size() - 1)];
			size_t off = std::min(input.size(), b + (size_t)plan.p("aim_delta", 1));
			Plan p2 = plan;
			p2.ops.clear();
			int act = (int)plan.p("aim_action", LZMA_SYNC_FLUSH);
			if (act == LZMA_FINISH) { input.resize(off); p2.setp("in_len", (int64_t)off); }
			else { Op f("flush"); f.set("kind", act).set("n", (int64_t)off).set("in_each", (int64_t)plan.p("aim_in_each", 1 << 20)).set("out_each", 1 << 16); p2.ops.push_back(f); }
			Op fin("finish"); fin.set("in_each", 1 << 20).set("out_each", 1 << 16); p2.ops.push_back(fin);
			v.count("reach.flush_aimed_behind_a_forced_chunk_boundary");
			enc_exec_inner(p2, v, input);
			return;
		}
	}
	enc_exec_inner(plan, v, input);
}

static void enc_exec_inner(const Plan &plan, Verdict &v, Bytes &input)
{
	const std::string P = plan.prop;
	EncSetup es;
	setup_from_plan(plan, es, false);
	SimAlloc al;
	EncResult res;
	run_session(plan, input, false, al, res, v);
	v.count("runs.total");
	v.count(fmt("kind.%d", es.kind));
	if (plan.p("mf_norm_after", 0)) v.count("reach.h1_knob_runs");
	v.counters["max.threads"] = std::max<uint64_t>(v.counters["max.threads"], (uint64_t)sim_max_threads_seen());
	if (sim_max_threads_seen() > 2) v.count("runs.multi_worker");

	if (!al.misuse.empty()) { v.fail("alloc-misuse", P + "/alloc-misuse", al.misuse); return; }
	if (al.cur != 0) { v.fail("leak", P + "/leak", fmt("%llu bytes in %zu blocks still allocated after lzma_end", (unsigned long long)al.cur, al.live.size())); al.purge(); return; }
	if (!res.error.empty()) { v.fail(res.error_cls, P + "/" + res.error_cls, res.error + fmt(" [kind %d, %zu bytes in, %zu out]", es.kind, input.size(), res.out.size())); return; }
	if (res.ended_early) { v.count("runs.ended_early"); return; }

	bool is_stream = es.kind == EK_STREAM_MT || es.kind == EK_STREAM_ST || es.kind == EK_EASY;
	std::string ctx = fmt(" [kind %d, chain %s, %zu bytes in, %zu out, threads %d]", es.kind, es.chain.desc.c_str(), input.size(), res.out.size(), (int)es.mt.threads);

	// --- durability after acknowledgement (C12, C08): at every flush that
	// returned STREAM_END a fresh decoder given only the output so far
	// reproduces every input byte given so far.
	SimAlloc dal;
	// (with a changed chain the raw decoder would need the chain history; for
	// .xz the chain is in each Block Header, so only raw is skipped then;
	// lc/lp/pb changes travel in the LZMA2 chunk headers)
	for (auto &a : res.acks) {
		if (es.kind == EK_RAW && res.chain_changes) break;
		Bytes prefix(res.out.begin(), res.out.begin() + (long)a.out_len);
		DecResult d = dec_matching(es, prefix, true, &dal.a);
		bool ok_status = d.status == LZMA_OK || d.status == LZMA_BUF_ERROR || (d.status == LZMA_STREAM_END && false);
		if (d.out.size() != a.in_off || (a.in_off && memcmp(d.out.data(), input.data(), a.in_off) != 0) || !ok_status) {
			v.fail("flush-durability", P + "/flush-durability", fmt("after flush kind %d acknowledged at input offset %zu, the %zu output bytes so far decode to %zu bytes with status %s", a.kind, a.in_off, a.out_len, d.out.size(), ret_name(d.status)) + ctx);
			return;
		}
	}
	if (res.refused) {
		// a refused sync flush: everything emitted so far must still be a
		// decodable prefix of the input
		if (!(es.kind == EK_RAW && res.chain_changes)) {
			DecResult d = dec_matching(es, res.out, true, &dal.a);
			if (d.out.size() > input.size() || (d.out.size() && memcmp(d.out.data(), input.data(), d.out.size()) != 0) || d.status == LZMA_DATA_ERROR || d.status == LZMA_FORMAT_ERROR)
				v.fail("refused-output", P + "/refused-output", "output emitted before a refused sync flush is not a decodable prefix" + ctx);
		}
		return;
	}

	// --- lossless (C01, C08, C12): the whole output decodes to the whole input
	if (!(es.kind == EK_RAW && res.chain_changes)) {
		DecResult d = dec_matching(es, res.out, false, &dal.a);
		if (d.status != LZMA_STREAM_END || d.out != input) {
			size_t i = 0;
			while (i < d.out.size() && i < input.size() && d.out[i] == input[i]) ++i;
			v.fail("roundtrip", P + "/roundtrip", fmt("decoding the produced stream gives status %s, %zu bytes, first difference at %zu", ret_name(d.status), d.out.size(), i) + ctx);
			return;
		}
		if (d.total_in != res.out.size()) { v.fail("trailing", P + "/trailing", fmt("decoder consumed %llu of %zu produced bytes", (unsigned long long)d.total_in, res.out.size()) + ctx); return; }
	}

	if (plan.prop == "C02") { ref_validate(plan, es, res.out, input, res.chain_changes, v); if (!v.ok) return; }

	// --- Block structure (C08, C12): one Stream; Blocks end exactly at the
	// full flush / barrier offsets (and, threaded, every block_size bytes
	// after the previous boundary); no empty Block.
	if (is_stream) {
		std::vector<uint64_t> sizes;
		std::string err;
		if (!xz_block_sizes(res.out, sizes, err)) { v.fail("structure", P + "/structure", "cannot read the Index of the produced Stream: " + err + ctx); return; }
		std::vector<uint64_t> expect;
		std::vector<size_t> cuts = res.full_offsets;
		cuts.push_back(input.size());
		size_t prev = 0;
		uint64_t bs = es.kind == EK_STREAM_MT ? (res.final_block_size ? res.final_block_size : es.mt.block_size) : 0;
		// filters_update may change what block_size==0 would mean, but we
		// always give an explicit block size
		for (size_t c : cuts) {
			if (c <= prev) continue;
			size_t seg = c - prev;
			if (bs) { while (seg > bs) { expect.push_back(bs); seg -= (size_t)bs; } }
			expect.push_back(seg);
			prev = c;
		}
		if (sizes != expect) {
			std::string a, b;
			for (size_t i = 0; i < sizes.size() && i < 12; ++i) a += fmt("%llu ", (unsigned long long)sizes[i]);
			for (size_t i = 0; i < expect.size() && i < 12; ++i) b += fmt("%llu ", (unsigned long long)expect[i]);
			v.fail("block-structure", P + "/block-structure", fmt("Block sizes in the Index (%zu: %s...) differ from the flush/barrier history (%zu: %s...)", sizes.size(), a.c_str(), expect.size(), b.c_str()) + ctx);
			return;
		}
		v.feature2(mix64(sizes.size() > 1, mix64(res.acks.size(), (uint64_t)es.kind)));
	}

	// --- determinism (C06): the same request executed one-shot, with one
	// thread, no timeout and big buffers gives identical bytes.
	if (plan.p("check_determinism", 1) && !plan.hasp("reinit_after_calls")) {
		SimAlloc al2;
		EncResult ref;
		Verdict vdummy;
		run_session(plan, input, true, al2, ref, vdummy);
		if (al2.cur != 0) { v.fail("leak", P + "/leak", "canonical session leaked"); al2.purge(); return; }
		if (!ref.error.empty()) { v.fail("canonical-" + ref.error_cls, P + "/canonical-" + ref.error_cls, "canonical session: " + ref.error + ctx); return; }
		if (ref.out != res.out) {
			size_t i = 0;
			while (i < ref.out.size() && i < res.out.size() && ref.out[i] == res.out[i]) ++i;
			v.fail("nondeterministic-output", P + "/nondeterministic-output", fmt("output differs from the one-shot single-thread encoding of the same request at byte %zu (%zu vs %zu bytes)", i, res.out.size(), ref.out.size()) + ctx);
			return;
		}
		v.count("oracle.determinism_compared");
	}

	uint64_t shape = mix64((uint64_t)es.kind, fnv_str(es.chain.desc));
	shape = mix64(shape, (uint64_t)plan.p("in_class"));
	shape = mix64(shape, (uint64_t)(plan.p("mf_norm_after", 0) != 0));
	shape = mix64(shape, res.acks.size() > 0);
	if (input.size() >= 64) v.feature2(shape);
	if (es.kind == EK_STREAM_MT && sim_max_threads_seen() > 2) v.feature(sim_trace_hash());
	else if (es.kind != EK_STREAM_MT && input.size() >= 64) v.feature(mix64(shape, fnv1a(plan.to_text(false).data(), plan.to_text(false).size())));
}

// ------------------------------------------------------------ generators
static void gen_input_params(Rng &rng, Plan &plan, size_t max_len)
{
	int cls = (int)rng.below(IN_CLASS_COUNT);
	size_t len = (size_t)rng.size_skewed(max_len);
	if (rng.chance(600)) len = 1000 + (size_t)rng.below(max_len > 1000 ? max_len - 1000 : 1);
	if (cls == IN_EMPTY) len = 0;
	if (cls == IN_ONE) len = 1;
	plan.setp("in_class", cls);
	plan.setp("in_len", (int64_t)len);
	plan.setp("in_seed", (int64_t)(rng.next() >> 2));
}

static void add_slices(Rng &rng, Op &op, size_t approx_in, size_t approx_out)
{
	size_t in_each = 1 + (size_t)rng.size_skewed(65536), out_each = 1 + (size_t)rng.size_skewed(65536);
	if (rng.chance(100)) in_each = 1;
	if (rng.chance(100)) out_each = 1;
	if (approx_in / in_each > 1500) in_each = approx_in / 1500 + 1;
	if (approx_out / out_each > 1500) out_each = approx_out / 1500 + 1;
	op.set("in_each", (int64_t)in_each).set("out_each", (int64_t)out_each);
}

// Action history: feeds and flushes at random offsets (incl. offset 0, no new
// input, back-to-back), updates, progress polls, finish.
static void gen_history(Rng &rng, Plan &plan, size_t len, bool sync_ok, bool full_ok, bool update_ok)
{
	int nops = (int)rng.below(9);
	size_t left = len;
	for (int i = 0; i < nops; ++i) {
		size_t n = left ? (size_t)rng.below(left + 1) : 0;
		if (rng.chance(200)) n = 0;
		if (rng.chance(150)) n = left < 3 ? left : 1 + (size_t)rng.below(3);
		int k = (int)rng.below(10);
		if (k < 3) {
			Op op("feed"); op.set("n", (int64_t)n); add_slices(rng, op, n, n); plan.ops.push_back(op);
			left -= n;
		} else if (k < 8 && (sync_ok || full_ok)) {
			Op op("flush");
			int kind;
			if (sync_ok && (!full_ok || rng.chance(500))) kind = LZMA_SYNC_FLUSH;
			else kind = rng.chance(500) ? LZMA_FULL_FLUSH : LZMA_FULL_BARRIER;
			op.set("kind", kind).set("n", (int64_t)n);
			add_slices(rng, op, n, n);
			plan.ops.push_back(op);
			left -= n;
			if (update_ok && rng.chance(350)) {
				Op u("update");
				if (kind == LZMA_SYNC_FLUSH || rng.chance(400)) {
					int lc = (int)rng.below(5), lp = (int)rng.below(5 - (unsigned)lc);
					u.set("lc", lc).set("lp", lp).set("pb", (int64_t)rng.below(5));
				} else if (rng.chance(400)) {
					// the same chain with another match finder (same dictionary: the encoder reuses what it can)
					static const int mfs[] = { LZMA_MF_HC3, LZMA_MF_HC4, LZMA_MF_BT2, LZMA_MF_BT3, LZMA_MF_BT4 };
					u.set("mf", mfs[rng.below(5)]);
				} else {
					u.set("chain2", 1).set("dist", (int64_t)rng.below(256));
				}
				plan.ops.push_back(u);
			}
		} else if (k == 8 && update_ok && rng.chance(500)) {
			// a chain that must be refused, at any moment (first call, between
			// Blocks, right after an accepted change, mid-Block)
			if (full_ok && rng.chance(300)) { Op f0("flush"); f0.set("kind", (int64_t)LZMA_FULL_BARRIER).set("n", 0); plan.ops.push_back(f0); }
			if (rng.chance(300)) { Op u0("update"); u0.set("chain2", 1).set("dist", (int64_t)rng.below(256)); plan.ops.push_back(u0); }
			Op u("update"); u.set("bad", (int64_t)(1 + rng.below(10))).set("dist", (int64_t)rng.below(8));
			plan.ops.push_back(u);
		} else if (k == 8) {
			plan.ops.push_back(Op("progress"));
		} else if (update_ok && rng.chance(300)) {
			// an update at an arbitrary moment: may legitimately be refused
			Op u("update");
			int lc = (int)rng.below(5), lp = (int)rng.below(5 - (unsigned)lc);
			u.set("lc", lc).set("lp", lp).set("pb", (int64_t)rng.below(5));
			plan.ops.push_back(u);
		}
	}
	Op f("finish");
	add_slices(rng, f, left, left);
	plan.ops.push_back(f);
}

static void gen_mt_opts(Rng &rng, Plan &plan, size_t len)
{
	plan.setp("threads", rng.range(1, 8));
	static const int64_t bs[] = { 1, 100, 1000, 4096, 9000, 20000, 65536 };
	int64_t b = bs[rng.below(7)];
	if (rng.chance(200)) b = 1 + (int64_t)rng.below(70000);
	if ((int64_t)len / b > 250) b = (int64_t)len / 250 + 1;
	plan.setp("block_size", b);
	plan.setp("timeout", rng.chance(500) ? 0 : rng.range(1, 50));
	static const int checks[] = { LZMA_CHECK_NONE, LZMA_CHECK_CRC32, LZMA_CHECK_CRC64, LZMA_CHECK_SHA256 };
	plan.setp("check", checks[rng.below(4)]);
	if (rng.chance(400)) { plan.setp("use_preset", 1); plan.setp("preset", (int64_t)rng.below(3)); }
	plan.setp("poll_progress", rng.chance(300) ? 1 : 0);
}

static void c08_gen(Rng &rng, Plan &plan, bool thorough)
{
	gen_sched_params(rng, plan, thorough);
	plan.setp("enc_kind", EK_STREAM_MT);
	gen_chain_params(rng, plan, true, true);
	gen_input_params(rng, plan, thorough ? 300000 : 100000);
	gen_mt_opts(rng, plan, (size_t)plan.p("in_len"));
	if (rng.chance(250)) plan.setp("mf_norm_after", rng.range(1, 30000));
	int ending = (int)rng.below(12);
	if (ending == 0) plan.setp("end_after_calls", (int64_t)rng.below(60));
	if (ending == 1) {
		plan.setp("reinit_after_calls", (int64_t)rng.below(60)); plan.setp("reinit_threads", rng.chance(500) ? plan.p("threads") : rng.range(1, 8));
		if (rng.chance(600)) { static const int64_t bs[] = { 1, 100, 4096, 20000, 65536, 200000 }; int64_t b = bs[rng.below(6)]; if (plan.p("in_len") / b > 250) b = plan.p("in_len") / 250 + 1; plan.setp("reinit_block_size", b); }
	}
	if (rng.chance(300)) { plan.setp("same_chain_updates", rng.range(1, 6)); plan.setp("same_chain_update_first", (int64_t)rng.below(30)); plan.setp("same_chain_update_gap", (int64_t)rng.below(8)); }
	gen_history(rng, plan, (size_t)plan.p("in_len"), false, true, true);
}

// Many sync flushes a few bytes apart on repetitive data: the match finder
// has to postpone and later replay the last positions every time.
static void gen_flush_storm(Rng &rng, Plan &plan, size_t len)
{
	size_t left = len;
	int n = 5 + (int)rng.below(60);
	static const size_t scales[] = { 40, 40, 150, 400 };
	size_t scale = scales[rng.below(4)];
	for (int i = 0; i < n && left > 0; ++i) {
		size_t k = 1 + (size_t)rng.below(rng.chance(200) ? 400 : scale);
		if (k > left) k = left;
		Op op("flush");
		op.set("kind", LZMA_SYNC_FLUSH).set("n", (int64_t)k);
		op.set("in_each", (int64_t)(1 + rng.below(64))).set("out_each", (int64_t)(1 + rng.size_skewed(4096)));
		plan.ops.push_back(op);
		left -= k;
	}
	Op f("finish");
	add_slices(rng, f, left, left);
	plan.ops.push_back(f);
}

static void c12_gen(Rng &rng, Plan &plan, bool thorough)
{
	gen_sched_params(rng, plan, thorough);
	int k = (int)rng.below(10);
	int kind = k < 4 ? EK_STREAM_ST : k < 6 ? EK_STREAM_MT : k < 9 ? EK_RAW : EK_EASY;
	plan.setp("enc_kind", kind);
	bool bcj_chain = rng.chance(120);
	gen_chain_params(rng, plan, bcj_chain, true);
	if (!bcj_chain && plan.p("ch_shape") > 1) plan.setp("ch_shape", 1);
	gen_input_params(rng, plan, thorough ? 200000 : 60000);
	static const int checks[] = { LZMA_CHECK_NONE, LZMA_CHECK_CRC32, LZMA_CHECK_CRC64, LZMA_CHECK_SHA256 };
	plan.setp("check", checks[rng.below(4)]);
	plan.setp("preset", (int64_t)rng.below(4));
	if (kind == EK_STREAM_MT) gen_mt_opts(rng, plan, (size_t)plan.p("in_len"));
	if (kind == EK_RAW && rng.chance(100)) plan.setp("ch_lzma1", 1);
	if (rng.chance(350)) plan.setp("mf_norm_after", rng.range(1, 30000));
	bool sync_ok = kind != EK_STREAM_MT;
	bool full_ok = kind != EK_RAW;
	if (sync_ok && !bcj_chain && plan.p("ch_lzma1", 0) == 0 && rng.chance(450)) {
		// binary-tree and hash-chain match finders treat the tail differently while flushing
		static const int mfs[] = { LZMA_MF_BT2, LZMA_MF_BT3, LZMA_MF_BT4, LZMA_MF_HC3, LZMA_MF_HC4 };
		plan.setp("ch_mf", mfs[rng.below(5)]);
		plan.setp("ch_mode", rng.chance(500) ? LZMA_MODE_FAST : LZMA_MODE_NORMAL);
		plan.setp("ch_nice", rng.chance(500) ? rng.range(2, 40) : rng.range(2, 273));
		plan.setp("ch_depth", rng.chance(500) ? 0 : rng.range(1, 40));
		if (kind == EK_EASY) plan.setp("preset", 4 + (int64_t)rng.below(3));
		static const int rep[] = { IN_RUNS, IN_TEXT, IN_ZEROS, IN_REPEAT_FAR, IN_RUNS, IN_X86ISH, IN_LOWENT, IN_LOWENT };
		plan.setp("in_class", rep[rng.below(8)]);
		plan.setp("in_len", 20 + (int64_t)rng.size_skewed(16000));
		gen_flush_storm(rng, plan, (size_t)plan.p("in_len"));
		return;
	}
	if ((kind == EK_STREAM_ST || kind == EK_RAW) && !bcj_chain && plan.p("ch_lzma1", 0) == 0 && plan.p("ch_shape") == 0 && rng.chance(250)) {
		// inputs long enough for the LZMA2 chunk size limits to cut a chunk, flush aimed right behind the cut
		static const int cls[] = { IN_TEXT, IN_RANDOM, IN_MIXED, IN_X86ISH, IN_LOWENT };
		plan.setp("in_class", cls[rng.below(5)]);
		plan.setp("in_len", 70000 + (int64_t)rng.below(thorough ? 600000 : 230000));
		static const int mfs[] = { LZMA_MF_HC3, LZMA_MF_HC4, LZMA_MF_HC4, LZMA_MF_BT4, LZMA_MF_BT3 };
		plan.setp("ch_mf", mfs[rng.below(5)]);
		plan.setp("ch_mode", rng.chance(800) ? LZMA_MODE_NORMAL : LZMA_MODE_FAST);
		plan.setp("ch_nice", rng.chance(500) ? 64 : rng.range(8, 273));
		plan.setp("ch_depth", 0);
		plan.setp("ch_dict", 65536);
		plan.setp("aim_chunk", (int64_t)rng.below(8));
		plan.setp("aim_delta", rng.range(1, 60));
		static const int acts[] = { LZMA_SYNC_FLUSH, LZMA_SYNC_FLUSH, LZMA_FULL_FLUSH, LZMA_FINISH };
		int a = acts[rng.below(4)];
		if (kind == EK_RAW && a == LZMA_FULL_FLUSH) a = LZMA_SYNC_FLUSH;
		plan.setp("aim_action", a);
		plan.setp("aim_in_each", rng.chance(500) ? 1 << 20 : rng.range(1, 5000));
		plan.ops.clear();
		Op fin("finish"); fin.set("in_each", 1 << 20).set("out_each", 1 << 16); plan.ops.push_back(fin);
		return;
	}
	gen_history(rng, plan, (size_t)plan.p("in_len"), sync_ok, full_ok, kind != EK_EASY);
}

static void c06_enc_gen(Rng &rng, Plan &plan, bool thorough)
{
	gen_sched_params(rng, plan, thorough);
	int kind = (int)rng.below(EK_COUNT);
	if (rng.chance(400)) kind = EK_STREAM_MT;
	plan.setp("enc_kind", kind);
	gen_chain_params(rng, plan, kind != EK_ALONE, true);
	if (kind == EK_ALONE) { plan.setp("ch_shape", 0); plan.setp("ch_lzma1", 1); }
	if (kind == EK_RAW && rng.chance(300)) plan.setp("ch_lzma1", 1);
	gen_input_params(rng, plan, thorough ? 200000 : 60000);
	static const int checks[] = { LZMA_CHECK_NONE, LZMA_CHECK_CRC32, LZMA_CHECK_CRC64, LZMA_CHECK_SHA256 };
	plan.setp("check", checks[rng.below(4)]);
	plan.setp("preset", (int64_t)rng.below(4));
	if (kind == EK_STREAM_MT) gen_mt_opts(rng, plan, (size_t)plan.p("in_len"));
	if (rng.chance(200)) plan.setp("mf_norm_after", rng.range(1, 30000));
	if (rng.chance(300)) plan.setp("ch_via_string", 1);
	bool lz2 = plan.p("ch_lzma1", 0) == 0 && plan.p("ch_shape") <= 1;
	bool sync_ok = (kind == EK_STREAM_ST || kind == EK_RAW) && lz2;
	bool full_ok = kind == EK_STREAM_MT || kind == EK_STREAM_ST || kind == EK_EASY;
	bool tiny = rng.chance(350);
	if (tiny) {
		// look-ahead territory: normal-mode parsing with nice_len below the longest match, low-entropy
		// data with long repeats, input arriving a few bytes at a time
		plan.setp("in_class", IN_LOWENT);
		plan.setp("in_len", 20000 + (int64_t)rng.below(thorough ? 150000 : 50000));
		static const int mfs[] = { LZMA_MF_HC4, LZMA_MF_BT2, LZMA_MF_BT3, LZMA_MF_BT4, LZMA_MF_BT4 };
		plan.setp("ch_mf", mfs[rng.below(5)]);
		plan.setp("ch_depth", 0);
		plan.setp("ch_dict", 65536);
		plan.setp("ch_mode", LZMA_MODE_NORMAL);
		plan.setp("ch_nice", rng.range(8, 200));
		if (rng.chance(500)) { plan.setp("ch_preset", 4 + (int64_t)rng.below(3)); plan.setp("preset", 4 + (int64_t)rng.below(3)); }
		if (kind == EK_STREAM_MT) gen_mt_opts(rng, plan, (size_t)plan.p("in_len"));
	}
	gen_history(rng, plan, (size_t)plan.p("in_len"), sync_ok, full_ok, false);
	// (threaded encoder: every call costs scheduler steps; keep the number of calls within the step budgets)
	int64_t min_each = kind == EK_STREAM_MT ? plan.p("in_len") / 8000 + 1 : 1;
	if (tiny) for (auto &op : plan.ops) if (op.has("in_each")) op.set("in_each", std::max<int64_t>(min_each, rng.chance(300) ? 1 : 1 + (int64_t)rng.below(64)));
}

static void c01_enc_gen(Rng &rng, Plan &plan, bool thorough)
{
	gen_sched_params(rng, plan, thorough);
	int kind = (int)rng.below(EK_COUNT);
	plan.setp("enc_kind", kind);
	gen_chain_params(rng, plan, kind != EK_ALONE, false);
	if (kind == EK_ALONE) { plan.setp("ch_shape", 0); plan.setp("ch_lzma1", 1); }
	if (kind == EK_RAW && rng.chance(300)) plan.setp("ch_lzma1", 1);
	if (rng.chance(250) && kind == EK_RAW) {   // preset dictionaries exist for raw streams only
		plan.setp("ch_pdict", rng.range(1, 5000)); plan.setp("ch_pdict_seed", (int64_t)rng.below(1000));
	}
	gen_input_params(rng, plan, thorough ? 400000 : 100000);
	static const int checks[] = { LZMA_CHECK_NONE, LZMA_CHECK_CRC32, LZMA_CHECK_CRC64, LZMA_CHECK_SHA256 };
	plan.setp("check", checks[rng.below(4)]);
	uint32_t preset = (uint32_t)rng.below(thorough ? 10 : 7);
	if (rng.chance(200)) preset |= LZMA_PRESET_EXTREME;
	plan.setp("preset", preset);
	if (kind == EK_STREAM_MT) {
		gen_mt_opts(rng, plan, (size_t)plan.p("in_len"));
		// every Block sets up a whole encoder: with the big presets that is seconds per Block under the sanitizers
		if (plan.p("in_len") / std::max<int64_t>(1, plan.p("block_size")) > 12 && (preset & 0x1F) > 5) preset = (preset & ~0x1Fu) | 5;
		plan.setp("preset", preset);
	}
	// the H1 knob: normalisation of the match finder within the input
	if (rng.chance(600)) plan.setp("mf_norm_after", rng.range(1, (int64_t)plan.p("in_len") + 2));
	plan.setp("check_determinism", rng.chance(250) ? 1 : 0);
	if ((kind == EK_STREAM_ST || kind == EK_RAW) && plan.p("ch_lzma1", 0) == 0 && plan.p("ch_shape") <= 1 && rng.chance(200)) {
		// the multi-call encoder driven with sync flushes a few bytes apart (round trip must still hold)
		static const int mfs[] = { LZMA_MF_BT2, LZMA_MF_BT3, LZMA_MF_BT4, LZMA_MF_BT4, LZMA_MF_HC4 };
		plan.setp("ch_mf", mfs[rng.below(5)]);
		plan.setp("ch_mode", rng.chance(300) ? LZMA_MODE_FAST : LZMA_MODE_NORMAL);
		plan.setp("ch_nice", rng.range(4, 80));
		plan.setp("ch_depth", 0);
		static const int rep[] = { IN_RUNS, IN_TEXT, IN_LOWENT, IN_LOWENT, IN_REPEAT_FAR };
		plan.setp("in_class", rep[rng.below(5)]);
		plan.setp("in_len", 200 + (int64_t)rng.size_skewed(16000));
		gen_flush_storm(rng, plan, (size_t)plan.p("in_len"));
		return;
	}
	gen_history(rng, plan, (size_t)plan.p("in_len"), false, false, false);
}

static void c02_enc_gen(Rng &rng, Plan &plan, bool thorough)
{
	switch (rng.below(4)) {
	case 0: c08_gen(rng, plan, thorough); break;
	case 1: c12_gen(rng, plan, thorough); break;
	default: c01_enc_gen(rng, plan, thorough); break;
	}
	plan.params.erase(std::remove_if(plan.params.begin(), plan.params.end(), [](const std::pair<std::string, int64_t> &e) { return e.first == "end_after_calls" || e.first == "reinit_after_calls"; }), plan.params.end());
	plan.setp("check_determinism", 0);
}

REGISTER_SCENARIO(c02_enc, "C02", "encoder_output_validity", 80, 80, c02_enc_gen, enc_exec, true);
REGISTER_SCENARIO(c08_main, "C08", "mt_encoder", 100, 100, c08_gen, enc_exec, true);
REGISTER_SCENARIO(c12_main, "C12", "flush_sessions", 100, 100, c12_gen, enc_exec, true);
REGISTER_SCENARIO(c06_enc, "C06", "encoder_determinism", 40, 40, c06_enc_gen, enc_exec, true);
REGISTER_SCENARIO(c01_enc, "C01", "encoder_roundtrip", 70, 70, c01_enc_gen, enc_exec, true);

// ------------------------------------------------------------------------
// Single-call encoders, bound functions (C02) and MicroLZMA (C01)
// ------------------------------------------------------------------------
static void sc_gen(Rng &rng, Plan &plan, bool thorough)
{
	gen_sched_params(rng, plan, thorough);
	plan.setp("api", (int64_t)rng.below(5));   // 0 stream_buffer, 1 easy_buffer, 2 block_buffer, 3 raw_buffer, 4 microlzma
	gen_chain_params(rng, plan, true, false);
	static const int64_t sizes[] = { 0, 1, 2, 65535, 65536, 65537, 131072, (1 << 21) - 1, 1 << 21, (1 << 21) + 1, 100, 5000, 300000 };
	int64_t n = sizes[rng.below(13)];
	if (rng.chance(300)) n = (int64_t)rng.size_skewed(thorough ? 3000000 : 400000);
	if (!thorough && n > 300000 && rng.chance(800)) n = 65536 + (int64_t)rng.below(3);
	plan.setp("in_len", n);
	// incompressible data is what stresses the bound
	static const int cls[] = { IN_RANDOM, IN_RANDOM, IN_RANDOM, IN_TEXT, IN_ZEROS, IN_MIXED, IN_X86ISH };
	plan.setp("in_class", cls[rng.below(7)]);
	plan.setp("in_seed", (int64_t)(rng.next() >> 2));
	static const int checks[] = { LZMA_CHECK_NONE, LZMA_CHECK_CRC32, LZMA_CHECK_CRC64, LZMA_CHECK_SHA256 };
	plan.setp("check", checks[rng.below(4)]);
	uint32_t preset = (uint32_t)rng.below(thorough ? 10 : 7);
	if (rng.chance(200)) preset |= LZMA_PRESET_EXTREME;
	plan.setp("preset", preset);
	if (rng.chance(500)) plan.setp("mf_norm_after", rng.range(1, n + 2));
	// MicroLZMA: output size limit
	plan.setp("out_limit", (int64_t)(rng.chance(300) ? 6 + rng.below(64) : 6 + rng.size_skewed(200000)));
	plan.setp("out_pos0", rng.chance(500) ? 0 : (int64_t)rng.below(9));
}

static void sc_exec(const Plan &plan, Verdict &v)
{
	const std::string P = plan.prop;
	int api = (int)plan.p("api") % 5;
	Bytes input = gen_input((int)plan.p("in_class", IN_RANDOM), (size_t)plan.p("in_len", 1000), (uint64_t)plan.p("in_seed", 1));
	Chain ch; chain_from_plan(plan, ch);
	ch.lz.preset_dict = nullptr; ch.lz.preset_dict_size = 0;
	lzma_check check = (lzma_check)plan.p("check", LZMA_CHECK_CRC32);
	uint32_t preset = (uint32_t)plan.p("preset", 1);
	SimAlloc al;
	v.count("runs.total");
	v.count(fmt("api.%d", api));
	std::string ctx = fmt(" [api %d, %zu bytes of class %s, chain %s, preset %u]", api, input.size(), input_class_name((int)plan.p("in_class")), ch.desc.c_str(), preset);
	if (api == 4) {
		// MicroLZMA: an output-size-limited encoder yields exactly the prefix of
		// the input that it reports having consumed, within the limit
		lzma_options_lzma lz = ch.lz;
		lzma_stream s = LZMA_STREAM_INIT;
		s.allocator = &al.a;
		lzma_ret r = lzma_microlzma_encoder(&s, &lz);
		if (r != LZMA_OK) { v.count("runs.options_rejected"); lzma_end(&s); return; }
		size_t limit = (size_t)plan.p("out_limit", 100);
		Bytes out(limit);
		s.next_in = input.data(); s.avail_in = input.size(); s.next_out = out.data(); s.avail_out = out.size();
		r = lzma_code(&s, LZMA_FINISH);
		size_t used = (size_t)s.total_in, made = (size_t)s.total_out;
		lzma_end(&s);
		if (r != LZMA_STREAM_END) { v.fail("microlzma-status", P + "/microlzma-status", fmt("MicroLZMA encoder returned %s", ret_name(r)) + ctx); return; }
		if (made > limit) { v.fail("microlzma-limit", P + "/microlzma-limit", "output exceeds the limit" + ctx); return; }
		out.resize(made);
		for (int exact = 0; exact < 2; ++exact) {
			lzma_stream d = LZMA_STREAM_INIT;
			d.allocator = &al.a;
			r = lzma_microlzma_decoder(&d, made, used, exact != 0, lz.dict_size);
			if (r != LZMA_OK) { v.fail("microlzma-dec-init", P + "/microlzma-dec-init", ret_name(r) + ctx); lzma_end(&d); return; }
			Bytes dec(used + 16);
			d.next_in = out.data(); d.avail_in = out.size(); d.next_out = dec.data(); d.avail_out = exact ? used : dec.size();
			r = lzma_code(&d, LZMA_FINISH);
			size_t got = (size_t)d.total_out;
			lzma_end(&d);
			// with uncomp_size_is_exact=false the decoder may stop with LZMA_OK once the
			// given size is reached (documented); what it wrote must be the prefix
			bool ok = (r == LZMA_STREAM_END || (!exact && r == LZMA_OK)) && got >= used && (used == 0 || memcmp(dec.data(), input.data(), used) == 0);
			if (used == 0) ok = r == LZMA_STREAM_END || r == LZMA_OK;
			if (!ok) { v.fail("microlzma-roundtrip", P + "/microlzma-roundtrip", fmt("MicroLZMA: %zu input bytes reported consumed, %zu output bytes; decoding (exact=%d) gives %s and %zu bytes", used, made, exact, ret_name(r), got) + ctx); return; }
		}
		if (al.cur) { v.fail("leak", P + "/leak", "leak" + ctx); al.purge(); return; }
		v.feature(mix64(fnv_str(ch.desc), mix64(limit / 16, used / 64)));
		return;
	}
	size_t bound;
	Bytes out;
	// the caller may append to a buffer that already holds something: *out_pos starts at any offset
	size_t op0 = (size_t)plan.p("out_pos0", 0), op = op0;
	lzma_ret r;
	lzma_block blk; memset(&blk, 0, sizeof blk);
	switch (api) {
	case 0: bound = lzma_stream_buffer_bound(input.size()); out.resize(op0 + bound, 0xEE); r = lzma_stream_buffer_encode(ch.f, check, &al.a, input.data(), input.size(), out.data(), &op, out.size()); break;
	case 1: bound = lzma_stream_buffer_bound(input.size()); out.resize(op0 + bound, 0xEE); r = lzma_easy_buffer_encode(preset, check, &al.a, input.data(), input.size(), out.data(), &op, out.size()); break;
	case 2: bound = lzma_block_buffer_bound(input.size()); out.resize(op0 + bound, 0xEE); blk.check = check; blk.filters = ch.f; r = lzma_block_buffer_encode(&blk, &al.a, input.data(), input.size(), out.data(), &op, out.size()); break;
	default: bound = lzma_stream_buffer_bound(input.size()); out.resize(op0 + bound, 0xEE); r = lzma_raw_buffer_encode(ch.f, &al.a, input.data(), input.size(), out.data(), &op, out.size()); break;
	}
	if (r == LZMA_OK && op >= op0) {
		for (size_t q = 0; q < op0; ++q) if (out[q] != 0xEE) { v.fail("prefix-overwritten", P + "/prefix-overwritten", "single-call encoder wrote before *out_pos" + ctx); return; }
		out.erase(out.begin(), out.begin() + (long)op0);
		op -= op0;
	}
	if (bound == 0) { v.fail("bound-zero", P + "/bound-zero", "bound function returned 0" + ctx); return; }
	if (r == LZMA_OPTIONS_ERROR) { v.count("runs.options_rejected"); return; }
	if (r == LZMA_BUF_ERROR && api != 3) { v.fail("bound-too-small", P + "/bound-too-small", fmt("single-call encoder returned LZMA_BUF_ERROR with an output buffer of the %zu bytes the bound function asked for", bound) + ctx); return; }
	if (r == LZMA_BUF_ERROR) { v.count("runs.raw_buf_error"); return; }   // no bound function exists for raw
	if (r != LZMA_OK) { v.fail("enc-status", P + "/enc-status", fmt("single-call encoder returned %s", ret_name(r)) + ctx); return; }
	out.resize(op);
	if (al.cur) { v.fail("leak", P + "/leak", "leak" + ctx); al.purge(); return; }
	// liblzma's own decoder
	Bytes dec(input.size() + 1);
	size_t ip = 0, dp = 0; uint64_t ml = UINT64_MAX;
	if (api <= 1) r = lzma_stream_buffer_decode(&ml, 0, nullptr, out.data(), &ip, out.size(), dec.data(), &dp, dec.size());
	else if (api == 2) {
		lzma_filter df[LZMA_FILTERS_MAX + 1];
		lzma_block db; memset(&db, 0, sizeof db);
		db.check = check; db.filters = df; db.header_size = lzma_block_header_size_decode(out[0]);
		r = lzma_block_header_decode(&db, nullptr, out.data());
		if (r == LZMA_OK) { ip = db.header_size; r = lzma_block_buffer_decode(&db, nullptr, out.data(), &ip, out.size(), dec.data(), &dp, dec.size()); lzma_filters_free(df, nullptr); }
	} else r = lzma_raw_buffer_decode(ch.f, nullptr, out.data(), &ip, out.size(), dec.data(), &dp, dec.size());
	if (r != LZMA_OK || dp != input.size() || ip != out.size() || (dp && memcmp(dec.data(), input.data(), dp) != 0)) { v.fail("roundtrip", P + "/roundtrip", fmt("decoding the single-call output gives %s, %zu bytes, consumed %zu of %zu", ret_name(r), dp, ip, out.size()) + ctx); return; }
	// the reference decoder
	if (api <= 1) {
		ref::XzResult x = ref::parse_xz(out.data(), out.size(), true);
		if (x.verdict == ref::XZ_VALID) {
			if (x.out != input || x.consumed != out.size()) { v.fail("ref-data", P + "/ref-data", "reference decoder output differs" + ctx); return; }
			for (auto &st : x.streams) for (auto &b : st.blocks) if ((uint64_t)b.max_dist > b.dict_declared) { v.fail("ref-dict", P + "/ref-dict", "match beyond the declared dictionary" + ctx); return; }
			v.count("oracle.ref_xz_validated");
		} else if (x.verdict != ref::XZ_UNSUPPORTED) { v.fail("ref-invalid", P + "/ref-invalid", "reference parser rejects: " + x.why + ctx); return; }
	}
	v.feature(mix64(mix64((uint64_t)api, fnv_str(ch.desc)), mix64(input.size() / 1024, (uint64_t)plan.p("in_class"))));
	v.feature2(mix64((uint64_t)api, input.size() >= 65536));
}

REGISTER_SCENARIO(c02_sc, "C02", "single_call_bounds", 20, 20, sc_gen, sc_exec, false);
REGISTER_SCENARIO(c01_sc, "C01", "single_call_and_microlzma", 30, 30, sc_gen, sc_exec, false);
