// Decoder-side scenarios:
//   C06  results do not depend on buffer slicing (decoders; encoders are in
//        scen_enc.cpp)
//   C05  corruption and truncation are never reported as success with
//        different data (stored-byte faults aimed with a field map)
//   C04  no input makes a decoder or parser misbehave (sanitizers, status
//        codes, stalled client, termination)
#include "core.hpp"
#include "session.hpp"
#include "xzutil.hpp"
#include "../model/refxz.hpp"
#include "reflz.hpp"

#include <algorithm>
#include <dirent.h>

namespace {

enum { DEC_STREAM = 0, DEC_AUTO, DEC_ALONE, DEC_LZIP, DEC_RAW, DEC_MT, DEC_COUNT };
static const char *dec_names[] = { "stream_decoder", "auto_decoder", "alone_decoder", "lzip_decoder", "raw_decoder", "stream_decoder_mt" };

struct DecSpec {
	int kind = DEC_STREAM;
	uint32_t flags = 0;
	uint64_t memlimit = UINT64_MAX;
	Chain *chain = nullptr;     // raw
	uint32_t threads = 2, timeout = 0;
};

static lzma_ret spec_init(lzma_stream *s, const DecSpec &sp, lzma_mt &mt)
{
	switch (sp.kind) {
	case DEC_STREAM: return lzma_stream_decoder(s, sp.memlimit, sp.flags);
	case DEC_AUTO: return lzma_auto_decoder(s, sp.memlimit, sp.flags);
	case DEC_ALONE: return lzma_alone_decoder(s, sp.memlimit);
	case DEC_LZIP: return lzma_lzip_decoder(s, sp.memlimit, sp.flags);
	case DEC_RAW: return lzma_raw_decoder(s, sp.chain->f);
	default:
		memset(&mt, 0, sizeof mt);
		mt.flags = sp.flags; mt.threads = sp.threads; mt.timeout = sp.timeout;
		mt.memlimit_threading = UINT64_MAX; mt.memlimit_stop = sp.memlimit;
		return lzma_stream_decoder_mt(s, &mt);
	}
}

struct Outcome {
	Bytes out;
	lzma_ret status = LZMA_OK;
	uint64_t total_in = 0;
	std::vector<int> notices;
	uint64_t calls = 0;
	std::string error, cls;
};

// delivery: mode 0 one-shot, 1 one byte in / one byte out, 2 random slices
// with empty calls (seeded), 3 two-piece split at `split`, 4 "aimed": small
// slices around position `split`, big elsewhere
struct Delivery { int mode = 0; uint64_t seed = 0; size_t split = 0; bool finish = true; };

static void drive(const DecSpec &sp, const Bytes &file, const Delivery &dl, Outcome &o)
{
	SimAlloc al;
	Session ss(&al.a);
	ss.set_input(&file);
	lzma_mt mt;
	lzma_ret r = spec_init(&ss.s, sp, mt);
	if (r != LZMA_OK) { o.status = r; ss.end(); return; }
	Rng rng(dl.seed);
	uint64_t guard = 0;
	bool last_empty = false;
	bool finishing = false;
	for (;;) {
		size_t in_n, out_n;
		size_t pos = ss.in_pos;
		switch (dl.mode) {
		case 0: in_n = ss.in_left(); out_n = 1 << 16; break;
		case 1: in_n = 1; out_n = 1; break;
		case 2:
			in_n = (size_t)rng.size_skewed(4096); out_n = (size_t)rng.size_skewed(4096);
			// an empty call is allowed, but never two in a row (that would
			// be a stall, which is C04's and C11's business)
			if ((in_n == 0 || ss.in_left() == 0) && out_n == 0) { if (last_empty) out_n = 1 + (size_t)rng.below(64); }
			if (in_n == 0 && last_empty) in_n = 1 + (size_t)rng.below(64);
			break;
		case 3: in_n = pos < dl.split ? dl.split - pos : ss.in_left(); out_n = 1 << 16; break;
		default:
			if (pos + 24 >= dl.split && pos < dl.split + 24) { in_n = 1; out_n = 1 + (size_t)rng.below(3); }
			else if (pos < dl.split) { in_n = dl.split - 24 > pos ? dl.split - 24 - pos : 1; out_n = 1 << 16; }
			else { in_n = ss.in_left(); out_n = 1 << 16; }
			break;
		}
		if (in_n > ss.in_left()) in_n = ss.in_left();
		if (finishing) in_n = ss.in_left();
		lzma_action act = (dl.finish && in_n == ss.in_left()) ? LZMA_FINISH : LZMA_RUN;
		if (act == LZMA_FINISH) finishing = true;
		size_t before_out = ss.out.size(), before_in = ss.in_pos;
		r = ss.step(in_n, out_n, act);
		last_empty = ss.out.size() == before_out && ss.in_pos == before_in;
		if (!ret_is_public(r)) { o.error = fmt("internal status %d leaked", (int)r); o.cls = "internal-ret"; break; }
		if (is_notice(r)) continue;
		if (r == LZMA_BUF_ERROR && (out_n == 0 || (in_n == 0 && ss.in_left() > 0))) continue;   // our own empty call
		if (r != LZMA_OK) break;
		if (sp.kind == DEC_MT && ss.in_left() == 0) sim_fair_phase();
		if (++guard > 3000000) { o.error = "no termination"; o.cls = "liveness-calls"; break; }
	}
	o.status = r;
	o.total_in = ss.s.total_in;
	o.notices = ss.notices;
	o.calls = ss.calls;
	o.out.swap(ss.out);
	if (o.error.empty() && !ss.acct_error.empty()) { o.error = ss.acct_error; o.cls = "accounting"; }
	ss.end();
	if (al.cur != 0 && o.error.empty()) { o.error = fmt("%llu bytes leaked", (unsigned long long)al.cur); o.cls = "leak"; al.purge(); }
	if (!al.misuse.empty() && o.error.empty()) { o.error = al.misuse; o.cls = "alloc-misuse"; }
}

// ------------------------------------------------------------ artefacts
static const std::vector<std::string> &test_files()
{
	static std::vector<std::string> names;
	static bool done = false;
	if (done) return names;
	done = true;
	const char *repo = getenv("VERIF_REPO");
	std::string dir = std::string(repo ? repo : "/repo") + "/tests/files";
	DIR *d = opendir(dir.c_str());
	if (!d) return names;
	while (dirent *e = readdir(d)) {
		std::string n = e->d_name;
		if (n.size() > 3 && (n.rfind(".xz") == n.size() - 3 || n.rfind(".lz") == n.size() - 3 || n.rfind(".lzma") == n.size() - 5)) names.push_back(n);
	}
	closedir(d);
	std::sort(names.begin(), names.end());
	return names;
}

// art_src: 0 generated .xz (build_artefact), 1 tests/files, 2 generated .lzma,
// 3 generated .lz (1-3 members), 4 raw stream
struct Art { std::vector<size_t> member_ends, member_plain_ends; Bytes file, plain; XzInfo info; Chain chain; int fmt = 0; /* 0 xz 1 lzma 2 lz 3 raw */ bool has_check = true; bool valid = true; std::string name; };

static void gen_art_params(Rng &rng, Plan &plan, bool thorough, size_t max_len)
{
	int src = (int)rng.below(10);
	src = src < 4 ? 0 : src < 7 ? 1 : src < 8 ? 2 : src < 9 ? 3 : 4;
	plan.setp("art_src", src);
	gen_chain_params(rng, plan, true, true);
	if (src == 0) gen_artefact_params(rng, plan, thorough, max_len);
	else if (src == 1) plan.setp("art_file", (int64_t)rng.below(1000));
	else {
		plan.setp("in_class", (int64_t)rng.below(IN_CLASS_COUNT));
		plan.setp("in_len", (int64_t)rng.size_skewed(max_len));
		plan.setp("in_seed", (int64_t)(rng.next() >> 2));
		if (src == 2) { plan.setp("lzma_known_size", (int64_t)rng.below(2)); }
		if (src == 3) { plan.setp("lz_members", rng.range(1, 3)); plan.setp("lz_version", (int64_t)rng.below(2)); plan.setp("lz_trailing", (int64_t)rng.below(3)); }
		if (src == 4 && rng.chance(300)) plan.setp("ch_lzma1", 1);
	}
}

static bool make_art(const Plan &plan, Art &a, std::string &err)
{
	int src = (int)plan.p("art_src", 0);
	chain_from_plan(plan, a.chain);
	if (src == 0) {
		a.fmt = 0;
		if (!build_artefact(plan, a.file, a.plain, a.info, err)) return false;
		a.has_check = true;
		for (int i = 0; i < plan.p("art_streams", 1); ++i) if (plan.p(fmt("art%d_check", i), LZMA_CHECK_CRC32) == LZMA_CHECK_NONE) a.has_check = false;
		a.name = "generated.xz";
		return true;
	}
	if (src == 1) {
		auto &names = test_files();
		if (names.empty()) { err = "no tests/files"; return false; }
		a.name = names[(size_t)plan.p("art_file") % names.size()];
		if (!read_test_file(a.name, a.file)) { err = "cannot read " + a.name; return false; }
		a.fmt = a.name.rfind(".xz") == a.name.size() - 3 ? 0 : a.name.rfind(".lz") == a.name.size() - 3 ? 2 : 1;
		a.valid = a.name.compare(0, 4, "good") == 0;
		a.has_check = false;   // unknown here; C05 does not use test files for its "must differ" clause
		return true;
	}
	Bytes in = gen_input((int)plan.p("in_class", IN_TEXT), (size_t)plan.p("in_len", 500), (uint64_t)plan.p("in_seed", 1));
	a.plain = in;
	if (src == 2) {
		a.fmt = 1; a.has_check = false; a.name = "generated.lzma";
		lzma_options_lzma lz = a.chain.lz;
		lz.preset_dict = nullptr; lz.preset_dict_size = 0;
		if (!lzma_build(in, &lz, a.file, err)) return false;
		if (plan.p("lzma_known_size", 0)) {
			// alone_encoder writes "unknown size" + end marker; store the real size
			// => known size with end marker, which the format allows
			uint64_t n = in.size();
			for (int i = 0; i < 8; ++i) a.file[5 + (size_t)i] = (uint8_t)(n >> (8 * i));
		}
		return true;
	}
	if (src == 3) {
		a.fmt = 2; a.has_check = true; a.name = "generated.lz";
		int m = (int)plan.p("lz_members", 1);
		size_t per = in.size() / (size_t)m + 1;
		for (int i = 0; i < m; ++i) {
			size_t pos = std::min(in.size(), (size_t)i * per);
			Bytes part(in.begin() + (long)pos, in.begin() + (long)std::min(in.size(), pos + per));
			if (!lz_build_member(part, (int)plan.p("lz_version", 1), (uint8_t)(0x0C + i), a.file, err)) return false;
			a.member_ends.push_back(a.file.size());
			a.member_plain_ends.push_back(std::min(in.size(), pos + per));
		}
		return true;
	}
	// raw
	a.fmt = 3; a.has_check = false; a.name = "generated.raw";
	lzma_stream s = LZMA_STREAM_INIT;
	if (lzma_raw_encoder(&s, a.chain.f) != LZMA_OK) { err = "raw encoder rejects chain"; return false; }
	Bytes buf(65536);
	s.next_in = in.data(); s.avail_in = in.size();
	for (;;) {
		s.next_out = buf.data(); s.avail_out = buf.size();
		lzma_ret r = lzma_code(&s, LZMA_FINISH);
		a.file.insert(a.file.end(), buf.data(), buf.data() + (buf.size() - s.avail_out));
		if (r == LZMA_STREAM_END) break;
		if (r != LZMA_OK) { lzma_end(&s); err = "raw encode"; return false; }
	}
	lzma_end(&s);
	return true;
}

static int natural_decoder(const Art &a, Rng &rng)
{
	switch (a.fmt) {
	case 0: { int k = (int)rng.below(4); return k == 0 ? DEC_AUTO : k == 1 ? DEC_MT : DEC_STREAM; }
	case 1: return rng.chance(500) ? DEC_ALONE : DEC_AUTO;
	case 2: return rng.chance(500) ? DEC_LZIP : DEC_AUTO;
	default: return DEC_RAW;
	}
}

// ---------------------------------------------------------------- C06
static void c06_gen(Rng &rng, Plan &plan, bool thorough)
{
	gen_sched_params(rng, plan, thorough);
	gen_art_params(rng, plan, thorough, thorough ? 60000 : 20000);
	if (rng.chance(450)) gen_storage_faults(rng, plan, 2);
	plan.setp("dec_pick", (int64_t)rng.below(1000));
	uint32_t flags = 0;
	if (rng.chance(500)) flags |= LZMA_CONCATENATED;
	if (rng.chance(150)) flags |= LZMA_TELL_ANY_CHECK;
	if (rng.chance(150)) flags |= LZMA_TELL_NO_CHECK;
	if (rng.chance(100)) flags |= LZMA_IGNORE_CHECK;
	plan.setp("flags", flags);
	plan.setp("finish", rng.chance(850) ? 1 : 0);
	plan.setp("threads", rng.range(1, 4));
	plan.setp("timeout", rng.chance(600) ? 0 : rng.range(1, 30));
	int n = 2 + (int)rng.below(3);
	for (int i = 0; i < n; ++i) {
		Op op("deliver");
		op.set("mode", (int64_t)(1 + rng.below(4))).set("seed", (int64_t)(rng.next() >> 2)).set("split", (int64_t)rng.below(1000000));
		plan.ops.push_back(op);
	}
}

static void c06_exec(const Plan &plan, Verdict &v)
{
	Art a;
	std::string err;
	if (!make_art(plan, a, err)) { if (err == "raw encoder rejects chain") { v.count("runs.options_rejected"); return; } v.fail("harness", "harness/artefact", err); return; }
	bool faulted = false;
	for (auto &op : plan.ops) if (op.name == "sfault") { apply_one_fault(op, a.file, &v); faulted = true; }
	if (const char *dump = getenv("LZSIM_DUMP")) { FILE *f = fopen(dump, "wb"); if (f) { fwrite(a.file.data(), 1, a.file.size(), f); fclose(f); } }
	Rng pick((uint64_t)plan.p("dec_pick"));
	DecSpec sp;
	sp.kind = natural_decoder(a, pick);
	// now and then the "wrong" decoder: format errors must be slicing independent too
	if (pick.chance(80)) sp.kind = (int)pick.below(4);
	sp.flags = (uint32_t)plan.p("flags");
	if (sp.kind == DEC_LZIP) sp.flags &= LZMA_CONCATENATED | LZMA_TELL_ANY_CHECK | LZMA_TELL_NO_CHECK | LZMA_IGNORE_CHECK | LZMA_TELL_UNSUPPORTED_CHECK;
	sp.chain = &a.chain;
	sp.threads = (uint32_t)plan.p("threads", 2);
	sp.timeout = (uint32_t)plan.p("timeout", 0);
	bool finish = plan.p("finish", 1) != 0;
	v.count("runs.total");
	v.count(std::string("dec.") + dec_names[sp.kind]);
	if (faulted) v.count("runs.corrupted");

	Outcome ref;
	Delivery d0; d0.mode = 0; d0.finish = finish;
	drive(sp, a.file, d0, ref);
	std::string ctx0 = fmt(" [%s on %s (%zu bytes), flags 0x%x, finish %d]", dec_names[sp.kind], a.name.c_str(), a.file.size(), sp.flags, (int)finish);
	if (!ref.error.empty()) { v.fail(ref.cls, "C06/" + ref.cls, "one-shot run: " + ref.error + ctx0); return; }
	bool bcj_rejected = a.chain.has_bcj && ref.status != LZMA_STREAM_END && (a.fmt == 0 || a.fmt == 3) && plan.p("art_src") != 1;
	// test files may contain BCJ filters too: treat any rejected .xz test file like that
	if (plan.p("art_src") == 1 && ref.status != LZMA_STREAM_END && a.fmt == 0) bcj_rejected = true;
	v.count(std::string("status.") + ret_name(ref.status));

	for (auto &op : plan.ops) {
		if (op.name != "deliver") continue;
		Delivery dl;
		dl.mode = (int)op.get("mode", 2); dl.seed = (uint64_t)op.get("seed"); dl.finish = finish;
		dl.split = a.file.empty() ? 0 : (size_t)((double)op.get("split") / 1000000.0 * (double)a.file.size());
		if (dl.mode == 1 && a.file.size() + a.plain.size() > 300000) dl.mode = 2;
		Outcome o;
		drive(sp, a.file, dl, o);
		std::string ctx = fmt(" [delivery mode %d split %zu]", dl.mode, dl.split) + ctx0;
		if (!o.error.empty()) { v.fail(o.cls, "C06/" + o.cls, o.error + ctx); return; }
		v.count(fmt("delivery.mode%d", dl.mode));
		bool alone_like = sp.kind == DEC_ALONE || (sp.kind == DEC_AUTO && a.fmt == 1);
		if (o.status != ref.status) {
			std::string sig = "C06/status";
			v.fail("status", sig, fmt("final status depends on slicing: one-shot %s (%zu bytes out, %llu in), sliced %s (%zu bytes out, %llu in)", ret_name(ref.status), ref.out.size(), (unsigned long long)ref.total_in, ret_name(o.status), o.out.size(), (unsigned long long)o.total_in) + ctx + (alone_like ? " (.lzma)" : ""));
			return;
		}
		bool rejected = ref.status != LZMA_STREAM_END && ref.status != LZMA_OK && ref.status != LZMA_BUF_ERROR;
		if (o.total_in != ref.total_in && sp.kind == DEC_MT && rejected) {
			// known finding: the threaded decoder reads ahead, so how much input
			// it has taken when it reports an error depends on timing
			v.fail("mt-decoder-total-in-on-error", "C06/mt-decoder-total-in-on-error", fmt("threaded decoder: input consumed at the error depends on slicing: %llu vs %llu (status %s)", (unsigned long long)ref.total_in, (unsigned long long)o.total_in, ret_name(o.status)) + ctx);
			return;
		}
		size_t i = 0;
		while (i < o.out.size() && i < ref.out.size() && o.out[i] == ref.out[i]) ++i;
		size_t shorter = std::min(o.out.size(), ref.out.size()), longer = std::max(o.out.size(), ref.out.size());
		uint64_t in_diff = o.total_in > ref.total_in ? o.total_in - ref.total_in : ref.total_in - o.total_in;
		bool out_differs = bcj_rejected ? false : o.out != ref.out;   // behind a BCJ filter the bytes of the failing call are unspecified
		(void)longer;
		if (rejected && (out_differs || in_diff) && (bcj_rejected || i == shorter)) {
			// known finding: on rejected input the point at which the error is
			// noticed moves with the slicing: the LZMA2 decoder checks that the
			// LZMA decoder did not read past the chunk only after that call
			// returns, and the LZMA decoder decodes one symbol ahead when the
			// output space ends. Status is the same; one output is a prefix of
			// the other (no wrong bytes).
			v.fail("rejected-input-detection-point", "C06/rejected-input-detection-point", fmt("rejected input: output delivered (%zu vs %zu bytes) or input consumed (%llu vs %llu) at the error depends on slicing (status %s both times)", ref.out.size(), o.out.size(), (unsigned long long)ref.total_in, (unsigned long long)o.total_in, ret_name(o.status)) + ctx);
			return;
		}
		if (o.total_in != ref.total_in) { v.fail("total-in", "C06/total-in", fmt("input consumed depends on slicing: %llu vs %llu (status %s; output %zu vs %zu bytes)", (unsigned long long)ref.total_in, (unsigned long long)o.total_in, ret_name(o.status), ref.out.size(), o.out.size()) + ctx); return; }
		if (out_differs) {
			v.fail("output", "C06/output", fmt("output depends on slicing: %zu vs %zu bytes, first difference at %zu (status %s)", ref.out.size(), o.out.size(), i, ret_name(o.status)) + ctx);
			return;
		}
		if (o.notices != ref.notices) { v.fail("notices", "C06/notices", "sequence of *_CHECK notices depends on slicing" + ctx); return; }
	}
	v.feature(mix64(mix64((uint64_t)sp.kind, fnv_str(a.name)), mix64((uint64_t)ref.status, mix64(faulted, fnv_str(plan.to_text(false))))));
	v.feature2(mix64(mix64((uint64_t)sp.kind, (uint64_t)a.fmt), mix64((uint64_t)ref.status, faulted)));
}

REGISTER_SCENARIO(c06_dec, "C06", "decoder_slicing", 60, 60, c06_gen, c06_exec, true);

// ---------------------------------------------------------------- C05
// Small artefacts for the complete single-bit / truncation sweep.
struct SweepArt { Bytes file, plain; XzInfo info; int fmt; bool has_check; std::vector<size_t> stream_ends; std::string name; };

static std::vector<SweepArt> &sweep_arts()
{
	static std::vector<SweepArt> arts;
	if (!arts.empty()) return arts;
	Bytes text = gen_input(IN_TEXT, 900, 77);
	std::string err;
	auto add_xz = [&](const char *name, std::vector<std::vector<size_t>> streams, lzma_check check, int shape, std::vector<size_t> pads) {
		SweepArt a; a.fmt = 0; a.has_check = check != LZMA_CHECK_NONE; a.name = name;
		Plan p; p.setp("ch_shape", shape); p.setp("ch_preset", 0); p.setp("ch_dict", 4096); p.setp("ch_delta_dist", 1); p.setp("ch_bcj", 0);
		Chain c; chain_from_plan(p, c);
		size_t pos = 0;
		for (size_t s = 0; s < streams.size(); ++s) {
			size_t n = 0; for (size_t b : streams[s]) n += b;
			Bytes part(text.begin() + (long)pos, text.begin() + (long)(pos + n));
			pos += n;
			xz_build_sized(part, streams[s], c.f, check, a.file, &a.info, err);
			a.plain.insert(a.plain.end(), part.begin(), part.end());
			a.stream_ends.push_back(a.file.size());
			if (s < pads.size() && pads[s]) { a.info.fields.push_back({ a.file.size(), pads[s], "stream_padding" }); a.file.insert(a.file.end(), pads[s], 0); a.stream_ends.push_back(a.file.size()); }
		}
		arts.push_back(a);
	};
	add_xz("1block-crc32.xz", { { 120 } }, LZMA_CHECK_CRC32, 0, {});
	add_xz("3blocks-sha256.xz", { { 60, 0, 90 } }, LZMA_CHECK_SHA256, 1, {});
	add_xz("2streams-pad-crc64.xz", { { 80 }, { 70, 40 } }, LZMA_CHECK_CRC64, 0, { 8, 4 });
	add_xz("1block-nocheck.xz", { { 100 } }, LZMA_CHECK_NONE, 0, {});
	{
		SweepArt a; a.fmt = 1; a.has_check = false; a.name = "text.lzma";
		lzma_options_lzma lz; lzma_lzma_preset(&lz, 0); lz.dict_size = 4096;
		a.plain.assign(text.begin(), text.begin() + 150);
		lzma_build(a.plain, &lz, a.file, err);
		a.stream_ends.push_back(a.file.size());
		arts.push_back(a);
	}
	{
		SweepArt a; a.fmt = 2; a.has_check = true; a.name = "2members.lz";
		Bytes p1(text.begin(), text.begin() + 100), p2(text.begin() + 100, text.begin() + 180);
		lz_build_member(p1, 1, 0x0C, a.file, err); a.stream_ends.push_back(a.file.size());
		lz_build_member(p2, 0, 0x0D, a.file, err); a.stream_ends.push_back(a.file.size());
		a.plain.assign(text.begin(), text.begin() + 180);
		arts.push_back(a);
	}
	return arts;
}


// CRC-consistent rewrites of non-payload .xz fields: the field is changed and
// the CRC32 that covers it is recomputed, the way a file assembled from
// pieces of two files (or a buggy writer) would look. A decoder that relies
// on the CRC32 alone would accept them.
// by_reference: the rewrite may produce a file that is still valid (e.g. a
// larger declared dictionary); the independent reference parser decides.
struct Rewrite { std::string what; Bytes file; bool by_reference = false; };

static void le32(uint8_t *p, uint32_t v) { for (int i = 0; i < 4; ++i) p[i] = (uint8_t)(v >> (8 * i)); }

static void make_rewrites(const SweepArt &a, std::vector<Rewrite> &out)
{
	if (a.fmt != 0) return;
	size_t block_no = 0;
	// every single bit of every field that a CRC32 protects, flipped with that
	// CRC32 recomputed: Stream Flags in header and footer, Backward Size, the
	// whole Block Header, the whole Index
	for (size_t fi = 0; fi < a.info.fields.size(); ++fi) {
		const auto &f = a.info.fields[fi];
		size_t lo = 0, hi = 0, crc_at = 0, crc_from = 0, crc_len = 0;
		if (f.field == "stream_header") { lo = f.off + 6; hi = f.off + 8; crc_at = f.off + 8; crc_from = f.off + 6; crc_len = 2; }
		else if (f.field == "stream_footer") { lo = f.off + 4; hi = f.off + 10; crc_at = f.off; crc_from = f.off + 4; crc_len = 6; }
		else if (f.field == "block_header" || f.field == "index") { lo = f.off; hi = f.off + f.len - 4; crc_at = f.off + f.len - 4; crc_from = f.off; crc_len = f.len - 4; }
		else continue;
		for (size_t pos = lo; pos < hi; ++pos) for (int bit = 0; bit < 8; ++bit) {
			Bytes b = a.file;
			b[pos] ^= (uint8_t)(1u << bit);
			le32(&b[crc_at], lzma_crc32(&b[crc_from], crc_len, 0));
			Rewrite rw; rw.what = fmt("%s byte %zu bit %d flipped (CRC32 fixed)", f.field.c_str(), pos - f.off, bit); rw.file.swap(b); rw.by_reference = true;
			out.push_back(rw);
		}
	}
	for (size_t fi = 0; fi < a.info.fields.size(); ++fi) {
		const auto &f = a.info.fields[fi];
		if (f.field == "stream_header") {
			block_no = 0;
			for (int id : { 0, 1, 4, 10 }) {
				Bytes b = a.file;
				if (b[f.off + 7] == id) continue;
				b[f.off + 7] = (uint8_t)id;
				le32(&b[f.off + 8], lzma_crc32(&b[f.off + 6], 2, 0));
				out.push_back({ fmt("stream header check id -> %d (CRC32 fixed)", id), b });
			}
		} else if (f.field == "stream_footer") {
			for (int id : { 0, 1, 4, 10 }) {
				Bytes b = a.file;
				if (b[f.off + 9] == id) continue;
				b[f.off + 9] = (uint8_t)id;
				le32(&b[f.off], lzma_crc32(&b[f.off + 4], 6, 0));
				out.push_back({ fmt("stream footer check id -> %d (CRC32 fixed)", id), b });
			}
			for (int d : { -1, 1 }) {
				Bytes b = a.file;
				uint32_t bs = (uint32_t)b[f.off + 4] | ((uint32_t)b[f.off + 5] << 8) | ((uint32_t)b[f.off + 6] << 16) | ((uint32_t)b[f.off + 7] << 24);
				if (d < 0 && bs == 0) continue;
				le32(&b[f.off + 4], bs + (uint32_t)d);
				le32(&b[f.off], lzma_crc32(&b[f.off + 4], 6, 0));
				out.push_back({ fmt("backward size %+d (CRC32 fixed)", d), b });
			}
		} else if (f.field == "block_header") {
			++block_no;
			for (int which = 0; which < 2; ++which) for (int d : { -1, 1 }) {
				Bytes b = a.file;
				lzma_filter df[LZMA_FILTERS_MAX + 1];
				lzma_block blk; memset(&blk, 0, sizeof blk);
				blk.check = LZMA_CHECK_CRC32; blk.filters = df;
				blk.header_size = lzma_block_header_size_decode(b[f.off]);
				if (lzma_block_header_decode(&blk, nullptr, &b[f.off]) != LZMA_OK) continue;
				lzma_vli *field = which ? &blk.uncompressed_size : &blk.compressed_size;
				bool ok = *field != LZMA_VLI_UNKNOWN && !(d < 0 && *field <= 1);
				if (ok) {
					*field = (lzma_vli)((int64_t)*field + d);
					ok = lzma_block_header_encode(&blk, &b[f.off]) == LZMA_OK;
				}
				lzma_filters_free(df, nullptr);
				if (ok) out.push_back({ fmt("block %zu header %s size %+d (CRC32 fixed)", block_no, which ? "uncompressed" : "compressed", d), b });
			}
		} else if (f.field == "index") {
			// rebuild the Index with one record changed
			lzma_index *idx = nullptr;
			uint64_t ml = UINT64_MAX;
			size_t ip = f.off;
			if (lzma_index_buffer_decode(&idx, &ml, nullptr, a.file.data(), &ip, f.off + f.len) != LZMA_OK) continue;
			std::vector<std::pair<lzma_vli, lzma_vli>> recs;
			lzma_index_iter it;
			lzma_index_iter_init(&it, idx);
			while (!lzma_index_iter_next(&it, LZMA_INDEX_ITER_BLOCK)) recs.push_back({ it.block.unpadded_size, it.block.uncompressed_size });
			lzma_index_end(idx, nullptr);
			for (size_t r = 0; r < recs.size(); ++r) for (int which = 0; which < 2; ++which) for (int d : { -1, 1 }) {
				auto rr = recs;
				lzma_vli &val = which ? rr[r].second : rr[r].first;
				if (d < 0 && val <= (which ? 0u : 6u)) continue;
				val = (lzma_vli)((int64_t)val + d);
				lzma_index *n = lzma_index_init(nullptr);
				bool ok = true;
				for (auto &x : rr) if (lzma_index_append(n, nullptr, x.first, x.second) != LZMA_OK) ok = false;
				if (ok && lzma_index_size(n) == f.len) {
					Bytes b = a.file;
					size_t op = f.off;
					if (lzma_index_buffer_encode(n, b.data(), &op, f.off + f.len) == LZMA_OK)
						out.push_back({ fmt("index record %zu %s size %+d (CRC32 fixed)", r + 1, which ? "uncompressed" : "unpadded", d), b });
				}
				lzma_index_end(n, nullptr);
			}
			if (recs.size() >= 2 && recs[0] != recs[1]) {
				auto rr = recs; std::swap(rr[0], rr[1]);
				lzma_index *n = lzma_index_init(nullptr);
				for (auto &x : rr) lzma_index_append(n, nullptr, x.first, x.second);
				if (lzma_index_size(n) == f.len) {
					Bytes b = a.file; size_t op = f.off;
					if (lzma_index_buffer_encode(n, b.data(), &op, f.off + f.len) == LZMA_OK) out.push_back({ "index records 1 and 2 swapped (CRC32 fixed)", b });
				}
				lzma_index_end(n, nullptr);
			}
		}
	}
}

static const std::vector<Rewrite> &rewrites_of(size_t art_index)
{
	static std::vector<std::vector<Rewrite>> all;
	auto &arts = sweep_arts();
	if (all.empty()) { all.resize(arts.size()); for (size_t i = 0; i < arts.size(); ++i) make_rewrites(arts[i], all[i]); }
	return all[art_index];
}

static const char *field_at(const XzInfo &info, size_t pos)
{
	for (auto &f : info.fields) if (pos >= f.off && pos < f.off + f.len) return f.field.c_str();
	return "?";
}

static void c05_gen(Rng &rng, Plan &plan, bool thorough)
{
	gen_sched_params(rng, plan, thorough);
	uint64_t idx = plan.seed % 1000000ull;
	if (idx % 5 != 4) {
		// complete sweep of single-bit flips and truncations of the small artefacts
		uint64_t j = idx / 5 * 4 + idx % 5;
		plan.setp("mode", 0);
		plan.setp("sweep_index", (int64_t)j);
		plan.setp("variant", (int64_t)(plan.seed / 1000000ull));
	} else {
		plan.setp("mode", 1);
		gen_art_params(rng, plan, thorough, thorough ? 40000 : 12000);
		if (plan.p("art_src") == 1) plan.setp("art_src", 0), gen_artefact_params(rng, plan, thorough, 12000);
		gen_storage_faults(rng, plan, 3);
		plan.setp("dec_pick", (int64_t)rng.below(1000));
		plan.setp("concatenated", (int64_t)rng.below(2));
		plan.setp("threads", rng.range(1, 4));
		plan.setp("delivery", (int64_t)rng.below(3));
		plan.setp("delivery_seed", (int64_t)(rng.next() >> 2));
	}
}

static void judge_c05(Verdict &v, const Bytes &orig, const Bytes &damaged, const Bytes &plain, bool has_check, const Outcome &o,
		bool nonpayload_damage, bool truncated_inside, const std::string &ctx,
		const std::vector<size_t> *lz_member_ends = nullptr, const std::vector<size_t> *lz_plain_ends = nullptr)
{
	if (!o.error.empty()) { v.fail(o.cls, "C05/" + o.cls, o.error + ctx); return; }
	if (damaged == orig) return;   // the fault did not change anything
	if (o.status == LZMA_STREAM_END && lz_member_ends) {
		// The .lz format defines whatever follows the last member and does not
		// begin with the ID string as foreign trailing data. Damage to the ID
		// string of a later member therefore yields, by the format's own rule,
		// a shorter valid file: the leading members followed by trailing data.
		for (size_t k = 0; k + 1 < lz_member_ends->size(); ++k) {
			size_t e = (*lz_member_ends)[k];
			// the decoder verified the first k+1 members (CRC32, sizes) and
			// then met something that is not an ID string
			if (o.out.size() == (*lz_plain_ends)[k] && o.total_in <= e + 3
					&& (o.out.empty() || memcmp(o.out.data(), plain.data(), o.out.size()) == 0)) {
				v.count("reach.lz_damage_became_trailing_data");
				return;
			}
		}
	}
	if (o.status == LZMA_STREAM_END) {
		if (has_check && o.out != plain) { v.fail("silent-corruption", "C05/silent-corruption", fmt("decoder reported LZMA_STREAM_END but delivered %zu bytes that differ from the original %zu bytes", o.out.size(), plain.size()) + ctx); return; }
		if (nonpayload_damage) { v.fail("damage-accepted", "C05/damage-accepted", "damage outside the compressed payload was accepted (LZMA_STREAM_END)" + ctx); return; }
		if (truncated_inside) { v.fail("truncation-accepted", "C05/truncation-accepted", "a file that ends inside a stream was reported complete" + ctx); return; }
	}
}

static void c05_exec(const Plan &plan, Verdict &v)
{
	v.count("runs.total");
	if (plan.p("mode") == 0) {
		auto &arts = sweep_arts();
		// index space: for each artefact: bits (8*size) then truncation lengths (size), times decoder variants
		uint64_t j = (uint64_t)plan.p("sweep_index");
		uint64_t total = 0;
		for (size_t ai = 0; ai < arts.size(); ++ai) total += arts[ai].file.size() * 9 + rewrites_of(ai).size();
		uint64_t dv = j / total;      // decoder variant
		j %= total;
		SweepArt *a = nullptr;
		size_t art_index = 0;
		for (size_t ai = 0; ai < arts.size(); ++ai) {
			uint64_t n = arts[ai].file.size() * 9 + rewrites_of(ai).size();
			if (j < n) { a = &arts[ai]; art_index = ai; break; }
			j -= n;
		}
		if (!a) return;
		Bytes damaged = a->file;
		bool rewrite = j >= a->file.size() * 9;
		bool trunc = !rewrite && j >= a->file.size() * 8;
		size_t pos = 0;
		std::string rewrite_what;
		if (rewrite) {
			const Rewrite &rw = rewrites_of(art_index)[(size_t)(j - a->file.size() * 9)];
			damaged = rw.file; rewrite_what = rw.what;
			while (pos < damaged.size() && damaged[pos] == a->file[pos]) ++pos;
			v.count("fault.storage_consistent_rewrite");
		}
		else if (trunc) { pos = (size_t)(j - a->file.size() * 8); damaged.resize(pos); v.count("fault.storage_truncate"); }
		else { pos = (size_t)(j / 8); damaged[pos] ^= (uint8_t)(1u << (j % 8)); v.count("fault.storage_flip"); }
		DecSpec sp;
		Chain dummy;
		sp.chain = &dummy;
		static const int kinds_xz[] = { DEC_STREAM, DEC_MT, DEC_AUTO, DEC_STREAM };
		uint32_t variant = (uint32_t)(dv % 4);
		sp.kind = a->fmt == 0 ? kinds_xz[variant] : a->fmt == 1 ? (variant % 2 ? DEC_AUTO : DEC_ALONE) : (variant % 2 ? DEC_AUTO : DEC_LZIP);
		bool concat = a->fmt != 1 && (variant != 3);
		sp.flags = concat ? LZMA_CONCATENATED : 0;
		sp.threads = 2;
		Delivery dl; dl.mode = (int)(dv % 3 == 0 ? 0 : dv % 3 == 1 ? 2 : 1); dl.seed = (uint64_t)plan.p("variant", 1) * 7919 + j; dl.finish = true;
		Outcome o;
		drive(sp, damaged, dl, o);
		// which part of the file is the decoder asked to read?
		size_t read_end = a->file.size();
		if (!concat && !a->stream_ends.empty()) read_end = a->stream_ends[0];
		bool in_scope = pos < read_end;
		bool nonpayload = false, trunc_inside = false;
		if (!trunc && a->fmt == 0 && in_scope) {
			std::string f = field_at(a->info, pos);
			nonpayload = f != "payload" && f != "?";
			v.count("field." + f);
		}
		if (rewrite) nonpayload = in_scope;
		bool ref_valid = false;
		Bytes ref_out;
		if (rewrite && rewrites_of(art_index)[(size_t)(j - a->file.size() * 9)].by_reference) {
			ref::XzResult want = ref::parse_xz(damaged.data(), damaged.size(), concat);
			if (want.verdict == ref::XZ_VALID) { ref_valid = true; ref_out.swap(want.out); nonpayload = false; v.count("reach.consistent_rewrite_still_valid"); }
			else v.count(want.verdict == ref::XZ_UNSUPPORTED ? "reach.consistent_rewrite_unsupported" : "reach.consistent_rewrite_invalid");
		}
		if (trunc) {
			// a proper prefix that does not end at a Stream boundary (or inside
			// padding, whose 4-byte granularity the decoder checks) ends inside a stream
			bool at_boundary = false;
			for (size_t e : a->stream_ends) if (pos == e) at_boundary = true;
			trunc_inside = !at_boundary && pos < read_end;
			if (a->fmt == 0 && pos > 0) {
				// inside Stream Padding a cut at a multiple of four is a complete file
				std::string f = field_at(a->info, pos - 1), g = pos < a->file.size() ? field_at(a->info, pos) : "?";
				if (f == "stream_padding" || g == "stream_padding") { size_t start = 0; for (auto &fl : a->info.fields) if (fl.field == "stream_padding" && pos >= fl.off && pos <= fl.off + fl.len) start = fl.off; if ((pos - start) % 4 == 0) trunc_inside = false; }
			}
			if (pos == 0) trunc_inside = true;   // empty file: never a complete stream
		}
		std::string ctx = fmt(" [%s, %s at byte %zu%s, %s, delivery %d, field %s]", a->name.c_str(), rewrite ? rewrite_what.c_str() : trunc ? "truncated" : "bit flipped", pos, (trunc || rewrite) ? "" : fmt(" bit %d", (int)(j % 8)).c_str(), dec_names[sp.kind], dl.mode, a->fmt == 0 && pos < a->file.size() ? field_at(a->info, pos) : "-");
		if (!in_scope && !trunc) {
			// damage beyond what the decoder is asked to read: nothing promised,
			// but still never wrong data with success for the part it read
			if (o.status == LZMA_STREAM_END) {
				Bytes expect(a->plain);
				// first stream only
				(void)expect;
			}
			v.count("runs.out_of_scope");
			return;
		}
		if (trunc && !trunc_inside) {
			// cut at a Stream/member boundary (or inside Stream Padding at a
			// multiple of four): a complete, shorter file
			if (!o.error.empty()) v.fail(o.cls, "C05/" + o.cls, o.error + ctx);
			v.count("runs.cut_at_boundary");
			return;
		}
		Bytes expect_plain = a->plain;
		if (!concat && a->stream_ends.size() > 1) {
			// single-stream decode: only the first Stream's data is expected
			DecSpec s2 = sp; s2.flags = 0;
			Outcome clean; Delivery d0; drive(s2, a->file, d0, clean);
			expect_plain = clean.out;
		}
		std::vector<size_t> lz_plain = { 100, 180 };
		if (ref_valid) {
			// the rewritten file is a valid file in its own right (the reference parser accepts it)
			if (!o.error.empty()) { v.fail(o.cls, "C05/" + o.cls, o.error + ctx); return; }
			if (o.status == LZMA_STREAM_END && o.out != ref_out) { v.fail("silent-corruption", "C05/silent-corruption", fmt("a rewritten but valid file decoded to %zu bytes that differ from the specification's decoding (%zu bytes)", o.out.size(), ref_out.size()) + ctx); return; }
			if (o.status != LZMA_STREAM_END) { v.fail("valid-rewrite-rejected", "C05/valid-rewrite-rejected", fmt("a rewritten file that is valid per the format specification was rejected with %s", ret_name(o.status)) + ctx); return; }
		} else
		judge_c05(v, a->file, damaged, expect_plain, a->has_check, o, nonpayload, trunc_inside, ctx, a->fmt == 2 ? &a->stream_ends : nullptr, a->fmt == 2 ? &lz_plain : nullptr);
		v.feature(mix64(mix64(fnv_str(a->name), (uint64_t)sp.kind), mix64(trunc + 2 * rewrite, rewrite ? j : pos * 8 + (trunc ? 0 : j % 8))));
		v.feature2(mix64(mix64(fnv_str(a->fmt == 0 && pos < a->file.size() ? field_at(a->info, pos) : "-"), (uint64_t)trunc), (uint64_t)sp.kind));
		return;
	}
	// random multi-byte faults on larger artefacts
	Art a;
	std::string err;
	if (!make_art(plan, a, err)) { if (err == "raw encoder rejects chain") return; v.fail("harness", "harness/artefact", err); return; }
	if (a.fmt == 3) return;
	Bytes damaged = a.file;
	for (auto &op : plan.ops) if (op.name == "sfault") apply_one_fault(op, damaged, &v);
	Rng pick((uint64_t)plan.p("dec_pick"));
	DecSpec sp;
	sp.kind = natural_decoder(a, pick);
	sp.chain = &a.chain;
	bool concat = plan.p("concatenated", 1) != 0 && a.fmt != 1;
	sp.flags = concat ? LZMA_CONCATENATED : 0;
	sp.threads = (uint32_t)plan.p("threads", 2);
	Delivery dl; dl.mode = (int)plan.p("delivery", 0) == 0 ? 0 : 2; dl.seed = (uint64_t)plan.p("delivery_seed"); dl.finish = true;
	Outcome o;
	drive(sp, damaged, dl, o);
	Outcome clean; Delivery d0; drive(sp, a.file, d0, clean);
	if (clean.status != LZMA_STREAM_END) { v.count("runs.clean_not_accepted"); return; }
	std::string ctx = fmt(" [%s (%zu bytes, %zu faults), %s, concatenated %d]", a.name.c_str(), a.file.size(), plan.ops.size(), dec_names[sp.kind], (int)concat);
	if (o.error.empty() && o.status == LZMA_STREAM_END && o.out != clean.out && damaged != a.file) {
		// Inserting, duplicating or deleting bytes can produce another file that is valid in its own
		// right (a whole member or Stream duplicated or removed). The independent reference parser
		// decides; such a file must then decode to the specification's bytes.
		bool ref_valid = false; Bytes ref_out;
		if (a.fmt == 0) { ref::XzResult w = ref::parse_xz(damaged.data(), damaged.size(), concat); ref_valid = w.verdict == ref::XZ_VALID; ref_out.swap(w.out); }
		else if (a.fmt == 2) { LzResult w = ref_lzip(damaged, concat); ref_valid = w.verdict == 0; ref_out.swap(w.out); }
		else if (a.fmt == 1) { ref::AloneResult w = ref::decode_alone(damaged.data(), damaged.size()); ref_valid = w.valid && w.consumed == damaged.size(); ref_out.swap(w.out); }
		if (ref_valid && ref_out == o.out) { v.count("reach.damage_produced_another_valid_file"); return; }
	}
	judge_c05(v, a.file, damaged, clean.out, a.has_check, o, false, false, ctx, a.fmt == 2 ? &a.member_ends : nullptr, a.fmt == 2 ? &a.member_plain_ends : nullptr);
	v.feature(fnv_str(plan.to_text(false)));
	v.feature2(mix64((uint64_t)sp.kind, mix64((uint64_t)o.status, (uint64_t)a.fmt)));
}

REGISTER_SCENARIO(c05_main, "C05", "storage_faults", 100, 100, c05_gen, c05_exec, true);

} // namespace
