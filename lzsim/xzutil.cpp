#include "xzutil.hpp"

// ------------------------------------------------------------- chains
static const lzma_vli bcj_ids[] = { LZMA_FILTER_X86, LZMA_FILTER_POWERPC, LZMA_FILTER_IA64,
	LZMA_FILTER_ARM, LZMA_FILTER_ARMTHUMB, LZMA_FILTER_SPARC, LZMA_FILTER_ARM64, LZMA_FILTER_RISCV };
static const char *bcj_names[] = { "x86", "powerpc", "ia64", "arm", "armthumb", "sparc", "arm64", "riscv" };
static const uint32_t bcj_align[] = { 1, 4, 16, 4, 2, 4, 4, 2 };

void gen_chain_params(Rng &rng, Plan &plan, bool allow_bcj, bool small_dicts)
{
	int shape = (int)rng.below(allow_bcj ? 6 : 2);
	plan.setp("ch_shape", shape);
	plan.setp("ch_preset", (int64_t)rng.below(small_dicts ? 4 : 7));
	static const int64_t dicts[] = { 4096, 4097, 8192, 12288, 65536, 65535, 1 << 17, 1 << 20, 3 << 19 };
	if (rng.chance(700)) plan.setp("ch_dict", dicts[rng.below(small_dicts ? 6 : 9)]);
	if (rng.chance(400)) {
		int lc = (int)rng.below(5), lp = (int)rng.below(5 - (unsigned)lc);
		plan.setp("ch_lc", lc); plan.setp("ch_lp", lp); plan.setp("ch_pb", (int64_t)rng.below(5));
	}
	if (rng.chance(400)) {
		static const int mfs[] = { LZMA_MF_HC3, LZMA_MF_HC4, LZMA_MF_BT2, LZMA_MF_BT3, LZMA_MF_BT4 };
		plan.setp("ch_mf", mfs[rng.below(5)]);
		plan.setp("ch_mode", rng.chance(500) ? LZMA_MODE_FAST : LZMA_MODE_NORMAL);
		plan.setp("ch_nice", rng.range(2, 273));
		plan.setp("ch_depth", rng.chance(500) ? 0 : rng.range(1, 40));
	}
	if (shape == 1 || shape == 3) plan.setp("ch_delta_dist", rng.range(1, 256));
	if (rng.chance(120)) { plan.setp("ch_extra_delta", rng.range(1, 3)); if (!plan.hasp("ch_delta_dist")) plan.setp("ch_delta_dist", rng.range(1, 256)); }
	if (shape >= 2) {
		int b = (int)rng.below(8);
		plan.setp("ch_bcj", b);
		if (rng.chance(300)) plan.setp("ch_bcj_start", (int64_t)(rng.below(1 << 16) * bcj_align[b]));
	}
}

void chain_from_plan(const Plan &plan, Chain &c)
{
	memset(c.f, 0, sizeof c.f);
	memset(&c.bcj, 0, sizeof c.bcj);
	memset(&c.delta, 0, sizeof c.delta);
	lzma_lzma_preset(&c.lz, (uint32_t)plan.p("ch_preset", 1));
	if (plan.hasp("ch_dict")) c.lz.dict_size = (uint32_t)plan.p("ch_dict");
	if (plan.hasp("ch_lc")) { c.lz.lc = (uint32_t)plan.p("ch_lc"); c.lz.lp = (uint32_t)plan.p("ch_lp"); c.lz.pb = (uint32_t)plan.p("ch_pb"); }
	if (plan.hasp("ch_mf")) {
		c.lz.mf = (lzma_match_finder)plan.p("ch_mf");
		c.lz.mode = (lzma_mode)plan.p("ch_mode", LZMA_MODE_NORMAL);
		uint32_t nice = (uint32_t)plan.p("ch_nice", 64);
		// nice_len must be at least the match finder's minimum
		uint32_t minlen = (c.lz.mf & 0x0F);
		if (nice < minlen) nice = minlen;
		if (nice < 2) nice = 2;
		if (nice > 273) nice = 273;
		c.lz.nice_len = nice;
		c.lz.depth = (uint32_t)plan.p("ch_depth", 0);
	}
	if (plan.p("ch_pdict", 0) > 0) {
		c.preset_dict = gen_input(IN_TEXT, (size_t)plan.p("ch_pdict"), (uint64_t)plan.p("ch_pdict_seed", 7));
		c.lz.preset_dict = c.preset_dict.data();
		c.lz.preset_dict_size = (uint32_t)c.preset_dict.size();
	}
	c.lzma1 = plan.p("ch_lzma1", 0) != 0;
	int shape = (int)plan.p("ch_shape", 0);
	int n = 0;
	c.has_bcj = false;
	c.desc.clear();
	int b = (int)plan.p("ch_bcj", 0) & 7;
	{
		// up to LZMA_FILTERS_MAX filters: extra Delta filters in front of the chain
		int want = (int)plan.p("ch_extra_delta", 0), have = 1 + (shape >= 2) + (shape == 1 || shape == 3);
		memset(&c.delta2, 0, sizeof c.delta2);
		c.delta2.type = LZMA_DELTA_TYPE_BYTE; c.delta2.dist = 1 + (uint32_t)(plan.p("ch_delta_dist", 1) * 7 % 256);
		for (int k = 0; k < want && have + k < LZMA_FILTERS_MAX; ++k) { c.f[n].id = LZMA_FILTER_DELTA; c.f[n].options = &c.delta2; ++n; c.desc += "delta+"; }
	}
	if (shape >= 2) {
		c.f[n].id = bcj_ids[b];
		if (plan.hasp("ch_bcj_start")) { c.bcj.start_offset = (uint32_t)plan.p("ch_bcj_start"); c.f[n].options = &c.bcj; }
		else c.f[n].options = nullptr;
		++n;
		c.has_bcj = true;
		c.desc += std::string(bcj_names[b]) + "+";
	}
	if (shape == 1 || shape == 3) {
		c.delta.type = LZMA_DELTA_TYPE_BYTE;
		c.delta.dist = (uint32_t)plan.p("ch_delta_dist", 1);
		if (c.delta.dist < 1) c.delta.dist = 1;
		if (c.delta.dist > 256) c.delta.dist = 256;
		c.f[n].id = LZMA_FILTER_DELTA; c.f[n].options = &c.delta; ++n;
		c.desc += "delta+";
	}
	c.f[n].id = c.lzma1 ? LZMA_FILTER_LZMA1 : LZMA_FILTER_LZMA2;
	c.f[n].options = &c.lz; ++n;
	c.desc += c.lzma1 ? "lzma1" : "lzma2";
	c.f[n].id = LZMA_VLI_UNKNOWN; c.f[n].options = nullptr;

	if (plan.p("ch_via_string", 0) && c.preset_dict.empty() && plan.p("ch_extra_delta", 0) == 0) {
		// C06: the same chain given in its textual form
		char *str = nullptr;
		if (lzma_str_from_filters(&str, c.f, LZMA_STR_ENCODER, nullptr) == LZMA_OK && str) {
			lzma_filter g[LZMA_FILTERS_MAX + 1];
			int errpos = 0;
			const char *msg = lzma_str_to_filters(str, &errpos, g, 0, nullptr);
			if (msg == nullptr) {
				for (int i = 0; g[i].id != LZMA_VLI_UNKNOWN; ++i) {
					c.f[i].id = g[i].id;
					if (g[i].id == LZMA_FILTER_LZMA1 || g[i].id == LZMA_FILTER_LZMA2) { c.lz = *(lzma_options_lzma *)g[i].options; c.f[i].options = &c.lz; }
					else if (g[i].id == LZMA_FILTER_DELTA) { c.delta = *(lzma_options_delta *)g[i].options; c.f[i].options = &c.delta; }
					else if (g[i].options) { c.bcj = *(lzma_options_bcj *)g[i].options; c.f[i].options = &c.bcj; }
					else c.f[i].options = nullptr;
				}
				lzma_filters_free(g, nullptr);
				c.desc += "(via string)";
			}
			free(str);
		}
	}
}

// ---------------------------------------------------------- artefacts
bool xz_build_sized(const Bytes &in, const std::vector<size_t> &block_sizes, lzma_filter *filters,
		lzma_check check, Bytes &out, XzInfo *info, std::string &err, int spoil_block)
{
	lzma_stream_flags sf;
	memset(&sf, 0, sizeof sf);
	sf.version = 0;
	sf.check = check;
	uint8_t hdr[LZMA_STREAM_HEADER_SIZE];
	if (lzma_stream_header_encode(&sf, hdr) != LZMA_OK) { err = "stream_header_encode"; return false; }
	size_t base = out.size();
	out.insert(out.end(), hdr, hdr + sizeof hdr);
	if (info) info->fields.push_back({ base, sizeof hdr, "stream_header" });
	lzma_index *idx = lzma_index_init(nullptr);
	if (!idx) { err = "index_init"; return false; }
	size_t pos = 0;
	size_t bi = 0;
	for (;;) {
		size_t n;
		if (bi < block_sizes.size()) n = block_sizes[bi];
		else if (pos < in.size()) n = in.size() - pos;
		else break;
		if (n > in.size() - pos) n = in.size() - pos;
		++bi;
		lzma_block blk;
		memset(&blk, 0, sizeof blk);
		blk.version = 0;
		blk.check = check;
		blk.filters = filters;
		size_t bound = lzma_block_buffer_bound(n);
		if (bound == 0) { lzma_index_end(idx, nullptr); err = "block_buffer_bound"; return false; }
		Bytes tmp(bound);
		size_t opos = 0;
		lzma_ret r = lzma_block_buffer_encode(&blk, nullptr, in.data() + pos, n, tmp.data(), &opos, tmp.size());
		if (r != LZMA_OK) { lzma_index_end(idx, nullptr); err = fmt("block_buffer_encode %s", ret_name(r)); return false; }
		if (spoil_block > 0 && (size_t)spoil_block == bi) {
			// Re-encode this Block Header with a filter chain that is well formed (known IDs, valid
			// property sizes, right CRC32) and passes the memory-usage calculation, but which the Block
			// decoder's initialisation must refuse: a BCJ filter whose start offset is not a multiple of
			// its alignment, put in front of the real chain.
			lzma_filter df[LZMA_FILTERS_MAX + 1];
			lzma_block db; memset(&db, 0, sizeof db);
			db.check = check; db.filters = df;
			db.header_size = lzma_block_header_size_decode(tmp[0]);
			if (lzma_block_header_decode(&db, nullptr, tmp.data()) == LZMA_OK) {
				int nf = 0; while (df[nf].id != LZMA_VLI_UNKNOWN) ++nf;
				if (nf < LZMA_FILTERS_MAX) {
					static lzma_options_bcj bo; memset(&bo, 0, sizeof bo); bo.start_offset = 2;
					lzma_filter nfl[LZMA_FILTERS_MAX + 1];
					nfl[0].id = (spoil_block & 1) ? LZMA_FILTER_ARM : LZMA_FILTER_POWERPC; nfl[0].options = &bo;
					for (int q = 0; q <= nf; ++q) nfl[q + 1] = df[q];
					uint32_t old_hs = db.header_size;
					db.filters = nfl;
					if (lzma_block_header_size(&db) == LZMA_OK) {
						Bytes nh(db.header_size);
						if (lzma_block_header_encode(&db, nh.data()) == LZMA_OK) {
							tmp.erase(tmp.begin(), tmp.begin() + old_hs);
							tmp.insert(tmp.begin(), nh.begin(), nh.end());
							opos = opos - old_hs + db.header_size;
							blk.header_size = db.header_size;
							if (info) info->spoiled_blocks++;
						}
					}
				}
				lzma_filters_free(df, nullptr);
			}
		}
		size_t boff = out.size();
		out.insert(out.end(), tmp.begin(), tmp.begin() + (long)opos);
		lzma_vli unpadded = lzma_block_unpadded_size(&blk);
		if (info) {
			size_t csize = (size_t)blk.compressed_size;
			size_t chk = lzma_check_size(check);
			info->fields.push_back({ boff, blk.header_size, "block_header" });
			info->fields.push_back({ boff + blk.header_size, csize, "payload" });
			size_t padlen = opos - blk.header_size - csize - chk;
			if (padlen) info->fields.push_back({ boff + blk.header_size + csize, padlen, "block_padding" });
			if (chk) info->fields.push_back({ boff + opos - chk, chk, "check" });
			++info->n_blocks;
			info->block_plain_sizes.push_back(n);
		}
		if (lzma_index_append(idx, nullptr, unpadded, blk.uncompressed_size) != LZMA_OK) { lzma_index_end(idx, nullptr); err = "index_append"; return false; }
		pos += n;
		if (bi >= block_sizes.size() && pos >= in.size()) break;
	}
	size_t isz = (size_t)lzma_index_size(idx);
	Bytes ib(isz);
	size_t ipos = 0;
	if (lzma_index_buffer_encode(idx, ib.data(), &ipos, ib.size()) != LZMA_OK) { lzma_index_end(idx, nullptr); err = "index_buffer_encode"; return false; }
	if (info) info->fields.push_back({ out.size(), ipos, "index" });
	out.insert(out.end(), ib.begin(), ib.begin() + (long)ipos);
	sf.backward_size = lzma_index_size(idx);
	lzma_index_end(idx, nullptr);
	uint8_t ftr[LZMA_STREAM_HEADER_SIZE];
	if (lzma_stream_footer_encode(&sf, ftr) != LZMA_OK) { err = "stream_footer_encode"; return false; }
	if (info) { info->fields.push_back({ out.size(), sizeof ftr, "stream_footer" }); ++info->n_streams; }
	out.insert(out.end(), ftr, ftr + sizeof ftr);
	return true;
}

bool xz_build_unsized(const Bytes &in, const std::vector<size_t> &block_sizes, lzma_filter *filters,
		lzma_check check, Bytes &out, std::string &err)
{
	lzma_stream s = LZMA_STREAM_INIT;
	lzma_ret r = lzma_stream_encoder(&s, filters, check);
	if (r != LZMA_OK) { err = fmt("stream_encoder %s", ret_name(r)); return false; }
	Bytes buf(65536);
	size_t pos = 0, bi = 0;
	bool ok = true;
	while (ok) {
		size_t n = bi < block_sizes.size() ? block_sizes[bi] : in.size() - pos;
		if (n > in.size() - pos) n = in.size() - pos;
		++bi;
		bool last = pos + n >= in.size() && bi >= block_sizes.size();
		s.next_in = in.data() + pos;
		s.avail_in = n;
		lzma_action act = last ? LZMA_FINISH : LZMA_FULL_FLUSH;
		for (;;) {
			s.next_out = buf.data(); s.avail_out = buf.size();
			r = lzma_code(&s, act);
			out.insert(out.end(), buf.data(), buf.data() + (buf.size() - s.avail_out));
			if (r == LZMA_STREAM_END) break;
			if (r != LZMA_OK) { err = fmt("lzma_code %s", ret_name(r)); ok = false; break; }
		}
		pos += n;
		if (last) break;
	}
	lzma_end(&s);
	return ok;
}

void gen_artefact_params(Rng &rng, Plan &plan, bool thorough, size_t max_len)
{
	int ns = rng.chance(750) ? 1 : (int)rng.range(2, 3);
	plan.setp("art_streams", ns);
	plan.setp("art_seed", (int64_t)(rng.next() >> 2));
	for (int i = 0; i < ns; ++i) {
		std::string p = fmt("art%d_", i);
		plan.setp(p + "kind", rng.chance(800) ? 0 : 1);
		int cls = (int)rng.below(IN_CLASS_COUNT);
		size_t len = (size_t)rng.size_skewed(max_len);
		if (cls >= IN_RANDOM && len < 2) len = 2 + (size_t)rng.below(3000);
		if (rng.chance(600)) len = 2000 + (size_t)rng.below(max_len > 2000 ? max_len - 2000 : 1);
		plan.setp(p + "class", cls);
		plan.setp(p + "len", (int64_t)len);
		static const int64_t bs[] = { 0, 1, 100, 1000, 4096, 9000, 20000, 50000 };
		plan.setp(p + "block", bs[rng.below(8)]);
		plan.setp(p + "empty_blocks", rng.chance(100) ? 1 : 0);
		static const int checks[] = { LZMA_CHECK_NONE, LZMA_CHECK_CRC32, LZMA_CHECK_CRC64, LZMA_CHECK_SHA256 };
		plan.setp(p + "check", checks[rng.below(4)]);
		plan.setp(p + "pad", (int64_t)(rng.chance(700) ? 0 : 4 * rng.below(5)));
	}
	(void)thorough;
}

static void block_sizes_for(Rng &r, size_t len, size_t block, bool empties, std::vector<size_t> &out)
{
	out.clear();
	if (block == 0) { out.push_back(len); return; }
	size_t pos = 0;
	int guard = 0;
	while (pos < len && guard++ < 400) {
		size_t n = 1 + (size_t)r.below(block * 2);
		if (r.chance(300)) n = block;
		if (n > len - pos) n = len - pos;
		if (empties && r.chance(150)) out.push_back(0);
		out.push_back(n);
		pos += n;
	}
	if (pos < len) out.push_back(len - pos);
	if (empties && r.chance(300)) out.push_back(0);
	if (out.empty()) out.push_back(0);
}

bool build_artefact(const Plan &plan, Bytes &file, Bytes &plain, XzInfo &info, std::string &err)
{
	Chain c;
	chain_from_plan(plan, c);
	int ns = (int)plan.p("art_streams", 1);
	if (ns < 1) ns = 1;
	if (ns > 4) ns = 4;
	uint64_t aseed = (uint64_t)plan.p("art_seed", 1);
	file.clear(); plain.clear();
	for (int i = 0; i < ns; ++i) {
		std::string p = fmt("art%d_", i);
		int cls = (int)plan.p(p + "class", IN_TEXT);
		size_t len = (size_t)plan.p(p + "len", 1000);
		if (cls == IN_EMPTY) len = 0;
		if (cls == IN_ONE) len = 1;
		Bytes in = gen_input(cls, len, mix64(aseed, (uint64_t)i));
		Rng r = Rng::derive(aseed, "blocks", (uint64_t)i);
		std::vector<size_t> bs;
		block_sizes_for(r, in.size(), (size_t)plan.p(p + "block", 0), plan.p(p + "empty_blocks", 0) != 0, bs);
		lzma_check check = (lzma_check)plan.p(p + "check", LZMA_CHECK_CRC32);
		if (plan.p(p + "kind", 0) == 0) {
			if (!xz_build_sized(in, bs, c.f, check, file, &info, err, (int)plan.p(p + "spoil_block", 0))) return false;
		} else {
			// the stream encoder cannot make empty Blocks: drop zero sizes
			std::vector<size_t> bs2;
			for (size_t b : bs) if (b) bs2.push_back(b);
			size_t before = file.size();
			if (!xz_build_unsized(in, bs2, c.f, check, file, err)) return false;
			info.fields.push_back({ before, file.size() - before, "stream_unsized" });
			++info.n_streams;
			info.n_blocks += bs2.size();
			for (size_t b : bs2) info.block_plain_sizes.push_back(b);
		}
		plain.insert(plain.end(), in.begin(), in.end());
		size_t pad = (size_t)plan.p(p + "pad", 0) & ~(size_t)3;
		if (pad) { info.fields.push_back({ file.size(), pad, "stream_padding" }); file.insert(file.end(), pad, 0); }
	}
	return true;
}

bool lz_build_member(const Bytes &in, int version, uint8_t dict_code, Bytes &out, std::string &err)
{
	uint32_t b2log = dict_code & 0x1F, fracnum = dict_code >> 5;
	uint32_t dict = (1u << b2log) - (fracnum ? (fracnum << (b2log - 4)) : 0);
	lzma_options_lzma lz;
	lzma_lzma_preset(&lz, 1);
	lz.lc = 3; lz.lp = 0; lz.pb = 2;
	lz.dict_size = dict < 4096 ? 4096 : dict;
	lzma_filter f[2] = { { LZMA_FILTER_LZMA1, &lz }, { LZMA_VLI_UNKNOWN, nullptr } };
	lzma_stream s = LZMA_STREAM_INIT;
	lzma_ret r = lzma_raw_encoder(&s, f);
	if (r != LZMA_OK) { err = fmt("raw_encoder %s", ret_name(r)); return false; }
	size_t start = out.size();
	static const uint8_t magic[4] = { 'L', 'Z', 'I', 'P' };
	out.insert(out.end(), magic, magic + 4);
	out.push_back((uint8_t)version);
	out.push_back(dict_code);
	Bytes buf(65536);
	s.next_in = in.data(); s.avail_in = in.size();
	for (;;) {
		s.next_out = buf.data(); s.avail_out = buf.size();
		r = lzma_code(&s, LZMA_FINISH);
		out.insert(out.end(), buf.data(), buf.data() + (buf.size() - s.avail_out));
		if (r == LZMA_STREAM_END) break;
		if (r != LZMA_OK) { lzma_end(&s); err = fmt("lzma_code %s", ret_name(r)); return false; }
	}
	lzma_end(&s);
	uint32_t crc = lzma_crc32(in.data(), in.size(), 0);
	for (int i = 0; i < 4; ++i) out.push_back((uint8_t)(crc >> (8 * i)));
	uint64_t ds = in.size();
	for (int i = 0; i < 8; ++i) out.push_back((uint8_t)(ds >> (8 * i)));
	if (version >= 1) {
		uint64_t ms = out.size() - start + 8;
		for (int i = 0; i < 8; ++i) out.push_back((uint8_t)(ms >> (8 * i)));
	}
	return true;
}

bool lzma_build(const Bytes &in, const lzma_options_lzma *opt, Bytes &out, std::string &err)
{
	lzma_stream s = LZMA_STREAM_INIT;
	lzma_ret r = lzma_alone_encoder(&s, opt);
	if (r != LZMA_OK) { err = fmt("alone_encoder %s", ret_name(r)); return false; }
	Bytes buf(65536);
	s.next_in = in.data(); s.avail_in = in.size();
	for (;;) {
		s.next_out = buf.data(); s.avail_out = buf.size();
		r = lzma_code(&s, LZMA_FINISH);
		out.insert(out.end(), buf.data(), buf.data() + (buf.size() - s.avail_out));
		if (r == LZMA_STREAM_END) break;
		if (r != LZMA_OK) { lzma_end(&s); err = fmt("lzma_code %s", ret_name(r)); return false; }
	}
	lzma_end(&s);
	return true;
}

bool read_test_file(const std::string &name, Bytes &out)
{
	const char *repo = getenv("VERIF_REPO");
	std::string path = std::string(repo ? repo : "/repo") + "/tests/files/" + name;
	FILE *f = fopen(path.c_str(), "rb");
	if (!f) return false;
	out.clear();
	uint8_t buf[65536];
	size_t n;
	while ((n = fread(buf, 1, sizeof buf, f)) > 0) out.insert(out.end(), buf, buf + n);
	fclose(f);
	return true;
}

// ------------------------------------------------------ storage faults
void gen_storage_faults(Rng &rng, Plan &plan, int max_faults)
{
	int n = 1 + (int)rng.below((uint64_t)max_faults);
	for (int i = 0; i < n; ++i) {
		Op op("sfault");
		int kind = (int)rng.below(6);
		if (rng.chance(400)) kind = 0;
		op.set("kind", kind);
		// position as a 1e6-scaled fraction of the file, so that shrinking
		// the artefact keeps the fault inside
		op.set("pos", (int64_t)rng.below(1000000));
		op.set("len", (int64_t)(1 + rng.below(8)));
		op.set("val", (int64_t)rng.below(256));
		plan.ops.push_back(op);
	}
}

void apply_one_fault(const Op &op, Bytes &file, Verdict *v)
{
	if (file.empty()) return;
	int kind = (int)op.get("kind");
	size_t pos;
	if (op.has("abs")) pos = (size_t)op.get("abs") % file.size();
	else pos = (size_t)((double)op.get("pos") / 1000000.0 * (double)file.size()) % file.size();
	size_t len = (size_t)op.get("len", 1);
	uint8_t val = (uint8_t)op.get("val");
	static const char *names[] = { "flip", "overwrite", "insert", "delete", "truncate", "dup", "vli" };
	switch (kind) {
	case 0: file[pos] ^= (uint8_t)(1u << (val & 7)); break;
	case 1: for (size_t i = 0; i < len && pos + i < file.size(); ++i) file[pos + i] = (uint8_t)(val + i * 37); break;
	case 2: file.insert(file.begin() + (long)pos, len, val); break;
	case 3: if (len > file.size() - pos) len = file.size() - pos; file.erase(file.begin() + (long)pos, file.begin() + (long)(pos + len)); break;
	case 4: file.resize(pos); break;
	case 6: {
		// field-level fault: the variable-length integer that starts at pos is
		// replaced by one holding a boundary value (what a hostile writer puts
		// into a count or size field)
		static const uint64_t base[] = { 1ull << 60, (1ull << 60) - 4, (1ull << 61), (1ull << 62), (1ull << 63) - 1, 1ull << 32, (1ull << 32) - 1, 1ull << 31, 1ull << 56, (1ull << 59), (1ull << 60) / 3, (1ull << 63) / 24, UINT64_MAX / 16 / 4, 1ull << 28, 1ull << 35, 0 };
		uint64_t x = base[val % 16] + (uint64_t)(len % 8) - 3;
		if (x > (1ull << 63) - 1) x = (1ull << 63) - 1;
		size_t e = pos;
		while (e < file.size() && e - pos < 9 && (file[e] & 0x80)) ++e;
		if (e < file.size()) ++e;
		uint8_t enc[10]; size_t n = 0;
		while (x >= 0x80) { enc[n++] = (uint8_t)(x | 0x80); x >>= 7; }
		enc[n++] = (uint8_t)x;
		file.erase(file.begin() + (long)pos, file.begin() + (long)e);
		file.insert(file.begin() + (long)pos, enc, enc + n);
		break;
	}
	case 5: { size_t l = len * 16; if (l > file.size() - pos) l = file.size() - pos; Bytes part(file.begin() + (long)pos, file.begin() + (long)(pos + l)); file.insert(file.begin() + (long)pos, part.begin(), part.end()); break; }
	default: return;
	}
	if (v) v->count(std::string("fault.storage_") + names[kind]);
}

void apply_storage_faults(const Plan &plan, Bytes &file, Verdict &v)
{
	for (auto &op : plan.ops)
		if (op.name == "sfault") apply_one_fault(op, file, &v);
}

// --------------------------------------------------- reference decode
DecResult decode_st(int kind, const Bytes &file, uint32_t flags, uint64_t memlimit, bool finish, const lzma_allocator *al)
{
	DecResult res;
	lzma_stream s = LZMA_STREAM_INIT;
	s.allocator = al;
	lzma_ret r;
	switch (kind) {
	case 1: r = lzma_auto_decoder(&s, memlimit, flags); break;
	case 2: r = lzma_alone_decoder(&s, memlimit); break;
	case 3: r = lzma_lzip_decoder(&s, memlimit, flags); break;
	default: r = lzma_stream_decoder(&s, memlimit, flags); break;
	}
	if (r != LZMA_OK) { res.status = r; return res; }
	// one big output buffer: on rejected input the number of bytes delivered
	// before the error depends on where the output space ends (known finding
	// KF-C06-2), so the reference never lets it end
	static Bytes buf(1 << 22);
	s.next_in = file.data();
	s.avail_in = file.size();
	int stuck = 0;
	for (;;) {
		s.next_out = buf.data(); s.avail_out = buf.size();
		size_t in_before = s.avail_in;
		r = lzma_code(&s, finish ? LZMA_FINISH : LZMA_RUN);
		size_t produced = buf.size() - s.avail_out;
		res.out.insert(res.out.end(), buf.data(), buf.data() + produced);
		if (is_notice(r)) { res.notices.push_back((int)r); continue; }
		if (r != LZMA_OK) break;
		if (produced == 0 && s.avail_in == in_before) { if (++stuck > 3) break; } else stuck = 0;
	}
	res.status = r;
	res.total_in = s.total_in;
	res.memusage = lzma_memusage(&s);
	lzma_end(&s);
	return res;
}

// ------------------------------------------------------- dirty handles
DirtySpec g_dirty;

namespace {
struct DirtyArts {
	Bytes lzma_unknown, lzma_known, xz2, lz2, raw2, text;
	lzma_options_lzma lz;
	bool ok = false;
	DirtyArts()
	{
		text = gen_input(IN_TEXT, 3000, 4242);
		std::string err;
		lzma_lzma_preset(&lz, 0);
		lz.dict_size = 1 << 20;
		if (!lzma_build(text, &lz, lzma_unknown, err)) return;
		lzma_known = lzma_unknown;
		// known size: the stream still ends with its end marker, which is valid
		for (int i = 0; i < 8; ++i) lzma_known[5 + (size_t)i] = (uint8_t)((uint64_t)text.size() >> (8 * i));
		lzma_filter f[2] = { { LZMA_FILTER_LZMA2, &lz }, { LZMA_VLI_UNKNOWN, nullptr } };
		std::vector<size_t> bs = { 1200, 1800 };
		if (!xz_build_sized(text, bs, f, LZMA_CHECK_SHA256, xz2, nullptr, err)) return;
		Bytes a(text.begin(), text.begin() + 1500), b(text.begin() + 1500, text.end());
		if (!lz_build_member(a, 1, 0x14, lz2, err) || !lz_build_member(b, 0, 0x0C, lz2, err)) return;
		lzma_stream s = LZMA_STREAM_INIT;
		if (lzma_raw_encoder(&s, f) != LZMA_OK) return;
		Bytes buf(8192); s.next_in = text.data(); s.avail_in = text.size(); s.next_out = buf.data(); s.avail_out = buf.size();
		if (lzma_code(&s, LZMA_FINISH) != LZMA_STREAM_END) { lzma_end(&s); return; }
		raw2.assign(buf.data(), buf.data() + (buf.size() - s.avail_out));
		lzma_end(&s);
		ok = true;
	}
};
}

void dirty_preuse(lzma_stream *s)
{
	static DirtyArts A;
	if (!A.ok) return;
	lzma_filter f[2] = { { LZMA_FILTER_LZMA2, &A.lz }, { LZMA_VLI_UNKNOWN, nullptr } };
	const Bytes *in = nullptr;
	lzma_ret r = LZMA_PROG_ERROR;
	bool partial = false, encoder = false;
	switch (g_dirty.kind) {
	case 1: r = lzma_alone_decoder(s, UINT64_MAX); in = &A.lzma_unknown; break;
	case 2: r = lzma_alone_decoder(s, UINT64_MAX); in = &A.lzma_known; break;
	case 3: r = lzma_alone_decoder(s, UINT64_MAX); in = &A.lzma_known; partial = true; break;
	case 4: r = lzma_stream_decoder(s, UINT64_MAX, LZMA_CONCATENATED); in = &A.xz2; break;
	case 5: r = lzma_stream_decoder(s, UINT64_MAX, LZMA_TELL_ANY_CHECK); in = &A.xz2; partial = true; break;
	case 6: r = lzma_lzip_decoder(s, UINT64_MAX, LZMA_CONCATENATED); in = &A.lz2; break;
	case 7: r = lzma_auto_decoder(s, UINT64_MAX, 0); in = &A.lzma_known; partial = (g_dirty.seed & 1) != 0; break;
	case 8: r = lzma_easy_encoder(s, 1, LZMA_CHECK_CRC64); in = &A.text; encoder = true; partial = true; break;
	case 9: r = lzma_raw_decoder(s, f); in = &A.raw2; break;
	default: { lzma_mt mt; memset(&mt, 0, sizeof mt); mt.threads = 2; mt.memlimit_stop = UINT64_MAX; mt.memlimit_threading = UINT64_MAX; r = lzma_stream_decoder_mt(s, &mt); in = &A.xz2; break; }
	}
	if (r != LZMA_OK) return;
	size_t n = in->size();
	if (partial) n = 14 + (size_t)(g_dirty.seed % (in->size() - 14));
	Bytes ib(in->begin(), in->begin() + (long)n), ob(8192);
	s->next_in = ib.data(); s->avail_in = ib.size();
	for (int guard = 0; guard < 1000; ++guard) {
		s->next_out = ob.data(); s->avail_out = ob.size();
		r = lzma_code(s, partial || encoder ? LZMA_RUN : LZMA_FINISH);
		if (r == LZMA_GET_CHECK || r == LZMA_NO_CHECK || r == LZMA_UNSUPPORTED_CHECK) continue;
		if (r != LZMA_OK) break;
		if (s->avail_in == 0 && s->avail_out != 0) { if (partial || encoder) break; }
	}
	s->next_in = nullptr; s->avail_in = 0; s->next_out = nullptr; s->avail_out = 0;
	++g_dirty.uses;
}
