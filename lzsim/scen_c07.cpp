// C07 — threaded decompression is equivalent to single-threaded under every
// schedule. Real stream_decoder_mt.c / outqueue.c / block decoders; simulated
// mutexes, condition variables, clock, allocator and client.
#include "core.hpp"
#include "session.hpp"
#include "xzutil.hpp"

static void gen_delivery(Rng &rng, Plan &plan, size_t approx_in, size_t approx_out)
{
	// explicit calls first, then a drain loop
	int n = (int)rng.below(24);
	int style = (int)rng.below(5);
	for (int i = 0; i < n; ++i) {
		Op op("code");
		size_t in_n, out_n;
		switch (style) {
		case 0: in_n = (size_t)rng.size_skewed(65536); out_n = (size_t)rng.size_skewed(65536); break;
		case 1: in_n = 1; out_n = 1 + (size_t)rng.below(3); break;
		case 2: in_n = (size_t)rng.below(3) ? (size_t)rng.size_skewed(8192) : 0; out_n = rng.below(3) ? (size_t)rng.size_skewed(8192) : 0; break;
		case 3: in_n = 1u << 20; out_n = (size_t)rng.size_skewed(4096); break;   // all input, little output
		default: in_n = (size_t)rng.size_skewed(4096); out_n = 1u << 20; break;  // little input, lots of space
		}
		op.set("in", (int64_t)in_n).set("out", (int64_t)out_n);
		plan.ops.push_back(op);
	}
	Op d("drain");
	size_t in_each = 1 + (size_t)rng.size_skewed(65536);
	size_t out_each = 1 + (size_t)rng.size_skewed(65536);
	// keep the number of drain calls bounded
	if (approx_in / in_each > 2000) in_each = approx_in / 2000 + 1;
	if (approx_out / out_each > 2000) out_each = approx_out / 2000 + 1;
	d.set("in_each", (int64_t)in_each).set("out_each", (int64_t)out_each);
	// a client that gives new input only when the output was not filled
	d.set("input_only_if_out_not_full", rng.chance(250) ? 1 : 0);
	static const int64_t fa[] = { 0, 5, 50, 500, 5000 };
	d.set("fair_after", fa[rng.below(5)]);
	plan.ops.push_back(d);
}

static void c07_gen(Rng &rng, Plan &plan, bool thorough)
{
	gen_sched_params(rng, plan, thorough);
	gen_chain_params(rng, plan, true, true);
	size_t max_len = thorough ? 400000 : 120000;
	gen_artefact_params(rng, plan, thorough, max_len);
	// most Blocks should be small enough that several are in flight
	if (rng.chance(700)) {
		static const int64_t bs[] = { 100, 1000, 4096, 9000, 20000 };
		plan.setp("art0_block", bs[rng.below(5)]);
		plan.setp("art0_kind", 0);
	}
	// a later Block whose header is well formed but whose chain the Block decoder's init refuses
	if (rng.chance(120)) { plan.setp("art0_spoil_block", rng.range(2, 9)); plan.setp("art0_kind", 0); }
	int corrupt = (int)rng.below(10);
	if (corrupt >= 5 && !plan.hasp("art0_spoil_block") && rng.chance(400)) plan.setp("exact_out", 1);
	if (corrupt < 4) gen_storage_faults(rng, plan, 2);
	else if (corrupt == 4) { Op op("sfault"); op.set("kind", 4).set("pos", (int64_t)rng.below(1000000)); plan.ops.push_back(op); }

	plan.setp("threads", rng.range(1, 8));
	plan.setp("timeout", rng.chance(500) ? 0 : rng.range(1, 50));
	// memlimit_threading: 0 => 1 byte, 1 => unlimited, otherwise literal
	static const int64_t mt[] = { 1, 1, -1, -1, -1, 40000, 200000, 1000000, 4000000 };
	plan.setp("memlimit_threading", mt[rng.below(9)]);
	static const int64_t ms[] = { -1, -1, -1, -1, -1, 1, 100000, 1500000 };
	plan.setp("memlimit_stop", ms[rng.below(8)]);
	uint32_t flags = 0;
	if (rng.chance(600)) flags |= LZMA_CONCATENATED;
	if (rng.chance(150)) flags |= LZMA_TELL_NO_CHECK;
	if (rng.chance(150)) flags |= LZMA_TELL_UNSUPPORTED_CHECK;
	if (rng.chance(150)) flags |= LZMA_TELL_ANY_CHECK;
	if (rng.chance(100)) flags |= LZMA_IGNORE_CHECK;
	if (rng.chance(150)) flags |= LZMA_FAIL_FAST;
	plan.setp("flags", flags);
	plan.setp("finish", rng.chance(800) ? 1 : 0);
	int ending = (int)rng.below(12);
	if (ending == 0) plan.setp("end_after_calls", (int64_t)rng.below(40));
	if (ending == 1) plan.setp("reinit_after_calls", (int64_t)rng.below(40));
	if (thorough && rng.chance(30)) plan.setp("fault_create_fail_nth", rng.range(1, 4));

	size_t total = 0;
	for (int i = 0; i < plan.p("art_streams"); ++i) total += (size_t)plan.p(fmt("art%d_len", i));
	gen_delivery(rng, plan, total / 3 + 100, total + 100);
}

struct MtRun {
	Bytes out;
	lzma_ret status = LZMA_OK;
	std::vector<int> notices;
	bool ended_early = false;
	uint64_t calls = 0;
	uint64_t memlimit_errors = 0;
	std::string error;   // oracle failures local to the run (accounting, progress, liveness)
	std::string error_cls;
};

static void mt_decode(const Plan &plan, const Bytes &file, SimAlloc &al, MtRun &res, Verdict &v, uint64_t valid_plain_size, bool file_valid)
{
	Session ss(&al.a);
	ss.set_input(&file);
	lzma_mt mt;
	memset(&mt, 0, sizeof mt);
	mt.flags = (uint32_t)plan.p("flags");
	mt.threads = (uint32_t)plan.p("threads", 2);
	if (mt.threads < 1) mt.threads = 1;
	if (mt.threads > 16) mt.threads = 16;
	mt.timeout = (uint32_t)plan.p("timeout", 0);
	int64_t mlt = plan.p("memlimit_threading", -1), mls = plan.p("memlimit_stop", -1);
	mt.memlimit_threading = mlt < 0 ? UINT64_MAX : (uint64_t)(mlt ? mlt : 1);
	mt.memlimit_stop = mls < 0 ? UINT64_MAX : (uint64_t)(mls ? mls : 1);

	int64_t end_after = plan.hasp("end_after_calls") ? plan.p("end_after_calls") : -1;
	int64_t reinit_after = plan.hasp("reinit_after_calls") ? plan.p("reinit_after_calls") : -1;
	bool finish = plan.p("finish", 1) != 0;
	bool create_fault = plan.p("fault_create_fail_nth", 0) != 0;

	lzma_ret r = lzma_stream_decoder_mt(&ss.s, &mt);
	if (r != LZMA_OK) { res.status = r; res.error = "init failed"; res.error_cls = create_fault ? "" : "init"; ss.end(); return; }

	uint64_t prog_in = 0, prog_out = 0;
	auto check_progress = [&]() {
		uint64_t pi = 0, po = 0;
		lzma_get_progress(&ss.s, &pi, &po);
		if (res.error.empty()) {
			if (pi < prog_in || po < prog_out) { res.error = fmt("progress went backwards: in %llu->%llu out %llu->%llu", (unsigned long long)prog_in, (unsigned long long)pi, (unsigned long long)prog_out, (unsigned long long)po); res.error_cls = "progress"; }
			else if (pi > file.size()) { res.error = fmt("progress_in %llu exceeds the %zu bytes that exist", (unsigned long long)pi, file.size()); res.error_cls = "progress"; }
			else if (file_valid && po > valid_plain_size) { res.error = fmt("progress_out %llu exceeds true total %llu", (unsigned long long)po, (unsigned long long)valid_plain_size); res.error_cls = "progress"; }
		}
		prog_in = pi; prog_out = po;
	};

	bool explicit_phase = true;   // the seed-chosen single calls; BUF_ERROR is never final there
	bool prev_stalled = false;
	auto one_call = [&](size_t in_n, size_t out_n, lzma_action a) -> bool {
		// returns false when the session is over
		// did this client hold back input it has, or offer no output space? (then no progress is its own doing)
		bool stalled_now = (std::min(in_n, ss.in_left()) == 0 && ss.in_left() > 0) || out_n == 0;
		bool stall_excuse = stalled_now || prev_stalled;
		prev_stalled = stalled_now;
		lzma_ret rr = ss.step(in_n, out_n, a);
		if (!ret_is_public(rr)) { res.error = fmt("internal status %d leaked", (int)rr); res.error_cls = "internal-ret"; res.status = rr; return false; }
		if (rr == LZMA_MEMLIMIT_ERROR) {
			++res.memlimit_errors;
			v.count("reach.memlimit_error");
			uint64_t need = lzma_memusage(&ss.s);
			(void)need;
			if (lzma_memlimit_set(&ss.s, UINT64_MAX) != LZMA_OK) { res.error = "memlimit_set failed after MEMLIMIT_ERROR"; res.error_cls = "memlimit"; res.status = rr; return false; }
			return true;
		}
		if (is_notice(rr)) return true;
		check_progress();
		if (rr == LZMA_BUF_ERROR && (stall_excuse || explicit_phase)) {
			// not fatal: this client stalled (offered no input or no space
			// twice in a row) and now goes on
			v.count("reach.buf_error_nonfatal");
			return true;
		}
		if (rr != LZMA_OK) { res.status = rr; return false; }
		return true;
	};

	bool over = false;
	bool did_reinit = false;
	bool finishing = false;   // once LZMA_FINISH was used it must be kept
	auto maybe_interrupt = [&]() -> bool {
		if (end_after >= 0 && (int64_t)ss.calls >= end_after) { res.ended_early = true; v.count("reach.early_end"); return true; }
		if (reinit_after >= 0 && !did_reinit && (int64_t)ss.calls >= reinit_after) {
			// re-initialise the same handle without lzma_end and start over
			did_reinit = true;
			v.count("reach.reinit");
			lzma_ret r2 = lzma_stream_decoder_mt(&ss.s, &mt);
			if (r2 != LZMA_OK) { res.status = r2; res.error = "re-init failed"; res.error_cls = create_fault ? "" : "init"; return true; }
			ss.in_pos = 0; ss.out.clear(); ss.notices.clear(); ss.noprog_calls = 0; finishing = false;
			prog_in = prog_out = 0;
		}
		return false;
	};

	for (auto &op : plan.ops) {
		if (over) break;
		if (op.name == "code") {
			if (maybe_interrupt()) { over = true; break; }
			size_t in_n = (size_t)op.get("in"), out_n = (size_t)op.get("out");
			bool last_input = ss.in_left() <= in_n;
			lzma_action a = (finishing || (finish && last_input)) ? LZMA_FINISH : LZMA_RUN;
			if (a == LZMA_FINISH) { in_n = ss.in_left(); finishing = true; }
			if (!one_call(in_n, out_n, a)) over = true;
			// a client may stall at most once here; two no-progress calls in
			// a row give BUF_ERROR legitimately, so skip the rest of the
			// explicit calls once that happened
		} else if (op.name == "drain") {
			explicit_phase = false;
			size_t in_each = (size_t)op.get("in_each", 4096), out_each = (size_t)op.get("out_each", 4096);
			if (in_each < 1) in_each = 1;
			if (out_each < 1) out_each = 1;
			bool gated = op.get("input_only_if_out_not_full") != 0;
			bool exact_out = plan.p("exact_out", 0) != 0 && file_valid && finish;
			bool out_was_full = false;
			uint64_t guard = 0;
			uint64_t guard_max = 40000 + 8 * (file.size() / in_each + (valid_plain_size + file.size() * 4) / out_each);
			bool fair_started = false;
			uint64_t all_offered_calls = 0, fair_after = (uint64_t)op.get("fair_after", 0);
			while (!over) {
				if (maybe_interrupt()) { over = true; break; }
				size_t in_n = in_each;
				if (gated && out_was_full) in_n = 0;
				bool last_input = ss.in_left() <= in_n;
				lzma_action a = (finishing || (finish && last_input)) ? LZMA_FINISH : LZMA_RUN;
				if (a == LZMA_FINISH) { in_n = ss.in_left(); finishing = true; }
				if (!fair_started && (finishing || ss.in_left() <= in_n)) {
					// Everything has been offered and no further fault is
					// injected. After a seed-chosen number of further
					// adversarial calls the schedule becomes fair, and from
					// then on the decoder must finish within the budgets.
					if (all_offered_calls++ >= fair_after) {
						fair_started = true;
						sim_fair_phase();
					}
				}
				if (!fair_started && sim_in_fair_phase()) fair_started = true;   // forced by the step budget
				if (!fair_started) guard = 0;
				size_t before = ss.out.size();
				// a client that knows the uncompressed size offers exactly that much output space and
				// none once it has everything; the decoder must still finish (verify, Index, Footer)
				size_t out_n = out_each;
				if (exact_out) out_n = std::min(out_each, valid_plain_size > ss.out.size() ? valid_plain_size - ss.out.size() : (size_t)0);
				if (!one_call(in_n, out_n, a)) { over = true; break; }
				out_was_full = out_n != 0 && ss.out.size() - before == out_n;
				if (++guard > guard_max) {
					res.error = fmt("no termination after %llu drain calls (in_left=%zu, last=%s)", (unsigned long long)guard, ss.in_left(), ret_name(ss.last));
					res.error_cls = "liveness-calls";
					over = true;
				}
			}
		}
	}
	if (!over && !res.ended_early && res.error.empty()) {
		// plan had no drain op (minimised plan): finish generically
		explicit_phase = false;
		sim_fair_phase();
		uint64_t guard = 0;
		while (true) {
			bool last_input = true;
			lzma_action a = finish && last_input ? LZMA_FINISH : LZMA_RUN;
			if (!one_call(ss.in_left(), 65536, a)) break;
			if (++guard > 200000) { res.error = "no termination in fallback drain"; res.error_cls = "liveness-calls"; break; }
		}
	}
	if (res.error.empty() && !ss.acct_error.empty()) { res.error = ss.acct_error; res.error_cls = "accounting"; }
	if (res.status == LZMA_STREAM_END && res.error.empty()) {
		uint64_t pi = 0, po = 0;
		lzma_get_progress(&ss.s, &pi, &po);
		if (pi != ss.s.total_in || po != ss.s.total_out) {
			res.error = fmt("final progress (%llu,%llu) != totals (%llu,%llu)", (unsigned long long)pi, (unsigned long long)po, (unsigned long long)ss.s.total_in, (unsigned long long)ss.s.total_out);
			res.error_cls = "progress";
		}
	}
	res.calls = ss.calls;
	res.out.swap(ss.out);
	res.notices = ss.notices;
	ss.end();
}

static void c07_exec(const Plan &plan, Verdict &v)
{
	Bytes file, plain;
	XzInfo info;
	std::string err;
	if (!build_artefact(plan, file, plain, info, err)) { v.fail("harness", "harness/artefact", "artefact: " + err); return; }
	bool has_fault = false;
	for (auto &op : plan.ops) if (op.name == "sfault") has_fault = true;
	Bytes clean_file = file;
	apply_storage_faults(plan, file, v);
	// plaintext offset up to which both decoders must deliver identical bytes whatever happens: the Blocks
	// that end before the first damaged byte (spoiled Blocks count as damage at their header)
	size_t intact_plain = plain.size();
	{
		size_t d0 = 0, lim = std::min(file.size(), clean_file.size());
		while (d0 < lim && file[d0] == clean_file[d0]) ++d0;
		bool damaged = d0 < lim || file.size() != clean_file.size();
		if (damaged) {
			// what the undamaged part of the file yields (single-threaded decode of the bytes before the
			// damage), rounded down to a Block boundary: Blocks that lie entirely before the damage
			Bytes prefix(clean_file.begin(), clean_file.begin() + (long)d0);
			SimAlloc alp;
			DecResult pre = decode_st(0, prefix, LZMA_CONCATENATED, UINT64_MAX, false, &alp.a);
			size_t acc = 0;
			for (size_t n : info.block_plain_sizes) { if (acc + n > pre.out.size()) break; acc += n; }
			intact_plain = info.block_plain_sizes.size() == info.n_blocks ? acc : 0;
		}
		if (size_t spoil = (size_t)plan.p("art0_spoil_block", 0)) {
			size_t acc = 0;
			for (size_t k = 0; k + 1 < spoil && k < info.block_plain_sizes.size(); ++k) acc += info.block_plain_sizes[k];
			if (info.spoiled_blocks) intact_plain = std::min(intact_plain, acc);
		}
	}

	uint32_t flags = (uint32_t)plan.p("flags");
	bool finish = plan.p("finish", 1) != 0;
	bool failfast = flags & LZMA_FAIL_FAST;
	Chain c; chain_from_plan(plan, c);

	SimAlloc al_ref;
	DecResult ref = decode_st(0, file, flags & ~(uint32_t)LZMA_FAIL_FAST, UINT64_MAX, finish, &al_ref.a);
	if (al_ref.cur != 0) { v.fail("leak", "C07/st-leak", fmt("single-threaded reference leaked %llu bytes", (unsigned long long)al_ref.cur)); return; }

	SimAlloc al;
	MtRun mt;
	mt_decode(plan, file, al, mt, v, plain.size(), !has_fault);

	bool create_fault = plan.p("fault_create_fail_nth", 0) != 0;
	v.count("runs.total");
	if (has_fault) v.count("runs.corrupted");
	if (mt.ended_early) v.count("runs.ended_early");
	if (sim_max_threads_seen() > 2) v.count("runs.multi_worker");
	v.counters["max.threads"] = std::max<uint64_t>(v.counters["max.threads"], (uint64_t)sim_max_threads_seen());
	v.count(std::string("status.") + ret_name(ref.status));

	// allocator oracles (always)
	if (!al.misuse.empty()) { v.fail("alloc-misuse", "C07/alloc-misuse", al.misuse); return; }
	if (al.cur != 0) { v.fail("leak", "C07/leak", fmt("%llu bytes in %zu blocks still allocated after lzma_end", (unsigned long long)al.cur, al.live.size())); al.purge(); return; }

	if (!mt.error.empty() && !mt.error_cls.empty()) { v.fail(mt.error_cls, "C07/" + mt.error_cls, mt.error); return; }
	if (mt.ended_early) return;
	if (create_fault) return;   // status under thread-creation failure is not promised

	if (info.n_blocks >= 2 && sim_max_threads_seen() > 2) v.feature(sim_trace_hash());
	v.feature2(mix64(mix64((uint64_t)ref.status, (uint64_t)plan.p("threads")), mix64(has_fault, (uint64_t)flags)));

	bool bcj_rejected = c.has_bcj && ref.status != LZMA_STREAM_END;
	std::string ctx = fmt(" [st: %s, %zu bytes; mt: %s, %zu bytes; file %zu bytes, threads %d]", ret_name(ref.status), ref.out.size(), ret_name(mt.status), mt.out.size(), file.size(), (int)plan.p("threads"));
	if (failfast) {
		bool ref_err = ref.status != LZMA_STREAM_END && ref.status != LZMA_OK && ref.status != LZMA_BUF_ERROR;
		bool mt_err = mt.status != LZMA_STREAM_END && mt.status != LZMA_OK && mt.status != LZMA_BUF_ERROR;
		if (!bcj_rejected && (mt.out.size() > ref.out.size() || (mt.out.size() && memcmp(mt.out.data(), ref.out.data(), mt.out.size()) != 0)))
			v.fail("ff-output", "C07/ff-output", "fail-fast output is not a prefix of the single-threaded output" + ctx);
		else if (ref_err != mt_err && !(ref.status == LZMA_BUF_ERROR || mt.status == LZMA_BUF_ERROR))
			v.fail("ff-status", "C07/ff-status", "fail-fast status class differs" + ctx);
		else if (ref.status == LZMA_STREAM_END && (mt.status != LZMA_STREAM_END || mt.out != ref.out))
			v.fail("ff-valid", "C07/ff-valid", "fail-fast result differs on input the single-threaded decoder accepts" + ctx);
		return;
	}
	if (mt.status != ref.status) { v.fail("status", "C07/status", "final status differs" + ctx); return; }
	// Known finding KF-C07-5 (the mechanism is KF-C06-2 of C06): on rejected LZMA2 input the LZMA decoder
	// runs past the end of the corrupt chunk as far as the output space of the call allows before the
	// LZMA2 layer notices, so the number of (garbage) bytes delivered from the failing Block depends on
	// the output space - the Block-sized buffer of a worker, the caller's buffer in direct mode, the
	// never-full buffer of the reference. Recognised only when the status is the same error, one output
	// is a prefix of the other and both contain everything before the failing Block.
	if (ref.status != LZMA_STREAM_END && ref.status != LZMA_OK && mt.out.size() != ref.out.size()) {
		const Bytes &a = mt.out.size() < ref.out.size() ? mt.out : ref.out, &b = mt.out.size() < ref.out.size() ? ref.out : mt.out;
		size_t d = b.size() - a.size();
		size_t start = std::min(intact_plain, ref.out.size());   // end of the last Block that lies entirely before the damage
		// Blocks before the failing one: byte-identical. Inside the failing Block: a plain prefix relation
		// without BCJ; behind a BCJ filter the bytes of the failing call are delivered unfiltered
		// (simple_coder.c returns the error before filtering what the next coder just produced), so
		// they are not compared.
		bool prefix = a.size() >= start && (start == 0 || memcmp(a.data(), b.data(), start) == 0)
				&& (c.has_bcj || a.size() == start || memcmp(a.data() + start, b.data() + start, a.size() - start) == 0);
		if (prefix && a.size() >= start && (!c.has_bcj || d > 32)) {
			v.fail("rejected-input-output-length-within-block", "C07/rejected-input-output-length-within-block", fmt("on rejected input the number of bytes delivered from the failing Block differs by %zu (Block starts at plaintext offset %zu)", d, start) + ctx);
			return;
		}
	}
	if (bcj_rejected) {
		if (mt.out.size() != ref.out.size()) {
			// Known quirk (see known_findings.json): on an error the BCJ coder
			// drops the few decoded bytes it was holding back for filtering,
			// and how many it holds depends on the output space per call.
			size_t d = mt.out.size() > ref.out.size() ? mt.out.size() - ref.out.size() : ref.out.size() - mt.out.size();
			if (d <= 32) v.fail("bcj-holdback-length", "C07/bcj-holdback-length", "output length differs by the BCJ hold-back on rejected input behind a BCJ filter" + ctx);
			else v.fail("output-length", "C07/output-length", "output length differs on rejected input behind a BCJ filter" + ctx);
		}
	} else if (mt.out != ref.out) {
		size_t i = 0;
		while (i < mt.out.size() && i < ref.out.size() && mt.out[i] == ref.out[i]) ++i;
		v.fail("output", "C07/output", fmt("output differs at byte %zu", i) + ctx);
	}
	if (v.ok && mt.notices != ref.notices && mt.memlimit_errors == 0)
		v.fail("notices", "C07/notices", fmt("sequence of *_CHECK notices differs (%zu vs %zu)", mt.notices.size(), ref.notices.size()) + ctx);
}

REGISTER_SCENARIO(c07_main, "C07", "mt_vs_st", 100, 100, c07_gen, c07_exec, true);
