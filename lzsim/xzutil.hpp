// Helpers shared by scenarios: building artefacts with the tree's own
// encoders, streaming reference decode, storage faults, filter chains.
#pragma once
#include "core.hpp"

// ---- filter chains --------------------------------------------------
// A chain is described by a small integer recipe so that it can live in a
// plan: chain_id selects the shape, the LZMA options come from plan params.
struct Chain {
	lzma_filter f[LZMA_FILTERS_MAX + 1];
	lzma_options_lzma lz;
	lzma_options_bcj bcj;
	lzma_options_delta delta;
	lzma_options_delta delta2;   // extra Delta filters in front (chains of the maximum length)
	Bytes preset_dict;
	std::string desc;
	bool has_bcj = false;
	bool lzma1 = false;
};

// Params consumed (all optional): ch_shape (0 lzma2, 1 delta+lzma2, 2 x86+lzma2,
// 3 arm64+delta+lzma2, 4 powerpc+lzma2, 5.. other bcj), ch_preset, ch_dict,
// ch_lc, ch_lp, ch_pb, ch_mf, ch_mode, ch_nice, ch_depth, ch_delta_dist,
// ch_bcj_start, ch_lzma1 (use LZMA1 as last filter; raw/alone only),
// ch_pdict (length of a preset dictionary, generated from ch_pdict_seed)
void gen_chain_params(Rng &rng, Plan &plan, bool allow_bcj, bool small_dicts);
// ops.. any op-independent content
void chain_from_plan(const Plan &plan, Chain &c);

// ---- artefacts ------------------------------------------------------
struct XzInfo {
	// byte ranges of the produced file, for fault aiming and oracles
	struct Range { size_t off, len; std::string field; };
	std::vector<Range> fields;
	size_t n_blocks = 0, n_streams = 0, spoiled_blocks = 0;
	std::vector<size_t> block_plain_sizes;
};

// One Stream whose Block Headers carry both size fields (the kind of file
// the threaded encoder writes): built with lzma_block_buffer_encode.
bool xz_build_sized(const Bytes &in, const std::vector<size_t> &block_sizes, lzma_filter *filters,
		lzma_check check, Bytes &out, XzInfo *info, std::string &err, int spoil_block = 0);
// One Stream from the single-threaded encoder with LZMA_FULL_FLUSH at the
// given offsets: Block Headers without size fields.
bool xz_build_unsized(const Bytes &in, const std::vector<size_t> &block_sizes, lzma_filter *filters,
		lzma_check check, Bytes &out, std::string &err);

// Generic artefact recipe in a plan (params art_*), see gen_artefact_params.
void gen_artefact_params(Rng &rng, Plan &plan, bool thorough, size_t max_len);
bool build_artefact(const Plan &plan, Bytes &file, Bytes &plain, XzInfo &info, std::string &err);

// One .lz member (version 0 or 1) with an LZMA1 payload from the tree's raw
// encoder (lc=3 lp=0 pb=2, end marker). dict_code is the header byte.
bool lz_build_member(const Bytes &in, int version, uint8_t dict_code, Bytes &out, std::string &err);
// .lzma (LZMA_Alone) file from the tree's alone encoder
bool lzma_build(const Bytes &in, const lzma_options_lzma *opt, Bytes &out, std::string &err);
// read a file of /repo/tests/files (VERIF_REPO overrides /repo)
bool read_test_file(const std::string &name, Bytes &out);

// ---- storage faults -------------------------------------------------
// op "sfault" kind=(0 flip,1 overwrite,2 insert,3 delete,4 truncate,5 dup)
// pos= len= val=   (pos is taken modulo the current size)
void gen_storage_faults(Rng &rng, Plan &plan, int max_faults);
void apply_storage_faults(const Plan &plan, Bytes &file, Verdict &v);
void apply_one_fault(const Op &op, Bytes &file, Verdict *v);

// ---- streaming reference decode (single-threaded) --------------------
struct DecResult {
	Bytes out;
	lzma_ret status = LZMA_OK;      // final status
	std::vector<int> notices;       // NO_CHECK / UNSUPPORTED_CHECK / GET_CHECK seen
	uint64_t total_in = 0;
	uint64_t memusage = 0;
};
// kind: 0 stream, 1 auto, 2 alone, 3 lzip
DecResult decode_st(int kind, const Bytes &file, uint32_t flags, uint64_t memlimit, bool finish, const lzma_allocator *al);

inline bool is_notice(lzma_ret r) { return r == LZMA_NO_CHECK || r == LZMA_UNSUPPORTED_CHECK || r == LZMA_GET_CHECK; }
