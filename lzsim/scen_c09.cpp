// C09 — memory limits are honoured, memory estimates are upper bounds.
// The monitored resource is the simulated allocator: every byte liblzma
// obtains goes through it, so "how much is allocated" is measured, not
// estimated.
#include "core.hpp"
#include "session.hpp"
#include "xzutil.hpp"

namespace {

// Fixed bookkeeping allowance on top of a limit (frozen after calibration on
// the unchanged tree; see DESIGN.md C09). A real violation is off by a
// dictionary or an input/output buffer, i.e. by KiBs to MiBs more than this.
static uint64_t allowance(uint32_t threads) { return (32u << 10) + (4u << 10) * threads; }

static const uint32_t declared_dicts[] = { 4096, 1u << 16, 1u << 20, 1u << 24, 1u << 28, 3u << 29 };

// A single-Stream .xz whose Blocks declare the given dictionary sizes although
// they were encoded with a small one (legal: a decoder must honour the
// declared size). Built from lzma_block_buffer_encode + a re-encoded header.
static bool xz_with_declared_dicts(const Bytes &in, const std::vector<uint32_t> &dicts, lzma_check check, bool with_delta, Bytes &out, std::string &err)
{
	lzma_stream_flags sf; memset(&sf, 0, sizeof sf); sf.check = check;
	uint8_t hdr[LZMA_STREAM_HEADER_SIZE];
	if (lzma_stream_header_encode(&sf, hdr) != LZMA_OK) { err = "header"; return false; }
	out.insert(out.end(), hdr, hdr + sizeof hdr);
	lzma_index *idx = lzma_index_init(nullptr);
	size_t per = in.size() / dicts.size() + 1, pos = 0;
	for (size_t b = 0; b < dicts.size(); ++b) {
		size_t n = std::min(per, in.size() - pos);
		lzma_options_lzma lz; lzma_lzma_preset(&lz, 0); lz.dict_size = 4096;
		lzma_options_delta dl; memset(&dl, 0, sizeof dl); dl.type = LZMA_DELTA_TYPE_BYTE; dl.dist = 4;
		lzma_filter f[3]; int k = 0;
		if (with_delta) { f[k].id = LZMA_FILTER_DELTA; f[k].options = &dl; ++k; }
		f[k].id = LZMA_FILTER_LZMA2; f[k].options = &lz; ++k;
		f[k].id = LZMA_VLI_UNKNOWN; f[k].options = nullptr;
		lzma_block blk; memset(&blk, 0, sizeof blk);
		blk.check = check; blk.filters = f;
		Bytes tmp(lzma_block_buffer_bound(n));
		size_t op = 0;
		if (lzma_block_buffer_encode(&blk, nullptr, in.data() + pos, n, tmp.data(), &op, tmp.size()) != LZMA_OK) { err = "block encode"; lzma_index_end(idx, nullptr); return false; }
		// Re-encode the Block Header with the declared dictionary size. The
		// header is decoded first because lzma_block_buffer_encode may have
		// replaced the chain (incompressible data => plain LZMA2 with
		// uncompressed chunks).
		lzma_filter df[LZMA_FILTERS_MAX + 1];
		lzma_block db; memset(&db, 0, sizeof db);
		db.check = check; db.filters = df;
		db.header_size = lzma_block_header_size_decode(tmp[0]);
		if (lzma_block_header_decode(&db, nullptr, tmp.data()) != LZMA_OK) { err = "header decode"; lzma_index_end(idx, nullptr); return false; }
		for (int q = 0; df[q].id != LZMA_VLI_UNKNOWN; ++q)
			if (df[q].id == LZMA_FILTER_LZMA2) ((lzma_options_lzma *)df[q].options)->dict_size = dicts[b];
		lzma_ret her = lzma_block_header_encode(&db, tmp.data());
		lzma_filters_free(df, nullptr);
		if (her != LZMA_OK) { err = "header encode"; lzma_index_end(idx, nullptr); return false; }
		out.insert(out.end(), tmp.begin(), tmp.begin() + (long)op);
		lzma_index_append(idx, nullptr, lzma_block_unpadded_size(&blk), blk.uncompressed_size);
		pos += n;
	}
	Bytes ib((size_t)lzma_index_size(idx)); size_t ip = 0;
	lzma_index_buffer_encode(idx, ib.data(), &ip, ib.size());
	out.insert(out.end(), ib.begin(), ib.begin() + (long)ip);
	sf.backward_size = lzma_index_size(idx);
	lzma_index_end(idx, nullptr);
	uint8_t ftr[LZMA_STREAM_HEADER_SIZE];
	lzma_stream_footer_encode(&sf, ftr);
	out.insert(out.end(), ftr, ftr + sizeof ftr);
	return true;
}

enum { DK_STREAM = 0, DK_AUTO_XZ, DK_ALONE, DK_AUTO_LZMA, DK_LZIP, DK_MT, DK_COUNT };
static const char *dk_names[] = { "stream_decoder", "auto_decoder(xz)", "alone_decoder", "auto_decoder(lzma)", "lzip_decoder", "stream_decoder_mt" };

struct DecRun {
	Bytes out;
	lzma_ret status = LZMA_OK;
	uint64_t peak = 0;
	uint64_t final_limit = 0;
	uint64_t memlimit_errors = 0;
	uint64_t reported_at_end = 0;
	std::string error, cls;
};

static lzma_ret dec_init(lzma_stream *s, int kind, uint64_t limit, lzma_mt *mt, uint32_t flags)
{
	switch (kind) {
	case DK_STREAM: return lzma_stream_decoder(s, limit, flags);
	case DK_AUTO_XZ: case DK_AUTO_LZMA: return lzma_auto_decoder(s, limit, flags);
	case DK_ALONE: return lzma_alone_decoder(s, limit);
	case DK_LZIP: return lzma_lzip_decoder(s, limit, flags);
	default: return lzma_stream_decoder_mt(s, mt);
	}
}

// raise: 0 = to exactly what lzma_memusage() reports, 1 = to a given value
static void run_limited(int kind, const Bytes &file, uint64_t limit, uint64_t threading_limit, uint32_t threads, uint32_t timeout,
		size_t in_each, size_t out_each, uint64_t raise_to, DecRun &r, Verdict &v, const Bytes *prefile = nullptr)
{
	SimAlloc al;
	Session ss(&al.a);
	lzma_mt mt; memset(&mt, 0, sizeof mt);
	mt.threads = threads; mt.timeout = timeout; mt.flags = LZMA_CONCATENATED;
	mt.memlimit_stop = limit; mt.memlimit_threading = threading_limit;
	if (prefile) {
		// the handle has decoded another file (bigger dictionary, no limit) before and was not ended:
		// what that use allocated must not stay behind the new, smaller limit
		lzma_mt m0 = mt; m0.memlimit_stop = UINT64_MAX; m0.memlimit_threading = UINT64_MAX; m0.timeout = 0;
		if (dec_init(&ss.s, kind, UINT64_MAX, &m0, LZMA_CONCATENATED) == LZMA_OK) {
			ss.set_input(prefile);
			for (int g = 0; g < 100000; ++g) { lzma_ret pr = ss.step(ss.in_left(), 1 << 16, LZMA_FINISH); if (pr != LZMA_OK && !is_notice(pr)) break; }
			ss.out.clear();
			v.count("reach.limited_decoder_on_a_reused_handle");
		}
	}
	ss.set_input(&file);
	lzma_ret rr = dec_init(&ss.s, kind, limit, &mt, LZMA_CONCATENATED);
	// liblzma keeps the buffers of a coder it can reuse until the new coder sets up its own (first
	// header decoded): what the earlier use left is not "allocated by the limited decoder". From the
	// first output byte on, everything held is the new decoder's.
	bool started = prefile == nullptr;
	al.peak = al.cur;
	if (rr != LZMA_OK) { r.status = rr; r.error = fmt("init returned %s", ret_name(rr)); r.cls = "init"; ss.end(); return; }
	uint64_t cur_limit = limit;
	uint64_t A = allowance(kind == DK_MT ? threads : 1);
	uint64_t guard = 0;
	bool finishing = false;
	for (;;) {
		size_t in_n = in_each;
		lzma_action act = LZMA_RUN;
		if (finishing || ss.in_left() <= in_n) { act = LZMA_FINISH; in_n = ss.in_left(); finishing = true; sim_fair_phase(); }
		rr = ss.step(in_n, out_each, act);
		if (!started && !ss.out.empty()) { started = true; al.peak = al.cur; }
		if (started && al.cur > cur_limit && al.cur - cur_limit > A && r.error.empty() && cur_limit != UINT64_MAX) {
			r.error = fmt("%llu bytes allocated with a limit of %llu (allowance %llu)", (unsigned long long)al.cur, (unsigned long long)cur_limit, (unsigned long long)A);
			r.cls = "limit-exceeded";
		}
		// what the query function reports is never less than what is really held (single-threaded decoders)
		if (kind != DK_MT && started && r.error.empty()) {
			uint64_t mu = lzma_memusage(&ss.s);
			if (mu != 0 && al.cur > mu + A) { r.error = fmt("%llu bytes are allocated while lzma_memusage() reports %llu", (unsigned long long)al.cur, (unsigned long long)mu); r.cls = "memusage-below-allocation"; }
		}
		if (rr == LZMA_MEMLIMIT_ERROR) {
			++r.memlimit_errors;
			v.count("reach.memlimit_error");
			uint64_t need = lzma_memusage(&ss.s);
			uint64_t lim = lzma_memlimit_get(&ss.s);
			if (lim != cur_limit && r.error.empty()) { r.error = fmt("lzma_memlimit_get reports %llu, limit is %llu", (unsigned long long)lim, (unsigned long long)cur_limit); r.cls = "memlimit-get"; }
			if (started && al.peak > cur_limit + A && r.error.empty()) { r.error = fmt("peak %llu before LZMA_MEMLIMIT_ERROR with a limit of %llu", (unsigned long long)al.peak, (unsigned long long)cur_limit); r.cls = "limit-exceeded"; }
			uint64_t newlim = raise_to ? raise_to : need;
			if (kind != DK_MT && need <= cur_limit && r.error.empty()) { r.error = fmt("LZMA_MEMLIMIT_ERROR although lzma_memusage() = %llu <= limit %llu", (unsigned long long)need, (unsigned long long)cur_limit); r.cls = "memusage-report"; }
			if (newlim <= cur_limit) newlim = cur_limit + 1;
			lzma_ret sr = lzma_memlimit_set(&ss.s, newlim);
			if (sr != LZMA_OK) { if (r.error.empty()) { r.error = fmt("lzma_memlimit_set(%llu) after LZMA_MEMLIMIT_ERROR returned %s", (unsigned long long)newlim, ret_name(sr)); r.cls = "memlimit-set"; } break; }
			cur_limit = newlim;
			if (r.memlimit_errors > 64) { r.error = "more than 64 LZMA_MEMLIMIT_ERROR in one file"; r.cls = "memlimit-loop"; break; }
			continue;
		}
		if (is_notice(rr)) continue;
		if (rr != LZMA_OK) break;
		if (++guard > 400000) { r.error = "no termination"; r.cls = "liveness-calls"; break; }
	}
	r.status = rr;
	r.peak = started ? al.peak : 0;
	r.final_limit = cur_limit;
	r.reported_at_end = lzma_memusage(&ss.s);
	r.out.swap(ss.out);
	if (r.error.empty() && !ss.acct_error.empty()) { r.error = ss.acct_error; r.cls = "accounting"; }
	ss.end();
	if (al.cur != 0 && r.error.empty()) { r.error = fmt("%llu bytes leaked", (unsigned long long)al.cur); r.cls = "leak"; al.purge(); }
	if (!al.misuse.empty() && r.error.empty()) { r.error = al.misuse; r.cls = "alloc-misuse"; }
}

static void dec_gen(Rng &rng, Plan &plan, bool thorough)
{
	gen_sched_params(rng, plan, thorough);
	plan.setp("kind", (int64_t)rng.below(DK_COUNT));
	plan.setp("in_class", 2 + (int64_t)rng.below(7));
	plan.setp("in_len", 500 + (int64_t)rng.size_skewed(thorough ? 200000 : 60000));
	plan.setp("in_seed", (int64_t)(rng.next() >> 2));
	int nb = 1 + (int)rng.below(5);
	plan.setp("blocks", nb);
	for (int i = 0; i < nb; ++i) plan.setp(fmt("dict%d", i), (int64_t)rng.below(thorough ? 6 : 5));
	plan.setp("delta", rng.chance(300) ? 1 : 0);
	plan.setp("check", rng.chance(500) ? LZMA_CHECK_CRC32 : LZMA_CHECK_SHA256);
	// where the limit sits relative to the need: 0 need-1, 1 need, 2 need+1,
	// 3 tiny (1), 4 fraction of need, 5 need of the smallest block
	plan.setp("limit_mode", (int64_t)rng.below(6));
	plan.setp("limit_frac", (int64_t)rng.below(1000));
	plan.setp("threads", rng.range(1, 6));
	plan.setp("timeout", rng.chance(500) ? 0 : rng.range(1, 40));
	plan.setp("threading_mode", (int64_t)rng.below(4));   // MT: 0 = 1 byte, 1 = need_st, 2 = 3*need_st, 3 = unlimited
	plan.setp("in_each", (int64_t)(1 + rng.size_skewed(30000)));
	plan.setp("out_each", (int64_t)(1 + rng.size_skewed(30000)));
	plan.setp("reused_handle", rng.chance(300) ? 1 : 0);
	if (plan.p("kind") == DK_MT && rng.chance(450)) {
		// Blocks big enough that one output buffer too many is visible beyond the allowance; equal-sized
		// neighbours with different declared dictionaries (threaded Block followed by a direct-mode Block)
		plan.setp("in_class", rng.chance(500) ? IN_TEXT : IN_RUNS);
		plan.setp("in_len", 300000 + (int64_t)rng.below(thorough ? 3000000 : 1200000));
		plan.setp("blocks", rng.range(2, 5));
		for (int i = 0; i < 5; ++i) plan.setp(fmt("dict%d", i), (int64_t)rng.below(thorough ? 6 : 5));
		plan.setp("threads", rng.range(2, 6));
	}
}

static void dec_exec(const Plan &plan, Verdict &v)
{
	int kind = (int)plan.p("kind") % DK_COUNT;
	Bytes plain = gen_input((int)plan.p("in_class", IN_TEXT), (size_t)plan.p("in_len", 1000), (uint64_t)plan.p("in_seed", 1));
	Bytes file;
	std::string err;
	std::vector<uint32_t> dicts;
	int nb = (int)plan.p("blocks", 1);
	for (int i = 0; i < nb; ++i) dicts.push_back(declared_dicts[plan.p(fmt("dict%d", i)) % 6]);
	if (kind == DK_ALONE || kind == DK_AUTO_LZMA) {
		lzma_options_lzma lz; lzma_lzma_preset(&lz, 0); lz.dict_size = 4096;
		if (!lzma_build(plain, &lz, file, err)) { v.fail("harness", "harness/artefact", err); return; }
		// declared dictionary size lives in header bytes 1..4
		uint32_t d = dicts[0];
		for (int i = 0; i < 4; ++i) file[1 + (size_t)i] = (uint8_t)(d >> (8 * i));
	} else if (kind == DK_LZIP) {
		static const uint8_t codes[] = { 0x0C, 0x10, 0x14, 0x18, 0x1C, 0x1D };
		for (int i = 0; i < nb; ++i) {
			size_t per = plain.size() / (size_t)nb + 1, pos = (size_t)i * per;
			if (pos > plain.size()) pos = plain.size();
			Bytes part(plain.begin() + (long)pos, plain.begin() + (long)std::min(plain.size(), pos + per));
			if (!lz_build_member(part, i % 2, codes[plan.p(fmt("dict%d", i)) % 6], file, err)) { v.fail("harness", "harness/artefact", err); return; }
		}
	} else {
		if (!xz_with_declared_dicts(plain, dicts, (lzma_check)plan.p("check", LZMA_CHECK_CRC32), plan.p("delta", 0) != 0, file, err)) { v.fail("harness", "harness/artefact", err); return; }
	}
	Bytes prefile;
	if (plan.p("reused_handle", 0)) {
		Bytes small(plain.begin(), plain.begin() + (long)std::min<size_t>(plain.size(), 2000));
		std::string e2;
		if (kind == DK_ALONE || kind == DK_AUTO_LZMA) {
			lzma_options_lzma lz; lzma_lzma_preset(&lz, 0); lz.dict_size = 4096;
			if (lzma_build(small, &lz, prefile, e2)) { uint32_t d = 1u << 24; for (int i = 0; i < 4; ++i) prefile[1 + (size_t)i] = (uint8_t)(d >> (8 * i)); }
		} else if (kind == DK_LZIP) lz_build_member(small, 1, 0x18, prefile, e2);
		else xz_with_declared_dicts(small, std::vector<uint32_t>{ 1u << 24 }, LZMA_CHECK_CRC32, false, prefile, e2);
	}
	uint32_t threads = (uint32_t)plan.p("threads", 2), timeout = (uint32_t)plan.p("timeout", 0);
	size_t in_each = (size_t)plan.p("in_each", 4096), out_each = (size_t)plan.p("out_each", 4096);
	if (file.size() / in_each > 3000) in_each = file.size() / 3000 + 1;
	if (plain.size() / out_each > 3000) out_each = plain.size() / 3000 + 1;
	v.count("runs.total");
	v.count(std::string("kind.") + dk_names[kind]);

	// 1. unlimited run: the result to reproduce, and the real peak
	DecRun base;
	run_limited(kind == DK_MT ? DK_STREAM : kind, file, UINT64_MAX, UINT64_MAX, 1, 0, 1 << 16, 1 << 16, 0, base, v);
	if (!base.error.empty()) { v.fail("baseline-" + base.cls, "C09/baseline-" + base.cls, "unlimited run: " + base.error); return; }
	if (base.status != LZMA_STREAM_END || base.out != plain) { v.fail("baseline", "C09/baseline", fmt("unlimited run: %s, %zu bytes", ret_name(base.status), base.out.size())); return; }

	// need of the whole file = what a just-sufficient limit must be; found by
	// letting the limited decoder tell us (single-threaded kinds)
	DecRun probe;
	run_limited(kind == DK_MT ? DK_STREAM : kind, file, 1, UINT64_MAX, 1, 0, 1 << 16, 1 << 16, 0, probe, v);
	if (!probe.error.empty()) { v.fail(probe.cls, "C09/" + probe.cls, "limit 1, raising to lzma_memusage() each time: " + probe.error + fmt(" [%s]", dk_names[kind])); return; }
	if (probe.status != base.status || probe.out != base.out) { v.fail("continue-differs", "C09/continue-differs", fmt("after raising the limit to what lzma_memusage() reported the result differs: %s, %zu bytes [%s]", ret_name(probe.status), probe.out.size(), dk_names[kind])); return; }
	uint64_t need = probe.final_limit;   // the largest amount ever reported as needed
	if (probe.memlimit_errors == 0) { v.fail("no-memlimit-error", "C09/no-memlimit-error", fmt("a memory limit of 1 byte was accepted without LZMA_MEMLIMIT_ERROR [%s]", dk_names[kind])); return; }
	// the query function is an upper bound of what was really allocated
	if (base.peak > need) { v.fail("memusage-too-small", "C09/memusage-too-small", fmt("lzma_memusage() reported %llu as needed but the unlimited run held %llu bytes [%s]", (unsigned long long)need, (unsigned long long)base.peak, dk_names[kind])); return; }

	uint64_t L;
	switch ((int)plan.p("limit_mode")) {
	case 0: L = need - 1; break;
	case 1: L = need; break;
	case 2: L = need + 1; break;
	case 3: L = 1; break;
	case 4: L = 1 + need * (uint64_t)plan.p("limit_frac") / 1000; break;
	default: L = need / 2 + 1; break;
	}
	if (L < 1) L = 1;

	DecRun lim;
	uint64_t threading = UINT64_MAX;
	if (kind == DK_MT) {
		switch ((int)plan.p("threading_mode")) {
		case 0: threading = 1; break;
		case 1: threading = need; break;
		case 2: threading = need * 3; break;
		default: threading = UINT64_MAX; break;
		}
		// the hard limit is raised to what the single-threaded decoder says
		// it needs (a single thread can always work within that)
		run_limited(kind, file, L, threading, threads, timeout, in_each, out_each, need, lim, v, prefile.empty() ? nullptr : &prefile);
	} else {
		run_limited(kind, file, L, UINT64_MAX, 1, 0, in_each, out_each, 0, lim, v, prefile.empty() ? nullptr : &prefile);
	}
	std::string ctx = fmt(" [%s, need %llu, limit %llu, threading limit %llu, threads %u, %d blocks]", dk_names[kind], (unsigned long long)need, (unsigned long long)L, (unsigned long long)threading, threads, nb);
	if (!lim.error.empty()) { v.fail(lim.cls, "C09/" + lim.cls, lim.error + ctx); return; }
	if (lim.status != base.status || lim.out != base.out) { v.fail("continue-differs", "C09/continue-differs", fmt("limited run ended with %s and %zu bytes, unlimited run with %s and %zu bytes", ret_name(lim.status), lim.out.size(), ret_name(base.status), base.out.size()) + ctx); return; }
	if (L >= need && lim.memlimit_errors != 0 && kind != DK_MT) { v.fail("spurious-memlimit-error", "C09/spurious-memlimit-error", "LZMA_MEMLIMIT_ERROR although the limit was sufficient" + ctx); return; }
	if (L < need && lim.memlimit_errors == 0 && kind != DK_MT) { v.fail("no-memlimit-error", "C09/no-memlimit-error", "no LZMA_MEMLIMIT_ERROR although the limit was below the need" + ctx); return; }
	uint64_t A = allowance(kind == DK_MT ? threads : 1);
	if (lim.peak > lim.final_limit + A) { v.fail("limit-exceeded", "C09/limit-exceeded", fmt("peak %llu with final limit %llu", (unsigned long long)lim.peak, (unsigned long long)lim.final_limit) + ctx); return; }
	if (kind == DK_MT) {
		// hard limit never exceeded (checked above); threading limit honoured
		// whenever a single thread could work within it
		uint64_t hard = std::max(L, lim.final_limit);
		if (threading >= need && threading != UINT64_MAX && lim.peak > std::min(threading, hard) + A) {
			v.fail("threading-limit-exceeded", "C09/threading-limit-exceeded", fmt("peak %llu with threading limit %llu although a single thread needs only %llu", (unsigned long long)lim.peak, (unsigned long long)threading, (unsigned long long)need) + ctx);
			return;
		}
		if (sim_max_threads_seen() > 2) v.count("runs.multi_worker");
	}
	v.feature(mix64(mix64((uint64_t)kind, (uint64_t)plan.p("limit_mode")), mix64(fnv1a(dicts.data(), dicts.size() * 4), (uint64_t)plan.p("threading_mode") * (kind == DK_MT))));
	v.count("oracle.limited_runs");
}

// ------------------------------------------------------ encoder estimates
enum { EE_RAW = 0, EE_STREAM, EE_EASY, EE_MT, EE_RAW_DEC, EE_EASY_DEC, EE_COUNT };
static const char *ee_names[] = { "raw_encoder", "stream_encoder", "easy_encoder", "stream_encoder_mt", "raw_decoder", "easy_decoder" };

static void est_gen(Rng &rng, Plan &plan, bool thorough)
{
	gen_sched_params(rng, plan, thorough);
	int kind = (int)rng.below(EE_COUNT);
	plan.setp("kind", kind);
	gen_chain_params(rng, plan, true, false);
	if (rng.chance(300)) plan.setp("ch_lzma1", kind == EE_RAW || kind == EE_RAW_DEC ? 1 : 0);
	plan.setp("preset", (int64_t)rng.below(thorough ? 7 : 5));
	plan.setp("in_class", 2 + (int64_t)rng.below(7));
	plan.setp("in_len", 100 + (int64_t)rng.size_skewed(thorough ? 150000 : 50000));
	plan.setp("in_seed", (int64_t)(rng.next() >> 2));
	plan.setp("threads", rng.range(1, 6));
	static const int64_t bs[] = { 0, 4096, 20000, 70000, 300000 };
	plan.setp("block_size", bs[rng.below(5)]);
	plan.setp("timeout", rng.chance(500) ? 0 : rng.range(1, 40));
	plan.setp("use_preset", rng.chance(400) ? 1 : 0);
	plan.setp("in_each", (int64_t)(1 + rng.size_skewed(30000)));
	plan.setp("out_each", (int64_t)(1 + rng.size_skewed(30000)));
}

static void est_exec(const Plan &plan, Verdict &v)
{
	int kind = (int)plan.p("kind") % EE_COUNT;
	Chain ch;
	chain_from_plan(plan, ch);
	Bytes plain = gen_input((int)plan.p("in_class", IN_TEXT), (size_t)plan.p("in_len", 1000), (uint64_t)plan.p("in_seed", 1));
	uint32_t preset = (uint32_t)plan.p("preset", 1);
	size_t in_each = (size_t)plan.p("in_each", 4096), out_each = (size_t)plan.p("out_each", 4096);
	if (plain.size() / in_each > 3000) in_each = plain.size() / 3000 + 1;
	if (plain.size() / out_each > 3000) out_each = plain.size() / 3000 + 1;
	lzma_mt mt; memset(&mt, 0, sizeof mt);
	mt.threads = (uint32_t)plan.p("threads", 2);
	mt.block_size = (uint64_t)plan.p("block_size", 0);
	mt.timeout = (uint32_t)plan.p("timeout", 0);
	mt.check = LZMA_CHECK_CRC64;
	if (plan.p("use_preset", 0)) mt.preset = preset; else mt.filters = ch.f;
	// keep the number of Blocks small: the estimates do not cover the Index
	if (mt.block_size && plain.size() / mt.block_size > 400) mt.block_size = plain.size() / 400 + 1;
	v.count("runs.total");
	v.count(std::string("kind.") + ee_names[kind]);

	uint64_t estimate = 0;
	Bytes input = plain;
	Chain dch; chain_from_plan(plan, dch);
	switch (kind) {
	case EE_RAW: case EE_STREAM: estimate = lzma_raw_encoder_memusage(ch.f); break;
	case EE_EASY: estimate = lzma_easy_encoder_memusage(preset); break;
	case EE_MT: estimate = lzma_stream_encoder_mt_memusage(&mt); break;
	case EE_RAW_DEC: {
		estimate = lzma_raw_decoder_memusage(ch.f);
		lzma_stream s = LZMA_STREAM_INIT;
		if (lzma_raw_encoder(&s, ch.f) != LZMA_OK) { v.count("runs.options_rejected"); return; }
		input.clear();
		Bytes buf(65536);
		s.next_in = plain.data(); s.avail_in = plain.size();
		for (;;) {
			s.next_out = buf.data(); s.avail_out = buf.size();
			lzma_ret r = lzma_code(&s, LZMA_FINISH);
			input.insert(input.end(), buf.data(), buf.data() + (buf.size() - s.avail_out));
			if (r == LZMA_STREAM_END) break;
			if (r != LZMA_OK) { lzma_end(&s); v.fail("harness", "harness/encode", "raw encode failed"); return; }
		}
		lzma_end(&s);
		break;
	}
	case EE_EASY_DEC: {
		estimate = lzma_easy_decoder_memusage(preset);
		input.resize(lzma_stream_buffer_bound(plain.size()));
		size_t op = 0;
		if (lzma_easy_buffer_encode(preset, LZMA_CHECK_CRC32, nullptr, plain.data(), plain.size(), input.data(), &op, input.size()) != LZMA_OK) { v.fail("harness", "harness/encode", "easy encode failed"); return; }
		input.resize(op);
		break;
	}
	}
	if (estimate == UINT64_MAX) { v.count("runs.options_rejected"); return; }

	SimAlloc al;
	Session ss(&al.a);
	ss.set_input(&input);
	ss.keep_output = false;
	lzma_ret r;
	switch (kind) {
	case EE_RAW: r = lzma_raw_encoder(&ss.s, ch.f); break;
	case EE_STREAM: r = lzma_stream_encoder(&ss.s, ch.f, LZMA_CHECK_CRC64); break;
	case EE_EASY: r = lzma_easy_encoder(&ss.s, preset, LZMA_CHECK_CRC64); break;
	case EE_MT: r = lzma_stream_encoder_mt(&ss.s, &mt); break;
	case EE_RAW_DEC: r = lzma_raw_decoder(&ss.s, dch.f); break;
	default: r = lzma_stream_decoder(&ss.s, UINT64_MAX, 0); break;
	}
	if (r == LZMA_OPTIONS_ERROR) { v.count("runs.options_rejected"); ss.end(); return; }
	if (r != LZMA_OK) { v.fail("init", "C09/init", fmt("%s init returned %s", ee_names[kind], ret_name(r))); ss.end(); return; }
	uint64_t guard = 0;
	bool finishing = false;
	for (;;) {
		size_t in_n = in_each;
		lzma_action act = LZMA_RUN;
		if (finishing || ss.in_left() <= in_n) { act = LZMA_FINISH; in_n = ss.in_left(); finishing = true; sim_fair_phase(); }
		r = ss.step(in_n, out_each, act);
		if (r != LZMA_OK) break;
		if (++guard > 400000) break;
	}
	uint64_t peak = al.peak;
	ss.end();
	if (r != LZMA_STREAM_END) { v.fail("enc-status", "C09/enc-status", fmt("%s session ended with %s", ee_names[kind], ret_name(r))); return; }
	if (al.cur != 0) { v.fail("leak", "C09/leak", "leak"); al.purge(); return; }
	v.counters["max.peak_over_estimate_permille"] = std::max<uint64_t>(v.counters["max.peak_over_estimate_permille"], peak * 1000 / (estimate ? estimate : 1));
	if (peak > estimate) {
		bool lzma2_small = !ch.lzma1 && ch.lz.dict_size < (1u << 16) && (kind == EE_RAW || kind == EE_STREAM || (kind == EE_MT && !plan.p("use_preset", 0)));
		std::string sig = lzma2_small ? "C09/encoder-estimate-lzma2-small-dict" : "C09/estimate-too-small";
		v.fail(lzma2_small ? "encoder-estimate-lzma2-small-dict" : "estimate-too-small", sig,
			fmt("%s: the memory-usage function reports %llu bytes but %llu bytes were allocated at the peak [chain %s, dict %u, mf %d, threads %u, block_size %llu, preset %u]",
				ee_names[kind], (unsigned long long)estimate, (unsigned long long)peak, ch.desc.c_str(), ch.lz.dict_size, (int)ch.lz.mf, mt.threads, (unsigned long long)mt.block_size, preset));
		return;
	}
	v.feature(mix64(mix64((uint64_t)kind, fnv_str(ch.desc)), mix64(ch.lz.dict_size, mix64((uint64_t)ch.lz.mf, mt.threads * (kind == EE_MT)))));
}

// ----------------------------------------------------------- index limits
static void idx_gen(Rng &rng, Plan &plan, bool thorough)
{
	gen_sched_params(rng, plan, thorough);
	plan.setp("records", 1 + (int64_t)rng.size_skewed(thorough ? 60000 : 20000));
	plan.setp("streams", rng.range(1, 6));
	plan.setp("synth_file", rng.chance(650) ? 1 : 0);
	plan.setp("api", (int64_t)rng.below(3));   // 0 index_decoder, 1 index_buffer_decode, 2 file_info_decoder
	plan.setp("limit_mode", (int64_t)rng.below(5));
	plan.setp("limit_frac", (int64_t)rng.below(1000));
	plan.setp("in_each", (int64_t)(1 + rng.size_skewed(20000)));
}

static void idx_exec(const Plan &plan, Verdict &v)
{
	uint32_t nrec = (uint32_t)plan.p("records", 100);
	int api = (int)plan.p("api") % 3;
	// build a file: Streams with empty-ish payload are not needed for the
	// index decoders; for file_info we need real Streams, so keep Blocks tiny
	Bytes file;
	std::string err;
	Bytes plain = gen_input(IN_TEXT, nrec, 99);
	Chain ch; Plan p0; p0.setp("ch_shape", 0); p0.setp("ch_preset", 0); p0.setp("ch_dict", 4096); chain_from_plan(p0, ch);
	int streams = api == 2 ? (int)plan.p("streams", 1) : 1;
	uint32_t nblocks = api == 2 ? std::min<uint32_t>(nrec, 400) : 0;
	Bytes index_raw;
	lzma_index *built = lzma_index_init(nullptr);
	if (api == 2 && plan.p("synth_file", 0)) {
		// many Records per Stream: the file-info decoder reads only Stream
		// Headers, Footers and Indexes, so the Blocks are filler bytes. The
		// limit has to cover the combined index plus the Index being decoded.
		uint32_t per = std::max<uint32_t>(1, nrec / (uint32_t)streams);
		for (int s = 0; s < streams; ++s) {
			lzma_index *i = lzma_index_init(nullptr);
			uint32_t n = s == 0 ? per : std::max<uint32_t>(1, per * (uint32_t)(1 + (s * 7 + (int)nrec) % 4) / 4);
			for (uint32_t k = 0; k < n; ++k) lzma_index_append(i, nullptr, 8 + (lzma_vli)(k % 30) * 4, 1 + (lzma_vli)(k % 7777));
			lzma_stream_flags sf; memset(&sf, 0, sizeof sf); sf.version = 0; sf.check = LZMA_CHECK_CRC32; sf.backward_size = lzma_index_size(i);
			uint8_t hdr[LZMA_STREAM_HEADER_SIZE];
			lzma_stream_header_encode(&sf, hdr);
			file.insert(file.end(), hdr, hdr + sizeof hdr);
			file.insert(file.end(), (size_t)lzma_index_total_size(i), 0x5a);
			size_t at = file.size(), pos = 0;
			file.resize(at + (size_t)lzma_index_size(i));
			lzma_index_buffer_encode(i, file.data() + at, &pos, (size_t)lzma_index_size(i));
			lzma_stream_footer_encode(&sf, hdr);
			file.insert(file.end(), hdr, hdr + sizeof hdr);
			lzma_index_end(i, nullptr);
			if (s + 1 < streams) file.insert(file.end(), 4 * (size_t)(s % 3), 0);
		}
		v.count("reach.file_info_many_records_per_stream");
	} else if (api == 2) {
		for (int s = 0; s < streams; ++s) {
			std::vector<size_t> bs(nblocks / (uint32_t)streams + 1, 1);
			Bytes part(plain.begin(), plain.begin() + (long)std::min<size_t>(plain.size(), bs.size()));
			if (!xz_build_sized(part, bs, ch.f, LZMA_CHECK_CRC32, file, nullptr, err)) { v.fail("harness", "harness/artefact", err); lzma_index_end(built, nullptr); return; }
			if (s + 1 < streams) file.insert(file.end(), 4 * (size_t)(s % 3), 0);
		}
	} else {
		for (uint32_t k = 0; k < nrec; ++k) lzma_index_append(built, nullptr, 8 + (lzma_vli)(k % 300) * 4, 1 + (lzma_vli)(k % 7777));
		index_raw.resize((size_t)lzma_index_size(built));
		size_t pos = 0;
		lzma_index_buffer_encode(built, index_raw.data(), &pos, index_raw.size());
	}
	lzma_index_end(built, nullptr);
	v.count("runs.total");
	v.count(fmt("api.%d", api));

	auto run = [&](uint64_t limit, bool raise, uint64_t &peak, uint64_t &final_limit, uint64_t &errors, lzma_vli &blocks, std::string &e, std::string &cls) {
		SimAlloc al;
		lzma_index *idx = nullptr;
		blocks = 0; errors = 0; final_limit = limit;
		if (api == 1) {
			uint64_t ml = limit;
			for (int round = 0; round < 4; ++round) {
				size_t ip = 0;
				lzma_ret r = lzma_index_buffer_decode(&idx, &ml, &al.a, index_raw.data(), &ip, index_raw.size());
				if (r == LZMA_MEMLIMIT_ERROR) {
					++errors;
					if (idx) { e = "lzma_index_buffer_decode left *i set after LZMA_MEMLIMIT_ERROR"; cls = "out-param"; }
					if (ml <= final_limit && e.empty()) { e = fmt("needed amount reported as %llu with limit %llu", (unsigned long long)ml, (unsigned long long)final_limit); cls = "memusage-report"; }
					if (!raise) break;
					final_limit = ml;
					continue;
				}
				if (r != LZMA_OK) { e = fmt("lzma_index_buffer_decode returned %s", ret_name(r)); cls = "status"; }
				break;
			}
		} else {
			lzma_stream s = LZMA_STREAM_INIT;
			s.allocator = &al.a;
			const Bytes &src = api == 0 ? index_raw : file;
			lzma_ret r = api == 0 ? lzma_index_decoder(&s, &idx, limit) : lzma_file_info_decoder(&s, &idx, limit, src.size());
			if (r != LZMA_OK) { e = fmt("init returned %s", ret_name(r)); cls = "init"; lzma_end(&s); return; }
			size_t pos = 0, in_each = (size_t)plan.p("in_each", 4096);
			uint64_t guard = 0;
			for (;;) {
				size_t n = std::min(in_each, src.size() - pos);
				s.next_in = src.data() + pos; s.avail_in = n;
				r = lzma_code(&s, LZMA_RUN);
				pos += n - s.avail_in;
				if (final_limit != UINT64_MAX && al.cur > final_limit + allowance(1) && e.empty()) { e = fmt("%llu bytes allocated with a limit of %llu", (unsigned long long)al.cur, (unsigned long long)final_limit); cls = "limit-exceeded"; }
				if (r == LZMA_SEEK_NEEDED) { if (s.seek_pos > src.size()) { e = "seek beyond the file"; cls = "seek"; break; } pos = (size_t)s.seek_pos; continue; }
				if (r == LZMA_MEMLIMIT_ERROR) {
					++errors;
					uint64_t need = lzma_memusage(&s);
					if (need <= final_limit && e.empty()) { e = fmt("LZMA_MEMLIMIT_ERROR with lzma_memusage() %llu <= limit %llu", (unsigned long long)need, (unsigned long long)final_limit); cls = "memusage-report"; }
					if (!raise || errors > 32) break;
					if (lzma_memlimit_set(&s, need) != LZMA_OK) { e = "lzma_memlimit_set(lzma_memusage()) refused"; cls = "memlimit-set"; break; }
					final_limit = need;
					continue;
				}
				if (r != LZMA_OK) break;
				if (++guard > 2000000) { e = "no termination"; cls = "liveness-calls"; break; }
			}
			if (r != LZMA_STREAM_END && r != LZMA_MEMLIMIT_ERROR && e.empty()) { e = fmt("decoder ended with %s", ret_name(r)); cls = "status"; }
			lzma_end(&s);
		}
		peak = al.peak;
		if (idx) { blocks = lzma_index_block_count(idx); lzma_index_end(idx, &al.a); }
		if (al.cur != 0 && e.empty()) { e = fmt("%llu bytes leaked", (unsigned long long)al.cur); cls = "leak"; al.purge(); }
	};

	uint64_t peak0, fl0, er0; lzma_vli blocks0; std::string e, cls;
	run(UINT64_MAX, false, peak0, fl0, er0, blocks0, e, cls);
	if (!e.empty()) { v.fail("baseline-" + cls, "C09/baseline-" + cls, "unlimited index decode: " + e); return; }
	uint64_t peak1, need, er1; lzma_vli blocks1;
	run(1, true, peak1, need, er1, blocks1, e, cls);
	std::string ctx = fmt(" [api %d, %u records]", api, nrec);
	if (!e.empty()) { v.fail(cls, "C09/index-" + cls, e + ctx); return; }
	if (er1 == 0) { v.fail("no-memlimit-error", "C09/index-no-memlimit-error", "limit 1 accepted" + ctx); return; }
	if (blocks1 != blocks0) { v.fail("continue-differs", "C09/index-continue-differs", "index differs after raising the limit" + ctx); return; }
	if (peak0 > need + allowance(1)) { v.fail("memusage-too-small", "C09/index-memusage-too-small", fmt("reported need %llu, really allocated %llu", (unsigned long long)need, (unsigned long long)peak0) + ctx); return; }
	uint64_t L;
	switch ((int)plan.p("limit_mode")) {
	case 0: L = need - 1; break;
	case 1: L = need; break;
	case 2: L = need + 1; break;
	case 3: L = need / 2 + 1; break;
	default: L = 1 + need * (uint64_t)plan.p("limit_frac") / 1000; break;
	}
	uint64_t peak2, fl2, er2; lzma_vli blocks2;
	run(L, false, peak2, fl2, er2, blocks2, e, cls);
	if (!e.empty()) { v.fail(cls, "C09/index-" + cls, e + ctx); return; }
	if (peak2 > L + allowance(1)) { v.fail("limit-exceeded", "C09/index-limit-exceeded", fmt("peak %llu with limit %llu", (unsigned long long)peak2, (unsigned long long)L) + ctx); return; }
	if (L >= need && er2) { v.fail("spurious-memlimit-error", "C09/index-spurious-memlimit-error", "LZMA_MEMLIMIT_ERROR with a sufficient limit" + ctx); return; }
	if (L < need && !er2) { v.fail("no-memlimit-error", "C09/index-no-memlimit-error", fmt("limit %llu below the need %llu accepted", (unsigned long long)L, (unsigned long long)need) + ctx); return; }
	v.feature(mix64(mix64((uint64_t)api, (uint64_t)plan.p("limit_mode")), nrec / 64));
}

REGISTER_SCENARIO(c09_dec, "C09", "decoder_limits", 50, 50, dec_gen, dec_exec, true);
REGISTER_SCENARIO(c09_est, "C09", "estimates", 35, 35, est_gen, est_exec, true);
REGISTER_SCENARIO(c09_idx, "C09", "index_limits", 15, 15, idx_gen, idx_exec, false);

} // namespace

// ------------------------------------------------------------------------
// Threaded decoder with realistic multi-Block files: the threading limit is
// between what one thread needs and what all threads would like to have.
// Output buffers of the Blocks in flight are the dominant cost here.
namespace {

static void mtl_gen(Rng &rng, Plan &plan, bool thorough)
{
	gen_sched_params(rng, plan, thorough);
	gen_chain_params(rng, plan, false, true);
	plan.setp("ch_preset", 0);
	static const int64_t dicts[] = { 4096, 65536, 1 << 18 };
	plan.setp("ch_dict", dicts[rng.below(3)]);
	gen_artefact_params(rng, plan, thorough, thorough ? 1500000 : 500000);
	plan.setp("art_streams", 1);
	plan.setp("art0_kind", 0);
	plan.setp("art0_class", rng.chance(500) ? IN_TEXT : IN_RUNS);   // compressible: big output buffers, little input
	plan.setp("art0_len", 100000 + (int64_t)rng.below(thorough ? 1400000 : 400000));
	static const int64_t bs[] = { 20000, 50000, 100000, 200000 };
	plan.setp("art0_block", bs[rng.below(4)]);
	plan.setp("art0_empty_blocks", 0);
	plan.setp("threads", rng.range(2, 8));
	plan.setp("timeout", rng.chance(500) ? 0 : rng.range(1, 40));
	plan.setp("limit_permille", (int64_t)rng.below(1000));   // where between "one thread" and "all threads" the limit sits
	plan.setp("in_each", (int64_t)(1 + rng.size_skewed(60000)));
	plan.setp("out_each", (int64_t)(rng.chance(500) ? 1 + rng.below(9000) : 1 + rng.size_skewed(100000)));
}

static void mtl_exec(const Plan &plan, Verdict &v)
{
	Bytes file, plain;
	XzInfo info;
	std::string err;
	if (!build_artefact(plan, file, plain, info, err)) { v.fail("harness", "harness/artefact", err); return; }
	v.count("runs.total");
	Chain ch; chain_from_plan(plan, ch);
	uint64_t need_st = lzma_raw_decoder_memusage(ch.f);
	uint32_t threads = (uint32_t)plan.p("threads", 4);
	size_t max_block = 0;
	for (size_t b : info.block_plain_sizes) max_block = std::max(max_block, b);
	// what the threaded mode wants per Block: filters + input + output buffer
	uint64_t per_block = need_st + 2 * (uint64_t)max_block + 65536;
	uint64_t limit = need_st + per_block * threads * (uint64_t)plan.p("limit_permille") / 1000;
	SimAlloc al;
	Session ss(&al.a);
	ss.set_input(&file);
	ss.keep_output = true;
	lzma_mt mt; memset(&mt, 0, sizeof mt);
	mt.threads = threads; mt.timeout = (uint32_t)plan.p("timeout", 0); mt.flags = 0;
	mt.memlimit_threading = limit; mt.memlimit_stop = UINT64_MAX;
	lzma_ret r = lzma_stream_decoder_mt(&ss.s, &mt);
	if (r != LZMA_OK) { v.fail("init", "C09/init", ret_name(r)); ss.end(); return; }
	size_t in_each = (size_t)plan.p("in_each", 4096), out_each = (size_t)plan.p("out_each", 4096);
	if (file.size() / in_each > 3000) in_each = file.size() / 3000 + 1;
	if (plain.size() / out_each > 4000) out_each = plain.size() / 4000 + 1;
	uint64_t guard = 0;
	bool finishing = false;
	uint64_t A = allowance(threads);
	uint64_t worst = 0;
	for (;;) {
		size_t in_n = in_each;
		lzma_action act = LZMA_RUN;
		if (finishing || ss.in_left() <= in_n) { act = LZMA_FINISH; in_n = ss.in_left(); finishing = true; }
		r = ss.step(in_n, out_each, act);
		if (al.cur > worst) worst = al.cur;
		if (r != LZMA_OK) break;
		if (ss.in_left() == 0) sim_fair_phase();
		if (++guard > 1000000) { v.fail("liveness-calls", "C09/liveness-calls", "no termination"); break; }
	}
	uint64_t peak = al.peak;
	bool multi = sim_max_threads_seen() > 2;
	Bytes out; out.swap(ss.out);
	ss.end();
	if (!v.ok) { al.purge(); return; }
	std::string ctx = fmt(" [threads %u, threading limit %llu (one thread needs %llu), %zu Blocks of <= %zu bytes, peak %llu, workers alive at once %d]", threads, (unsigned long long)limit, (unsigned long long)need_st,
		info.n_blocks, max_block, (unsigned long long)peak, sim_max_threads_seen() - 1);
	if (r != LZMA_STREAM_END || out != plain) { v.fail("result", "C09/result", fmt("threaded decode under a threading limit gave %s, %zu bytes", ret_name(r), out.size()) + ctx); return; }
	if (al.cur) { v.fail("leak", "C09/leak", "leak" + ctx); al.purge(); return; }
	if (peak > limit + A) { v.fail("threading-limit-exceeded", "C09/threading-limit-exceeded", "the threaded decoder allocated more than its threading limit although a single thread fits in it" + ctx); return; }
	if (multi) v.count("runs.multi_worker");
	v.counters["max.peak_permille_of_limit"] = std::max<uint64_t>(v.counters["max.peak_permille_of_limit"], peak * 1000 / limit);
	v.feature(mix64(mix64(threads, limit / 65536), mix64(info.n_blocks, multi)));
}

REGISTER_SCENARIO(c09_mtl, "C09", "mt_threading_limit", 25, 25, mtl_gen, mtl_exec, true);

} // namespace
