// lzsim entry point.
//   lzsim run  --prop P --tier quick|thorough --seed S --runs N --jobs J
//              --seconds T --outdir D [--scen name]
//   lzsim exec --plan FILE            run one plan in this process
//   lzsim gen  --prop P --tier T --runseed R [--scen name]
//   lzsim list
#include "core.hpp"

#include <algorithm>
#include <cerrno>
#include <csignal>
#include <fcntl.h>
#include <fstream>
#include <poll.h>
#include <sstream>
#include <sys/stat.h>
#include <sys/wait.h>
#include <time.h>
#include <unistd.h>

#ifndef LZSIM_FLAVOUR
#define LZSIM_FLAVOUR "plain"
#endif
const char *g_flavour = LZSIM_FLAVOUR;

extern "C" int __real_clock_gettime(clockid_t, struct timespec *);

static double wall()
{
	struct timespec ts;
	__real_clock_gettime(CLOCK_MONOTONIC, &ts);
	return (double)ts.tv_sec + (double)ts.tv_nsec / 1e9;
}

// Sanitizer classification: exit code 77, no leak checking (the simulated
// allocator does the accounting).
extern "C" __attribute__((used, visibility("default"))) const char *__asan_default_options()
{
	return "exitcode=77:detect_leaks=0:allocator_may_return_null=1:handle_abort=0:detect_stack_use_after_return=0";
}
extern "C" __attribute__((used, visibility("default"))) const char *__ubsan_default_options()
{
	return "print_stacktrace=1:halt_on_error=1:exitcode=77";
}
extern "C" __attribute__((used, visibility("default"))) const char *__tsan_default_options()
{
	return "exitcode=78:halt_on_error=1:report_signal_unsafe=0:second_deadlock_stack=1";
}

static std::string esc(const std::string &s)
{
	std::string o;
	for (char c : s) {
		if (c == '\n') o += "\\n";
		else if (c == '\t') o += "\\t";
		else if (c == '\\') o += "\\\\";
		else o += c;
	}
	return o;
}

static std::string json_str(const std::string &s)
{
	std::string o = "\"";
	for (unsigned char c : s) {
		if (c == '"') o += "\\\"";
		else if (c == '\\') o += "\\\\";
		else if (c == '\n') o += "\\n";
		else if (c == '\t') o += "\\t";
		else if (c < 0x20 || c >= 0x7f) { char b[8]; snprintf(b, sizeof b, "\\u%04x", c); o += b; }
		else o += (char)c;
	}
	return o + "\"";
}

struct Args {
	std::string mode, prop, tier = "quick", outdir = ".", scen, planfile;
	uint64_t seed = 1, runseed = 0;
	long runs = 100, jobs = 16;
	double seconds = 600;
};

static bool pick_scenario(const std::string &prop, const std::string &only, bool thorough, Rng &rng, const Scenario *&out)
{
	std::vector<const Scenario *> c;
	long total = 0;
	for (auto &s : scenarios()) {
		if (prop != s.prop) continue;
		if (!only.empty() && only != s.name) continue;
		int w = thorough ? s.weight_thorough : s.weight_quick;
		if (!only.empty() && w <= 0) w = 1;
		if (w <= 0) continue;
		c.push_back(&s);
		total += w;
	}
	if (c.empty()) return false;
	long r = (long)rng.below((uint64_t)total);
	for (auto *s : c) {
		int w = thorough ? s->weight_thorough : s->weight_quick;
		if (!only.empty() && w <= 0) w = 1;
		if (r < w) { out = s; return true; }
		r -= w;
	}
	out = c.back();
	return true;
}

static bool gen_plan(const Args &a, uint64_t runseed, Plan &plan)
{
	bool thorough = a.tier == "thorough";
	Rng rng = Rng::derive(runseed, "plan");
	const Scenario *s = nullptr;
	if (!pick_scenario(a.prop, a.scen, thorough, rng, s)) return false;
	plan = Plan();
	plan.prop = a.prop;
	plan.scen = s->name;
	plan.seed = runseed;
	s->gen(rng, plan, thorough);
	return true;
}

// --------------------------------------------------------------- fatal
static int g_result_fd = -1;
static long g_cur_index = -1;

static void sim_fatal(const char *cls, const char *msg)
{
	// Called from an arbitrary simulated thread: report and die.
	std::string line = fmt("V %ld ", g_cur_index) + esc(cls) + "\t" + esc(std::string("sim/") + cls) + "\t" + esc(msg) + "\t0\n";
	if (g_result_fd >= 0) {
		ssize_t r = write(g_result_fd, line.data(), line.size());
		(void)r;
	} else {
		fprintf(stdout, "VERDICT V %s\tsim/%s\t%s\n", cls, cls, esc(msg).c_str());
		fflush(stdout);
	}
	_exit(71);
}

// --------------------------------------------------------------- worker
static std::string verdict_stats(const Verdict &v)
{
	std::ostringstream o;
	bool first = true;
	for (auto &e : v.counters) { if (!first) o << ","; first = false; o << e.first << "=" << e.second; }
	o << "\t";
	first = true;
	for (uint64_t f : v.features) { if (!first) o << ","; first = false; o << std::hex << f << std::dec; }
	o << "\t";
	first = true;
	for (uint64_t f : v.features2) { if (!first) o << ","; first = false; o << std::hex << f << std::dec; }
	return o.str();
}

static void wr(int fd, const std::string &s)
{
	size_t off = 0;
	while (off < s.size()) {
		ssize_t r = write(fd, s.data() + off, s.size() - off);
		if (r < 0) { if (errno == EINTR) continue; _exit(72); }
		off += (size_t)r;
	}
}

static void worker_main(const Args &a, int fd, long first, long step, double deadline)
{
	g_result_fd = fd;
	sim_set_fatal(sim_fatal);
	for (long i = first; i < a.runs; i += step) {
		if (wall() > deadline) break;
		uint64_t runseed = a.seed * 1000000ull + (uint64_t)i;
		g_cur_index = i;
		wr(fd, fmt("S %ld\n", i));
		Plan plan;
		if (!gen_plan(a, runseed, plan)) { wr(fd, fmt("V %ld harness\tharness\tno scenario\t0\n", i)); break; }
		Verdict v;
		run_plan(plan, v);
		if (!v.ok) {
			// gate (a): the same plan must fail the same way again, with the
			// same trace hash, in this very process
			Verdict v2;
			run_plan(plan, v2);
			if (v2.ok || v2.cls != v.cls || v2.trace_hash != v.trace_hash) {
				v.cls = "HARNESS-NONDETERMINISM";
				v.msg = "first: " + v.msg + " | second: " + (v2.ok ? std::string("ok") : v2.cls + " " + v2.msg)
					+ fmt(" trace %016llx vs %016llx", (unsigned long long)v.trace_hash, (unsigned long long)v2.trace_hash);
			}
			wr(fd, fmt("V %ld ", i) + esc(v.cls) + "\t" + esc(v.sig) + "\t" + esc(v.msg) + "\t" + fmt("%016llx", (unsigned long long)v.trace_hash) + "\n");
		}
		wr(fd, fmt("D %ld %s %016llx %s\t", i, v.ok ? "ok" : "V", (unsigned long long)v.trace_hash, plan.scen.c_str()) + verdict_stats(v) + "\n");
	}
	wr(fd, "E\n");
	_exit(0);
}

struct Worker {
	pid_t pid = -1;
	int fd = -1;
	std::string buf;
	long cur = -1;       // index in flight
	long next = 0;       // next index to start from after a crash
	double started = 0;
	bool finished = false;
	int slot = 0;
};

struct Agg {
	long runs = 0, violations = 0;
	std::map<std::string, uint64_t> counters;
	std::set<uint64_t> features, features2, traces;
	std::map<std::string, long> per_scen;
	std::map<long, std::string> trace_of;   // run index -> "trace verdict scenario"
	struct Viol { long idx; std::string cls, sig, msg, trace; };
	std::vector<Viol> viols;
};

static std::vector<std::string> split(const std::string &s, char d)
{
	std::vector<std::string> o;
	size_t p = 0;
	for (;;) {
		size_t q = s.find(d, p);
		if (q == std::string::npos) { o.push_back(s.substr(p)); break; }
		o.push_back(s.substr(p, q - p));
		p = q + 1;
	}
	return o;
}

static std::string unesc(const std::string &s)
{
	std::string o;
	for (size_t i = 0; i < s.size(); ++i) {
		if (s[i] == '\\' && i + 1 < s.size()) {
			++i;
			o += s[i] == 'n' ? '\n' : s[i] == 't' ? '\t' : s[i];
		} else o += s[i];
	}
	return o;
}

static void handle_line(Agg &g, Worker &w, const std::string &line)
{
	if (line.empty()) return;
	if (line[0] == 'S') { w.cur = atol(line.c_str() + 2); w.started = wall(); return; }
	if (line[0] == 'E') { w.finished = true; w.cur = -1; return; }
	if (line[0] == 'V') {
		size_t sp = line.find(' ', 2);
		long idx = atol(line.c_str() + 2);
		auto f = split(line.substr(sp + 1), '\t');
		while (f.size() < 4) f.push_back("");
		g.viols.push_back({ idx, unesc(f[0]), unesc(f[1]), unesc(f[2]), f[3] });
		++g.violations;
		return;
	}
	if (line[0] == 'D') {
		// D idx ok|V trace scen \t counters \t features \t features2
		auto tabs = split(line, '\t');
		std::istringstream hs(tabs[0]);
		std::string d, okv, trace, scen; long idx;
		hs >> d >> idx >> okv >> trace >> scen;
		++g.runs;
		++g.per_scen[scen];
		g.traces.insert(strtoull(trace.c_str(), nullptr, 16));
		g.trace_of[idx] = trace + " " + okv + " " + scen;
		if (tabs.size() > 1 && !tabs[1].empty())
			for (auto &kv : split(tabs[1], ',')) {
				size_t eq = kv.find('=');
				if (eq == std::string::npos) continue;
				std::string k = kv.substr(0, eq);
				uint64_t val = strtoull(kv.c_str() + eq + 1, nullptr, 10);
				if (k.compare(0, 5, "bits.") == 0) g.counters[k] |= val;
				else if (k.compare(0, 4, "max.") == 0) g.counters[k] = std::max(g.counters[k], val);
				else g.counters[k] += val;
			}
		if (tabs.size() > 2 && !tabs[2].empty())
			for (auto &h : split(tabs[2], ',')) g.features.insert(strtoull(h.c_str(), nullptr, 16));
		if (tabs.size() > 3 && !tabs[3].empty())
			for (auto &h : split(tabs[3], ',')) g.features2.insert(strtoull(h.c_str(), nullptr, 16));
		w.next = idx;  // completed
		w.cur = -1;
		return;
	}
}

static void spawn(const Args &a, Worker &w, long first, long step, double deadline)
{
	int p[2];
	if (pipe(p) != 0) { perror("pipe"); exit(2); }
	fflush(stdout); fflush(stderr);
	pid_t pid = fork();
	if (pid < 0) { perror("fork"); exit(2); }
	if (pid == 0) {
		close(p[0]);
		std::string errf = a.outdir + fmt("/worker_%d.stderr", w.slot);
		int efd = open(errf.c_str(), O_WRONLY | O_CREAT | O_APPEND, 0644);
		if (efd >= 0) { dup2(efd, 2); close(efd); }
		worker_main(a, p[1], first, step, deadline);
		_exit(0);
	}
	close(p[1]);
	w.pid = pid; w.fd = p[0]; w.buf.clear(); w.cur = -1; w.finished = false; w.started = wall();
}

static std::string tail_file(const std::string &path, size_t maxb)
{
	std::ifstream f(path, std::ios::binary);
	if (!f) return "";
	f.seekg(0, std::ios::end);
	std::streamoff n = f.tellg();
	std::streamoff from = n > (std::streamoff)maxb ? n - (std::streamoff)maxb : 0;
	f.seekg(from);
	std::string s((size_t)(n - from), '\0');
	f.read(&s[0], n - from);
	return s;
}

static std::string crash_class(int status, const std::string &errtail)
{
	std::string kind;
	if (WIFEXITED(status)) {
		int c = WEXITSTATUS(status);
		if (c == 77) kind = "sanitizer";
		else if (c == 78) kind = "tsan";
		else kind = fmt("exit%d", c);
	} else if (WIFSIGNALED(status)) {
		int s = WTERMSIG(status);
		kind = s == SIGABRT ? "abort" : s == SIGSEGV ? "segv" : s == SIGKILL ? "hang" : fmt("signal%d", s);
	}
	// refine from the report text
	const char *keys[] = { "heap-use-after-free", "heap-buffer-overflow", "stack-buffer-overflow",
		"global-buffer-overflow", "double-free", "attempting free", "SEGV", "data race",
		"runtime error", "Assertion", "use-of-uninitialized", "lock-order-inversion", "negative-size-param",
		"memcpy-param-overlap", "stack-overflow", "requested allocation size" };
	for (const char *k : keys)
		if (errtail.find(k) != std::string::npos) { kind += std::string(":") + k; break; }
	return "crash:" + kind;
}

static std::string crash_excerpt(const std::string &errtail)
{
	// first ~25 interesting lines
	std::istringstream in(errtail);
	std::string line, out;
	int n = 0;
	bool on = false;
	while (std::getline(in, line) && n < 30) {
		if (!on && (line.find("ERROR") != std::string::npos || line.find("WARNING") != std::string::npos
				|| line.find("runtime error") != std::string::npos || line.find("Assertion") != std::string::npos
				|| line.find("SIM FATAL") != std::string::npos))
			on = true;
		if (on) { out += line + "\n"; ++n; }
	}
	if (out.empty()) out = errtail.substr(errtail.size() > 1500 ? errtail.size() - 1500 : 0);
	return out;
}

static int cmd_run(const Args &a)
{
	mkdir(a.outdir.c_str(), 0755);
	double t0 = wall();
	double deadline = t0 + a.seconds;
	long J = std::max(1L, std::min(a.jobs, a.runs));
	std::vector<Worker> ws((size_t)J);
	Agg g;
	for (long j = 0; j < J; ++j) {
		ws[(size_t)j].slot = (int)j;
		unlink((a.outdir + fmt("/worker_%ld.stderr", j)).c_str());
		spawn(a, ws[(size_t)j], j, J, deadline);
	}
	long active = J;
	while (active > 0) {
		std::vector<pollfd> pf;
		std::vector<size_t> idx;
		for (size_t j = 0; j < ws.size(); ++j)
			if (ws[j].fd >= 0) { pf.push_back({ ws[j].fd, POLLIN, 0 }); idx.push_back(j); }
		int pr = poll(pf.data(), (nfds_t)pf.size(), 1000);
		if (pr < 0 && errno != EINTR) { perror("poll"); return 2; }
		double now = wall();
		for (size_t k = 0; k < pf.size(); ++k) {
			Worker &w = ws[idx[k]];
			bool eof = false;
			if (pf[k].revents & (POLLIN | POLLHUP)) {
				char buf[65536];
				ssize_t r = read(w.fd, buf, sizeof buf);
				if (r > 0) {
					w.buf.append(buf, (size_t)r);
					size_t pos;
					while ((pos = w.buf.find('\n')) != std::string::npos) {
						handle_line(g, w, w.buf.substr(0, pos));
						w.buf.erase(0, pos + 1);
					}
				} else if (r == 0) eof = true;
			}
			// watchdog (backstop only: hangs of the threaded code are caught deterministically by the scheduler's
			// step budgets): one run may not take more than 600 s of wall time, even on a heavily loaded machine
			if (!eof && w.cur >= 0 && now - w.started > 600) {
				kill(w.pid, SIGKILL);
				eof = true;
			}
			if (eof) {
				int status = 0;
				waitpid(w.pid, &status, 0);
				close(w.fd); w.fd = -1;
				if (w.finished) { --active; continue; }
				// died in the middle of run w.cur
				long died_at = w.cur;
				std::string errf = a.outdir + fmt("/worker_%d.stderr", w.slot);
				std::string tail = tail_file(errf, 20000);
				bool already = false;
				for (auto &v : g.viols) if (v.idx == died_at) already = true;
				if (died_at >= 0 && !already) {
					std::string cls = crash_class(status, tail);
					g.viols.push_back({ died_at, cls, a.prop + "/" + cls, crash_excerpt(tail), "" });
					++g.violations;
				}
				if (died_at >= 0) { ++g.runs; }
				unlink(errf.c_str());
				long nextidx = died_at >= 0 ? died_at + J : a.runs;
				if (died_at < 0) { --active; continue; }   // died between runs: give up on this slot
				if (nextidx < a.runs && now < deadline) spawn(a, w, nextidx, J, deadline);
				else --active;
			}
		}
	}
	double t1 = wall();

	// write violation plans
	for (auto &v : g.viols) {
		Plan plan;
		uint64_t runseed = a.seed * 1000000ull + (uint64_t)v.idx;
		if (gen_plan(a, runseed, plan)) {
			std::ofstream f(a.outdir + fmt("/viol_%ld.plan", v.idx));
			f << plan.to_text();
		}
	}

	// sample plans
	std::vector<std::string> samples;
	for (long i = 0; i < a.runs && samples.size() < 4; i += std::max(1L, a.runs / 4)) {
		Plan plan;
		if (gen_plan(a, a.seed * 1000000ull + (uint64_t)i, plan)) {
			std::string t = plan.to_text();
			if (t.size() > 1500) t = t.substr(0, 1500) + "...";
			samples.push_back(t);
		}
	}

	{
		// per-run trace hashes: the determinism protocol diffs these files
		std::ofstream tf(a.outdir + "/traces.txt");
		for (auto &e : g.trace_of) tf << e.first << " " << e.second << "\n";
	}
	std::ofstream o(a.outdir + "/summary.json");
	o << "{\n";
	o << " \"prop\": " << json_str(a.prop) << ",\n \"tier\": " << json_str(a.tier) << ",\n \"flavour\": " << json_str(g_flavour) << ",\n";
	o << " \"seed\": " << a.seed << ",\n \"runs_requested\": " << a.runs << ",\n \"runs\": " << g.runs << ",\n";
	o << " \"wall_s\": " << (t1 - t0) << ",\n \"jobs\": " << J << ",\n";
	o << " \"distinct_features\": " << g.features.size() << ",\n \"distinct_features2\": " << g.features2.size() << ",\n";
	o << " \"distinct_traces\": " << g.traces.size() << ",\n";
	o << " \"counters\": {";
	bool first = true;
	for (auto &e : g.counters) { o << (first ? "" : ", ") << json_str(e.first) << ": " << e.second; first = false; }
	o << "},\n \"per_scenario\": {";
	first = true;
	for (auto &e : g.per_scen) { o << (first ? "" : ", ") << json_str(e.first) << ": " << e.second; first = false; }
	o << "},\n \"samples\": [";
	first = true;
	for (auto &s : samples) { o << (first ? "" : ", ") << json_str(s); first = false; }
	o << "],\n \"violations\": [";
	first = true;
	for (auto &v : g.viols) {
		o << (first ? "\n" : ",\n") << "  {\"index\": " << v.idx << ", \"runseed\": " << (a.seed * 1000000ull + (uint64_t)v.idx)
		  << ", \"cls\": " << json_str(v.cls) << ", \"sig\": " << json_str(v.sig) << ", \"msg\": " << json_str(v.msg)
		  << ", \"trace\": " << json_str(v.trace) << ", \"plan\": " << json_str(a.outdir + fmt("/viol_%ld.plan", v.idx)) << "}";
		first = false;
	}
	o << "]\n}\n";
	o.close();
	printf("lzsim[%s] %s %s: runs=%ld violations=%ld wall=%.1fs distinct_features=%zu traces=%zu\n", g_flavour, a.prop.c_str(), a.tier.c_str(),
		g.runs, g.violations, t1 - t0, g.features.size(), g.traces.size());
	return g.violations ? 10 : 0;
}

static int cmd_exec(const Args &a)
{
	std::ifstream f(a.planfile);
	if (!f) { fprintf(stderr, "cannot read %s\n", a.planfile.c_str()); return 2; }
	std::stringstream ss; ss << f.rdbuf();
	Plan plan; std::string err;
	if (!Plan::from_text(ss.str(), plan, err)) { fprintf(stderr, "bad plan: %s\n", err.c_str()); return 2; }
	sim_set_fatal(sim_fatal);
	Verdict v;
	run_plan(plan, v);
	if (getenv("LZSIM_PRINT_CHOICES")) {
		size_t n; const uint32_t *c = sim_choice_log(&n);
		printf("CHOICES");
		for (size_t i = 0; i < n; ++i) printf(" %u", c[i]);
		printf("\n");
	}
	printf("TRACE %016llx\n", (unsigned long long)v.trace_hash);
	if (getenv("LZSIM_PRINT_STATS")) printf("STATS %s\n", verdict_stats(v).c_str());
	if (v.ok) { printf("VERDICT ok\n"); return 0; }
	printf("VERDICT V %s\t%s\t%s\n", esc(v.cls).c_str(), esc(v.sig).c_str(), esc(v.msg).c_str());
	return 10;
}

int main(int argc, char **argv)
{
	Args a;
	if (argc < 2) { fprintf(stderr, "usage: lzsim run|exec|gen|list ...\n"); return 2; }
	a.mode = argv[1];
	for (int i = 2; i < argc; ++i) {
		std::string k = argv[i];
		auto val = [&]() -> std::string { if (i + 1 >= argc) { fprintf(stderr, "missing value for %s\n", k.c_str()); exit(2); } return argv[++i]; };
		if (k == "--prop") a.prop = val();
		else if (k == "--tier") a.tier = val();
		else if (k == "--seed") a.seed = strtoull(val().c_str(), nullptr, 10);
		else if (k == "--runseed") a.runseed = strtoull(val().c_str(), nullptr, 10);
		else if (k == "--runs") a.runs = atol(val().c_str());
		else if (k == "--jobs") a.jobs = atol(val().c_str());
		else if (k == "--seconds") a.seconds = atof(val().c_str());
		else if (k == "--outdir") a.outdir = val();
		else if (k == "--scen") a.scen = val();
		else if (k == "--plan") a.planfile = val();
		else { fprintf(stderr, "unknown arg %s\n", k.c_str()); return 2; }
	}
	if (a.mode == "list") {
		for (auto &s : scenarios()) printf("%s %s wq=%d wt=%d%s\n", s.prop, s.name, s.weight_quick, s.weight_thorough, s.threaded ? " threaded" : "");
		return 0;
	}
	if (a.mode == "gen") {
		Plan plan;
		if (!gen_plan(a, a.runseed, plan)) { fprintf(stderr, "no scenario\n"); return 2; }
		fputs(plan.to_text().c_str(), stdout);
		return 0;
	}
	if (a.mode == "exec") return cmd_exec(a);
	if (a.mode == "run") return cmd_run(a);
	fprintf(stderr, "unknown mode\n");
	return 2;
}
