#include "refxz.hpp"
#include "refbcj.hpp"
#include "refcheck.hpp"
#include <cstring>

namespace ref {

static const uint64_t VLI_MAX = UINT64_MAX / 2;

unsigned vli_size(uint64_t v) { unsigned n = 1; while (v >= 0x80) { v >>= 7; ++n; } return n; }
void put_vli(Bytes &b, uint64_t v) { while (v >= 0x80) { b.push_back((uint8_t)(v | 0x80)); v >>= 7; } b.push_back((uint8_t)v); }

// xz-file-format 1.2: at most nine bytes, minimal encoding
static bool get_vli(const uint8_t *p, size_t &pos, size_t end, uint64_t &v)
{
	v = 0;
	for (unsigned i = 0; i < 9; ++i) {
		if (pos >= end) return false;
		uint8_t b = p[pos++];
		v |= (uint64_t)(b & 0x7F) << (7 * i);
		if (!(b & 0x80)) return !(b == 0 && i != 0);
	}
	return false;
}

static uint32_t le32(const uint8_t *p) { return (uint32_t)p[0] | (uint32_t)p[1] << 8 | (uint32_t)p[2] << 16 | (uint32_t)p[3] << 24; }
static void put32(Bytes &b, uint32_t v) { for (int i = 0; i < 4; ++i) b.push_back((uint8_t)(v >> (8 * i))); }

static const uint8_t MAGIC[6] = { 0xFD, '7', 'z', 'X', 'Z', 0x00 };

static void field(XzResult &r, size_t off, size_t len, const char *name) { if (len) r.fields.push_back({ off, len, name }); }

// Decode one Block's data through the filter chain. Returns false on error.
static bool decode_chain(const std::vector<FilterSpec> &filters, const uint8_t *p, size_t n, Bytes &plain, size_t &consumed, uint32_t &max_dist, uint64_t &dict, XzVerdict &verdict, std::string &why)
{
	const FilterSpec &last = filters.back();
	if (!lzma2_dict_from_prop(last.props[0], dict)) { why = "invalid LZMA2 dictionary size property"; verdict = XZ_INVALID; return false; }
	Lzma2Result l = decode_lzma2(p, n, dict);
	plain = l.out;
	if (!l.valid) { why = "LZMA2: " + l.why; verdict = XZ_INVALID; return false; }
	consumed = l.consumed;
	max_dist = l.max_dist;
	// the decoder applies the other filters from the last to the first
	for (size_t i = filters.size() - 1; i-- > 0;) {
		const FilterSpec &f = filters[i];
		if (f.id == F_DELTA) delta_apply(plain, (unsigned)f.props[0] + 1, false);
		else {
			uint32_t start = f.props.size() == 4 ? le32(f.props.data()) : 0;
			bcj_apply(f.id, plain, start, false);
		}
	}
	return true;
}

XzResult parse_xz(const uint8_t *p, size_t n, bool concatenated)
{
	XzResult r;
	size_t pos = 0;
	bool first = true;
	for (;;) {
		// ---- Stream Header
		size_t s0 = pos;
		if (n - pos < 12) { if (first) { r.verdict = n - pos >= 6 && memcmp(p + pos, MAGIC, 6) == 0 ? XZ_INVALID : XZ_NOT_XZ; r.why = "too short for a Stream Header"; if (n - pos < 6 && memcmp(p + pos, MAGIC, n - pos) == 0) r.verdict = XZ_INVALID; } else { r.verdict = XZ_INVALID; r.why = "garbage after Stream Padding"; } return r; }
		if (memcmp(p + pos, MAGIC, 6) != 0) { r.verdict = first ? XZ_NOT_XZ : XZ_INVALID; r.why = "Stream Header magic bytes"; return r; }
		if (le32(p + pos + 8) != crc32(p + pos + 6, 2)) { r.verdict = XZ_INVALID; r.why = "Stream Header CRC32"; return r; }
		if (p[pos + 6] != 0 || (p[pos + 7] & 0xF0)) { r.verdict = XZ_UNSUPPORTED; r.why = "reserved Stream Flags bits set"; return r; }
		XzStream st;
		st.start = s0;
		st.check = p[pos + 7] & 0x0F;
		field(r, pos, 6, "magic"); field(r, pos + 6, 2, "stream_flags"); field(r, pos + 8, 4, "stream_header_crc32");
		pos += 12;
		int csz = check_size(st.check);
		bool check_known = st.check == 0 || st.check == 1 || st.check == 4 || st.check == 10;
		if (!check_known) { r.unsupported_check = true; r.features |= XF_CHECK_OTHER; }
		r.features |= st.check == 0 ? XF_CHECK_NONE : st.check == 1 ? XF_CHECK_CRC32 : st.check == 4 ? XF_CHECK_CRC64 : st.check == 10 ? XF_CHECK_SHA256 : 0;
		std::vector<std::pair<uint64_t, uint64_t>> recs;
		// ---- Blocks
		for (;;) {
			if (pos >= n) { r.verdict = XZ_INVALID; r.why = "input ends where a Block Header or the Index is expected"; return r; }
			if (p[pos] == 0x00) break;   // Index Indicator
			XzBlock b;
			b.header_off = pos;
			b.header_size = ((size_t)p[pos] + 1) * 4;
			if (pos + b.header_size > n) { r.verdict = XZ_INVALID; r.why = "input ends inside a Block Header"; return r; }
			const uint8_t *h = p + pos;
			size_t hend = b.header_size - 4;
			if (le32(h + hend) != crc32(h, hend)) { r.verdict = XZ_INVALID; r.why = "Block Header CRC32"; return r; }
			uint8_t flags = h[1];
			if (flags & 0x3C) { r.verdict = XZ_UNSUPPORTED; r.why = "reserved Block Flags bits set"; return r; }
			size_t nf = (size_t)(flags & 3) + 1;
			b.has_csize = flags & 0x40; b.has_usize = flags & 0x80;
			size_t hp = 2;
			if (b.has_csize) { if (!get_vli(h, hp, hend, b.csize_field) || b.csize_field == 0) { r.verdict = XZ_INVALID; r.why = "Compressed Size field"; return r; } }
			if (b.has_usize) { if (!get_vli(h, hp, hend, b.usize_field)) { r.verdict = XZ_INVALID; r.why = "Uncompressed Size field"; return r; } }
			bool unsupported_filter = false;
			for (size_t i = 0; i < nf; ++i) {
				FilterSpec f;
				uint64_t psize;
				if (!get_vli(h, hp, hend, f.id) || !get_vli(h, hp, hend, psize)) { r.verdict = XZ_INVALID; r.why = "Filter Flags"; return r; }
				if (f.id >= ((uint64_t)1 << 62)) { r.verdict = XZ_INVALID; r.why = "reserved Filter ID"; return r; }
				if (psize > hend - hp) { r.verdict = XZ_INVALID; r.why = "Filter Properties run past the header"; return r; }
				f.props.assign(h + hp, h + hp + psize);
				hp += (size_t)psize;
				b.filters.push_back(f);
			}
			for (size_t i = hp; i < hend; ++i) if (h[i] != 0) { r.verdict = XZ_UNSUPPORTED; r.why = "non-zero Header Padding"; return r; }
			b.header_padding = hend - hp;
			// validate the chain
			for (size_t i = 0; i < nf; ++i) {
				const FilterSpec &f = b.filters[i];
				bool is_last = i + 1 == nf;
				if (f.id == F_LZMA2) {
					if (!is_last) { r.verdict = XZ_UNSUPPORTED; r.why = "LZMA2 is not the last filter"; return r; }
					if (f.props.size() != 1 || f.props[0] > 40) { r.verdict = XZ_UNSUPPORTED; r.why = "LZMA2 properties"; return r; }
				} else if (f.id == F_DELTA) {
					if (is_last) { r.verdict = XZ_UNSUPPORTED; r.why = "Delta as the last filter"; return r; }
					if (f.props.size() != 1) { r.verdict = XZ_UNSUPPORTED; r.why = "Delta properties"; return r; }
				} else if (bcj_alignment(f.id)) {
					if (is_last) { r.verdict = XZ_UNSUPPORTED; r.why = "BCJ as the last filter"; return r; }
					if (f.props.size() != 0 && f.props.size() != 4) { r.verdict = XZ_UNSUPPORTED; r.why = "BCJ properties size"; return r; }
					if (f.props.size() == 4) { if (le32(f.props.data()) % bcj_alignment(f.id)) { r.verdict = XZ_UNSUPPORTED; r.why = "BCJ start offset alignment"; return r; } r.features |= XF_BCJ_START; }
					if (!bcj_supported(f.id)) unsupported_filter = true;
				} else { r.verdict = XZ_UNSUPPORTED; r.why = "unknown Filter ID"; return r; }
			}
			if (unsupported_filter) { r.verdict = XZ_UNSUPPORTED; r.why = "filter not implemented by the reference (RISC-V)"; return r; }
			field(r, pos, 1, "block_header_size"); field(r, pos + 1, 1, "block_flags"); field(r, pos + 2, hp - 2, "block_header_fields");
			field(r, pos + hp, b.header_padding, "header_padding"); field(r, pos + hend, 4, "block_header_crc32");
			pos += b.header_size;
			// ---- Block data
			b.data_off = pos;
			size_t limit = n - pos;
			if (b.has_csize && b.csize_field < limit) limit = (size_t)b.csize_field;
			Bytes plain;
			size_t used = 0;
			XzVerdict vd = XZ_INVALID;
			std::string why;
			bool ok = decode_chain(b.filters, p + pos, limit, plain, used, b.max_dist, b.dict_declared, vd, why);
			if (ok && b.has_usize && plain.size() != b.usize_field) { ok = false; why = "Uncompressed Size field does not match the data"; }
			if (ok && b.has_csize && used != b.csize_field) { ok = false; why = "Compressed Size field does not match the data"; }
			if (!ok) { r.out.insert(r.out.end(), plain.begin(), plain.end()); r.verdict = vd; r.why = "Block: " + why; return r; }
			b.data_len = used;
			b.plain_size = plain.size();
			field(r, pos, used, "payload");
			pos += used;
			while ((pos - b.header_off) & 3) {
				if (pos >= n) { r.verdict = XZ_INVALID; r.why = "input ends inside Block Padding"; r.out.insert(r.out.end(), plain.begin(), plain.end()); return r; }
				if (p[pos] != 0) { r.verdict = XZ_INVALID; r.why = "non-zero Block Padding"; r.out.insert(r.out.end(), plain.begin(), plain.end()); return r; }
				++pos; ++b.block_padding;
			}
			field(r, pos - b.block_padding, b.block_padding, "block_padding");
			b.check_off = pos;
			if (pos + (size_t)csz > n) { r.verdict = XZ_INVALID; r.why = "input ends inside the Check"; r.out.insert(r.out.end(), plain.begin(), plain.end()); return r; }
			r.out.insert(r.out.end(), plain.begin(), plain.end());
			if (check_known) {
				Bytes want;
				compute_check(st.check, plain.data(), plain.size(), want);
				if (csz > 0 && memcmp(want.data(), p + pos, (size_t)csz) != 0) { r.verdict = XZ_INVALID; r.why = "Check does not match the data"; return r; }
			}
			field(r, pos, (size_t)csz, "check");
			pos += (size_t)csz;
			b.unpadded = b.header_size + b.data_len + (uint64_t)csz;
			recs.push_back({ b.unpadded, b.plain_size });
			if (b.plain_size == 0) r.features |= XF_EMPTY_BLOCK;
			r.features |= !b.has_csize && !b.has_usize ? XF_NO_SIZES : b.has_csize && b.has_usize ? XF_BOTH_SIZES : b.has_csize ? XF_ONLY_CSIZE : XF_ONLY_USIZE;
			if (b.header_padding >= 4) r.features |= XF_HEADER_PADDING;
			r.features |= nf == 2 ? XF_FILTERS_2 : nf == 3 ? XF_FILTERS_3 : nf == 4 ? XF_FILTERS_4 : 0;
			st.blocks.push_back(b);
		}
		// ---- Index
		size_t i0 = pos;
		++pos;
		uint64_t count;
		if (!get_vli(p, pos, n, count)) { r.verdict = XZ_INVALID; r.why = "Index: Number of Records"; return r; }
		if (count != recs.size()) { r.verdict = XZ_INVALID; r.why = "Index: Number of Records does not match the Blocks"; return r; }
		for (size_t i = 0; i < recs.size(); ++i) {
			uint64_t u, s;
			if (!get_vli(p, pos, n, u) || !get_vli(p, pos, n, s)) { r.verdict = XZ_INVALID; r.why = "Index: Record"; return r; }
			if (u != recs[i].first || s != recs[i].second) { r.verdict = XZ_INVALID; r.why = "Index: Record does not match the Block"; return r; }
		}
		while ((pos - i0) & 3) { if (pos >= n || p[pos] != 0) { r.verdict = XZ_INVALID; r.why = "Index Padding"; return r; } ++pos; }
		if (pos + 4 > n || le32(p + pos) != crc32(p + i0, pos - i0)) { r.verdict = XZ_INVALID; r.why = "Index CRC32"; return r; }
		pos += 4;
		field(r, i0, pos - i0, "index");
		size_t index_size = pos - i0;
		// ---- Stream Footer
		if (pos + 12 > n) { r.verdict = XZ_INVALID; r.why = "input ends inside the Stream Footer"; return r; }
		if (le32(p + pos) != crc32(p + pos + 4, 6)) { r.verdict = XZ_INVALID; r.why = "Stream Footer CRC32"; return r; }
		if (((uint64_t)le32(p + pos + 4) + 1) * 4 != index_size) { r.verdict = XZ_INVALID; r.why = "Backward Size does not match the Index"; return r; }
		if (p[pos + 8] != 0 || p[pos + 9] != (uint8_t)st.check) { r.verdict = (p[pos + 8] != 0 || (p[pos + 9] & 0xF0)) ? XZ_UNSUPPORTED : XZ_INVALID; r.why = "Stream Flags of Header and Footer differ"; return r; }
		if (p[pos + 10] != 'Y' || p[pos + 11] != 'Z') { r.verdict = XZ_INVALID; r.why = "Stream Footer magic bytes"; return r; }
		field(r, pos, 4, "stream_footer_crc32"); field(r, pos + 4, 4, "backward_size"); field(r, pos + 8, 2, "stream_flags"); field(r, pos + 10, 2, "footer_magic");
		pos += 12;
		st.size = pos - st.start;
		if (st.blocks.size() > 1) r.features |= XF_MULTI_BLOCK;
		if (st.blocks.empty()) r.features |= XF_EMPTY_STREAM;
		r.consumed = pos;
		r.streams.push_back(st);
		if (!first) r.features |= XF_MULTI_STREAM;
		first = false;
		if (!concatenated) { r.verdict = XZ_VALID; return r; }
		// ---- Stream Padding
		size_t pad0 = pos;
		while (pos < n && p[pos] == 0) ++pos;
		size_t pad = pos - pad0;
		if (pos == n) {
			if (pad & 3) { r.verdict = XZ_INVALID; r.why = "Stream Padding is not a multiple of four bytes"; return r; }
			r.streams.back().padding_after = pad; field(r, pad0, pad, "stream_padding");
			if (pad) r.features |= XF_STREAM_PADDING;
			r.consumed = pos; r.verdict = XZ_VALID; return r;
		}
		if (pad & 3) { r.verdict = XZ_INVALID; r.why = "Stream Padding is not a multiple of four bytes"; return r; }
		r.streams.back().padding_after = pad; field(r, pad0, pad, "stream_padding");
		if (pad) r.features |= XF_STREAM_PADDING;
	}
}

// ------------------------------------------------------------------ writer
void write_stream_header(Bytes &out, int check, uint8_t reserved_bits)
{
	out.insert(out.end(), MAGIC, MAGIC + 6);
	uint8_t fl[2] = { 0, (uint8_t)(check | reserved_bits) };
	out.push_back(fl[0]); out.push_back(fl[1]);
	put32(out, crc32(fl, 2));
}

uint64_t write_block(Bytes &out, const BlockRecipe &r, int check, const Bytes &plain)
{
	Bytes h;
	h.push_back(0);   // size, patched below
	uint8_t flags = (uint8_t)(r.filters.size() - 1);
	if (r.write_csize) flags |= 0x40;
	if (r.write_usize) flags |= 0x80;
	flags |= r.reserved_flag_bits;
	h.push_back(flags);
	if (r.write_csize) put_vli(h, r.payload.size());
	if (r.write_usize) put_vli(h, r.plain_size);
	for (auto &f : r.filters) { put_vli(h, f.id); put_vli(h, f.props.size()); h.insert(h.end(), f.props.begin(), f.props.end()); }
	while ((h.size() + 4) & 3) h.push_back(0);
	for (unsigned i = 0; i < r.extra_header_padding && h.size() + 4 + 4 <= 1024; ++i) for (int k = 0; k < 4; ++k) h.push_back(0);
	if (r.nonzero_header_padding && r.extra_header_padding) h[h.size() - 2] = 0x01;
	h[0] = (uint8_t)((h.size() + 4) / 4 - 1);
	put32(h, crc32(h.data(), h.size()));
	size_t start = out.size();
	out.insert(out.end(), h.begin(), h.end());
	out.insert(out.end(), r.payload.begin(), r.payload.end());
	uint64_t unpadded = h.size() + r.payload.size() + (uint64_t)check_size(check);
	while ((out.size() - start) & 3) out.push_back(0);
	Bytes c;
	if (compute_check(check, plain.data(), plain.size(), c)) out.insert(out.end(), c.begin(), c.end());
	else out.insert(out.end(), (size_t)check_size(check), 0x5A);   // a check type nobody can verify
	return unpadded;
}

// overlong: 0 none; k > 0: field number k (1 = Number of Records, 2.. = the Record fields in order) is
// written with (overlong_extra) superfluous bytes - the value is right, the encoding is not the shortest
// one, which the format forbids. as_if_minimal: Index Padding and Backward Size are computed as if the
// shortest encodings had been used (what a decoder that works from the decoded values would expect).
static void put_vli_long(Bytes &b, uint64_t v, unsigned extra)
{
	if (extra == 0) { put_vli(b, v); return; }
	while (v >= 0x80) { b.push_back((uint8_t)(v | 0x80)); v >>= 7; }
	b.push_back((uint8_t)(v | 0x80));
	for (unsigned i = 1; i < extra; ++i) b.push_back(0x80);
	b.push_back(0x00);
}

void write_index_and_footer(Bytes &out, const std::vector<std::pair<uint64_t, uint64_t>> &records, int check, uint8_t reserved_bits,
		unsigned overlong, unsigned overlong_extra, bool as_if_minimal)
{
	size_t i0 = out.size();
	out.push_back(0);
	unsigned field = 1, grown = 0;
	put_vli_long(out, records.size(), overlong == field ? overlong_extra : 0); if (overlong == field) grown = overlong_extra;
	for (auto &rc : records) {
		++field; put_vli_long(out, rc.first, overlong == field ? overlong_extra : 0); if (overlong == field) grown = overlong_extra;
		++field; put_vli_long(out, rc.second, overlong == field ? overlong_extra : 0); if (overlong == field) grown = overlong_extra;
	}
	size_t logical = out.size() - i0 - (as_if_minimal ? grown : 0);
	while (logical & 3) { out.push_back(0); ++logical; }
	put32(out, crc32(out.data() + i0, out.size() - i0));
	size_t isz = (as_if_minimal ? logical : out.size() - i0 - 4) + 4;
	if (!as_if_minimal) isz = out.size() - i0;
	Bytes f;
	put32(f, (uint32_t)(isz / 4 - 1));
	f.push_back(0); f.push_back((uint8_t)(check | reserved_bits));
	put32(out, crc32(f.data(), f.size()));
	out.insert(out.end(), f.begin(), f.end());
	out.push_back('Y'); out.push_back('Z');
	(void)VLI_MAX;
}

}
