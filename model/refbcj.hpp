// refbcj: the branch/call/jump and delta transforms as straight one-pass
// functions over a whole buffer, written from the published reference
// algorithms (7-Zip BCJ converters, xz-file-format.txt section 5.3). No
// streaming, no liblzma code. is_encoder selects the direction.
#pragma once
#include <cstddef>
#include <cstdint>
#include <vector>

namespace ref {
// filter ids of the .xz format
enum { F_DELTA = 0x03, F_X86 = 0x04, F_POWERPC = 0x05, F_IA64 = 0x06, F_ARM = 0x07, F_ARMTHUMB = 0x08, F_SPARC = 0x09, F_ARM64 = 0x0A, F_RISCV = 0x0B,
	F_LZMA2 = 0x21 };
// alignment the format requires for the start offset of each BCJ filter (0 = not a BCJ id)
unsigned bcj_alignment(uint64_t id);
// true if refbcj implements the id
bool bcj_supported(uint64_t id);
// transforms buf in place; bytes at the end that cannot be transformed stay as they are
void bcj_apply(uint64_t id, std::vector<uint8_t> &buf, uint32_t start_offset, bool is_encoder);
void delta_apply(std::vector<uint8_t> &buf, unsigned dist, bool is_encoder);
}
