#include "refcheck.hpp"
#include <cstring>

namespace ref {

uint32_t crc32(const uint8_t *p, size_t n, uint32_t crc)
{
	crc = ~crc;
	for (size_t i = 0; i < n; ++i) {
		crc ^= p[i];
		for (int k = 0; k < 8; ++k) crc = (crc >> 1) ^ (0xEDB88320u & (0u - (crc & 1)));
	}
	return ~crc;
}

uint64_t crc64(const uint8_t *p, size_t n, uint64_t crc)
{
	crc = ~crc;
	for (size_t i = 0; i < n; ++i) {
		crc ^= p[i];
		for (int k = 0; k < 8; ++k) crc = (crc >> 1) ^ (0xC96C5795D7870F42ull & (0ull - (crc & 1)));
	}
	return ~crc;
}

static inline uint32_t rotr(uint32_t x, int n) { return (x >> n) | (x << (32 - n)); }

void sha256(const uint8_t *p, size_t n, uint8_t out[32])
{
	static const uint32_t K[64] = {
		0x428a2f98, 0x71374491, 0xb5c0fbcf, 0xe9b5dba5, 0x3956c25b, 0x59f111f1, 0x923f82a4, 0xab1c5ed5, 0xd807aa98, 0x12835b01, 0x243185be, 0x550c7dc3,
		0x72be5d74, 0x80deb1fe, 0x9bdc06a7, 0xc19bf174, 0xe49b69c1, 0xefbe4786, 0x0fc19dc6, 0x240ca1cc, 0x2de92c6f, 0x4a7484aa, 0x5cb0a9dc, 0x76f988da,
		0x983e5152, 0xa831c66d, 0xb00327c8, 0xbf597fc7, 0xc6e00bf3, 0xd5a79147, 0x06ca6351, 0x14292967, 0x27b70a85, 0x2e1b2138, 0x4d2c6dfc, 0x53380d13,
		0x650a7354, 0x766a0abb, 0x81c2c92e, 0x92722c85, 0xa2bfe8a1, 0xa81a664b, 0xc24b8b70, 0xc76c51a3, 0xd192e819, 0xd6990624, 0xf40e3585, 0x106aa070,
		0x19a4c116, 0x1e376c08, 0x2748774c, 0x34b0bcb5, 0x391c0cb3, 0x4ed8aa4a, 0x5b9cca4f, 0x682e6ff3, 0x748f82ee, 0x78a5636f, 0x84c87814, 0x8cc70208,
		0x90befffa, 0xa4506ceb, 0xbef9a3f7, 0xc67178f2 };
	uint32_t h[8] = { 0x6a09e667, 0xbb67ae85, 0x3c6ef372, 0xa54ff53a, 0x510e527f, 0x9b05688c, 0x1f83d9ab, 0x5be0cd19 };
	std::vector<uint8_t> m(p, p + n);
	m.push_back(0x80);
	while (m.size() % 64 != 56) m.push_back(0);
	uint64_t bits = (uint64_t)n * 8;
	for (int i = 7; i >= 0; --i) m.push_back((uint8_t)(bits >> (8 * i)));
	for (size_t off = 0; off < m.size(); off += 64) {
		uint32_t w[64];
		for (int i = 0; i < 16; ++i) w[i] = (uint32_t)m[off + 4 * i] << 24 | (uint32_t)m[off + 4 * i + 1] << 16 | (uint32_t)m[off + 4 * i + 2] << 8 | m[off + 4 * i + 3];
		for (int i = 16; i < 64; ++i) {
			uint32_t s0 = rotr(w[i - 15], 7) ^ rotr(w[i - 15], 18) ^ (w[i - 15] >> 3);
			uint32_t s1 = rotr(w[i - 2], 17) ^ rotr(w[i - 2], 19) ^ (w[i - 2] >> 10);
			w[i] = w[i - 16] + s0 + w[i - 7] + s1;
		}
		uint32_t a = h[0], b = h[1], c = h[2], d = h[3], e = h[4], f = h[5], g = h[6], hh = h[7];
		for (int i = 0; i < 64; ++i) {
			uint32_t S1 = rotr(e, 6) ^ rotr(e, 11) ^ rotr(e, 25);
			uint32_t ch = (e & f) ^ (~e & g);
			uint32_t t1 = hh + S1 + ch + K[i] + w[i];
			uint32_t S0 = rotr(a, 2) ^ rotr(a, 13) ^ rotr(a, 22);
			uint32_t mj = (a & b) ^ (a & c) ^ (b & c);
			uint32_t t2 = S0 + mj;
			hh = g; g = f; f = e; e = d + t1; d = c; c = b; b = a; a = t1 + t2;
		}
		h[0] += a; h[1] += b; h[2] += c; h[3] += d; h[4] += e; h[5] += f; h[6] += g; h[7] += hh;
	}
	for (int i = 0; i < 8; ++i) for (int k = 0; k < 4; ++k) out[4 * i + k] = (uint8_t)(h[i] >> (24 - 8 * k));
}

int check_size(int id)
{
	static const int sz[16] = { 0, 4, 4, 4, 8, 8, 8, 16, 16, 16, 32, 32, 32, 64, 64, 64 };
	return id >= 0 && id < 16 ? sz[id] : -1;
}

bool compute_check(int id, const uint8_t *p, size_t n, std::vector<uint8_t> &out)
{
	out.clear();
	if (id == 0) return true;
	if (id == 1) { uint32_t c = crc32(p, n); for (int i = 0; i < 4; ++i) out.push_back((uint8_t)(c >> (8 * i))); return true; }
	if (id == 4) { uint64_t c = crc64(p, n); for (int i = 0; i < 8; ++i) out.push_back((uint8_t)(c >> (8 * i))); return true; }
	if (id == 10) { out.resize(32); sha256(p, n, out.data()); return true; }
	return false;
}

}
