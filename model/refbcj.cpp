#include "refbcj.hpp"

namespace ref {

unsigned bcj_alignment(uint64_t id)
{
	switch (id) {
	case F_X86: return 1;
	case F_POWERPC: case F_ARM: case F_SPARC: case F_ARM64: return 4;
	case F_IA64: return 16;
	case F_ARMTHUMB: case F_RISCV: return 2;
	default: return 0;
	}
}

bool bcj_supported(uint64_t id) { return id >= F_X86 && id <= F_ARM64; }

static uint32_t le32(const uint8_t *p) { return (uint32_t)p[0] | (uint32_t)p[1] << 8 | (uint32_t)p[2] << 16 | (uint32_t)p[3] << 24; }
static void wle32(uint8_t *p, uint32_t v) { p[0] = (uint8_t)v; p[1] = (uint8_t)(v >> 8); p[2] = (uint8_t)(v >> 16); p[3] = (uint8_t)(v >> 24); }
static uint32_t be32(const uint8_t *p) { return (uint32_t)p[0] << 24 | (uint32_t)p[1] << 16 | (uint32_t)p[2] << 8 | p[3]; }
static void wbe32(uint8_t *p, uint32_t v) { p[0] = (uint8_t)(v >> 24); p[1] = (uint8_t)(v >> 16); p[2] = (uint8_t)(v >> 8); p[3] = (uint8_t)v; }

static inline bool test86(uint8_t b) { return b == 0x00 || b == 0xFF; }

static void x86(std::vector<uint8_t> &buf, uint32_t now_pos, bool enc)
{
	static const bool allowed[8] = { true, true, true, false, true, false, false, false };
	static const uint32_t bitno[8] = { 0, 1, 2, 2, 3, 3, 3, 3 };
	size_t size = buf.size();
	if (size < 5) return;
	uint32_t prev_mask = 0;
	uint32_t prev_pos = (uint32_t)(-5);
	if (now_pos - prev_pos > 5) prev_pos = now_pos - 5;
	size_t limit = size - 5, i = 0;
	while (i <= limit) {
		uint8_t b = buf[i];
		if (b != 0xE8 && b != 0xE9) { ++i; continue; }
		uint32_t off = now_pos + (uint32_t)i - prev_pos;
		prev_pos = now_pos + (uint32_t)i;
		if (off > 5) prev_mask = 0;
		else for (uint32_t k = 0; k < off; ++k) { prev_mask &= 0x77; prev_mask <<= 1; }
		b = buf[i + 4];
		if (test86(b) && allowed[(prev_mask >> 1) & 7] && (prev_mask >> 1) < 0x10) {
			uint32_t src = le32(&buf[i + 1]);
			uint32_t dest;
			for (;;) {
				if (enc) dest = src + (now_pos + (uint32_t)i + 5);
				else dest = src - (now_pos + (uint32_t)i + 5);
				if (prev_mask == 0) break;
				uint32_t k = bitno[prev_mask >> 1];
				b = (uint8_t)(dest >> (24 - k * 8));
				if (!test86(b)) break;
				src = dest ^ ((1u << (32 - k * 8)) - 1);
			}
			buf[i + 4] = (uint8_t)(~(((dest >> 24) & 1) - 1));
			buf[i + 3] = (uint8_t)(dest >> 16);
			buf[i + 2] = (uint8_t)(dest >> 8);
			buf[i + 1] = (uint8_t)dest;
			i += 5;
			prev_mask = 0;
		} else {
			++i;
			prev_mask |= 1;
			if (test86(b)) prev_mask |= 0x10;
		}
	}
}

static void powerpc(std::vector<uint8_t> &b, uint32_t now, bool enc)
{
	for (size_t i = 0; i + 4 <= b.size(); i += 4) {
		if ((b[i] >> 2) == 0x12 && (b[i + 3] & 3) == 1) {
			uint32_t src = ((uint32_t)(b[i] & 3) << 24) | ((uint32_t)b[i + 1] << 16) | ((uint32_t)b[i + 2] << 8) | (uint32_t)(b[i + 3] & ~3u);
			uint32_t dest = enc ? now + (uint32_t)i + src : src - (now + (uint32_t)i);
			b[i] = (uint8_t)(0x48 | ((dest >> 24) & 3));
			b[i + 1] = (uint8_t)(dest >> 16);
			b[i + 2] = (uint8_t)(dest >> 8);
			b[i + 3] = (uint8_t)((b[i + 3] & 3) | (dest & ~3u));
		}
	}
}

static void ia64(std::vector<uint8_t> &b, uint32_t now, bool enc)
{
	static const uint32_t table[32] = { 0, 0, 0, 0, 0, 0, 0, 0, 0, 0, 0, 0, 0, 0, 0, 0, 4, 4, 6, 6, 0, 0, 7, 7, 4, 4, 0, 0, 4, 4, 0, 0 };
	for (size_t i = 0; i + 16 <= b.size(); i += 16) {
		uint32_t mask = table[b[i] & 0x1F];
		uint32_t bit_pos = 5;
		for (int slot = 0; slot < 3; ++slot, bit_pos += 41) {
			if (((mask >> slot) & 1) == 0) continue;
			size_t byte_pos = bit_pos >> 3;
			uint32_t bit_res = bit_pos & 7;
			uint64_t ins = 0;
			for (int j = 0; j < 6; ++j) ins += (uint64_t)b[i + (size_t)j + byte_pos] << (8 * j);
			uint64_t norm = ins >> bit_res;
			if (((norm >> 37) & 0xF) == 0x5 && ((norm >> 9) & 0x7) == 0) {
				uint32_t src = (uint32_t)((norm >> 13) & 0xFFFFF);
				src |= (uint32_t)((norm >> 36) & 1) << 20;
				src <<= 4;
				uint32_t dest = enc ? now + (uint32_t)i + src : src - (now + (uint32_t)i);
				dest >>= 4;
				norm &= ~((uint64_t)0x8FFFFF << 13);
				norm |= (uint64_t)(dest & 0xFFFFF) << 13;
				norm |= (uint64_t)(dest & 0x100000) << (36 - 20);
				ins &= ((uint64_t)1 << bit_res) - 1;
				ins |= norm << bit_res;
				for (int j = 0; j < 6; ++j) b[i + (size_t)j + byte_pos] = (uint8_t)(ins >> (8 * j));
			}
		}
	}
}

static void arm(std::vector<uint8_t> &b, uint32_t now, bool enc)
{
	for (size_t i = 0; i + 4 <= b.size(); i += 4) {
		if (b[i + 3] == 0xEB) {
			uint32_t src = ((uint32_t)b[i + 2] << 16) | ((uint32_t)b[i + 1] << 8) | b[i];
			src <<= 2;
			uint32_t dest = enc ? now + (uint32_t)i + 8 + src : src - (now + (uint32_t)i + 8);
			dest >>= 2;
			b[i + 2] = (uint8_t)(dest >> 16); b[i + 1] = (uint8_t)(dest >> 8); b[i] = (uint8_t)dest;
		}
	}
}

static void armthumb(std::vector<uint8_t> &b, uint32_t now, bool enc)
{
	for (size_t i = 0; i + 4 <= b.size(); i += 2) {
		if ((b[i + 1] & 0xF8) == 0xF0 && (b[i + 3] & 0xF8) == 0xF8) {
			uint32_t src = (((uint32_t)b[i + 1] & 7) << 19) | ((uint32_t)b[i] << 11) | (((uint32_t)b[i + 3] & 7) << 8) | b[i + 2];
			src <<= 1;
			uint32_t dest = enc ? now + (uint32_t)i + 4 + src : src - (now + (uint32_t)i + 4);
			dest >>= 1;
			b[i + 1] = (uint8_t)(0xF0 | ((dest >> 19) & 7));
			b[i] = (uint8_t)(dest >> 11);
			b[i + 3] = (uint8_t)(0xF8 | ((dest >> 8) & 7));
			b[i + 2] = (uint8_t)dest;
			i += 2;
		}
	}
}

static void sparc(std::vector<uint8_t> &b, uint32_t now, bool enc)
{
	for (size_t i = 0; i + 4 <= b.size(); i += 4) {
		if ((b[i] == 0x40 && (b[i + 1] & 0xC0) == 0x00) || (b[i] == 0x7F && (b[i + 1] & 0xC0) == 0xC0)) {
			uint32_t src = be32(&b[i]);
			src <<= 2;
			uint32_t dest = enc ? now + (uint32_t)i + src : src - (now + (uint32_t)i);
			dest >>= 2;
			dest = (((0 - ((dest >> 22) & 1)) << 22) & 0x3FFFFFFF) | (dest & 0x3FFFFF) | 0x40000000;
			wbe32(&b[i], dest);
		}
	}
}

static void arm64(std::vector<uint8_t> &b, uint32_t now, bool enc)
{
	for (size_t i = 0; i + 4 <= b.size(); i += 4) {
		uint32_t pc = now + (uint32_t)i;
		uint32_t ins = le32(&b[i]);
		if ((ins >> 26) == 0x25) {
			uint32_t src = ins;
			ins = 0x94000000;
			pc >>= 2;
			if (!enc) pc = 0u - pc;
			ins |= (src + pc) & 0x03FFFFFF;
			wle32(&b[i], ins);
		} else if ((ins & 0x9F000000) == 0x90000000) {
			uint32_t src = ((ins >> 29) & 3) | ((ins >> 3) & 0x001FFFFC);
			if ((src + 0x00020000) & 0x001C0000) continue;
			ins &= 0x9000001F;
			pc >>= 12;
			if (!enc) pc = 0u - pc;
			uint32_t dest = src + pc;
			ins |= (dest & 3) << 29;
			ins |= (dest & 0x0003FFFC) << 3;
			ins |= (0u - (dest & 0x00020000)) & 0x00E00000;
			wle32(&b[i], ins);
		}
	}
}

void bcj_apply(uint64_t id, std::vector<uint8_t> &buf, uint32_t start, bool enc)
{
	switch (id) {
	case F_X86: x86(buf, start, enc); break;
	case F_POWERPC: powerpc(buf, start, enc); break;
	case F_IA64: ia64(buf, start, enc); break;
	case F_ARM: arm(buf, start, enc); break;
	case F_ARMTHUMB: armthumb(buf, start, enc); break;
	case F_SPARC: sparc(buf, start, enc); break;
	case F_ARM64: arm64(buf, start, enc); break;
	default: break;
	}
}

void delta_apply(std::vector<uint8_t> &buf, unsigned dist, bool enc)
{
	if (enc) { for (size_t i = buf.size(); i-- > dist;) buf[i] = (uint8_t)(buf[i] - buf[i - dist]); }
	else { for (size_t i = dist; i < buf.size(); ++i) buf[i] = (uint8_t)(buf[i] + buf[i - dist]); }
}

}
