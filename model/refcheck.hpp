// refcheck: bit-at-a-time CRC32 / CRC64 and a textbook SHA-256, written from
// the standard definitions (IEEE 802.3, ECMA-182, FIPS 180-4). No liblzma code.
#pragma once
#include <cstddef>
#include <cstdint>
#include <vector>

namespace ref {
uint32_t crc32(const uint8_t *p, size_t n, uint32_t crc = 0);
uint64_t crc64(const uint8_t *p, size_t n, uint64_t crc = 0);
void sha256(const uint8_t *p, size_t n, uint8_t out[32]);
// size of the Check field for a Check ID (xz-file-format 2.1.1.2), -1 if reserved id
int check_size(int id);
// computes the check of id over data into out (size check_size(id)); false if
// the id is not one of None/CRC32/CRC64/SHA-256
bool compute_check(int id, const uint8_t *p, size_t n, std::vector<uint8_t> &out);
}
