#include "reflzma.hpp"
#include <cstring>

namespace ref {

static const uint16_t PROB_INIT = 1024;
static const unsigned LEN_MIN = 2;

// ------------------------------------------------------------ range coder
void RangeDec::init(const uint8_t *data, size_t start, size_t limit)
{
	p = data; pos = start; end = limit; overrun = false;
	range = 0xFFFFFFFFu; code = 0;
	uint8_t first = next();
	for (int i = 0; i < 4; ++i) code = (code << 8) | next();
	init_ok = first == 0 && !overrun;
}

int RangeDec::bit(uint16_t &prob)
{
	uint32_t bound = (range >> 11) * prob;
	int b;
	if (code < bound) { range = bound; prob = (uint16_t)(prob + ((2048 - prob) >> 5)); b = 0; }
	else { range -= bound; code -= bound; prob = (uint16_t)(prob - (prob >> 5)); b = 1; }
	normalize();
	return b;
}

uint32_t RangeDec::direct(int nbits)
{
	uint32_t res = 0;
	for (; nbits > 0; --nbits) {
		range >>= 1;
		uint32_t b = code >= range ? 1 : 0;
		if (b) code -= range;
		res = (res << 1) | b;
		normalize();
	}
	return res;
}

void RangeEnc::shift_low()
{
	if ((uint32_t)low < 0xFF000000u || (low >> 32) != 0) {
		uint8_t temp = cache;
		do { out.push_back((uint8_t)(temp + (uint8_t)(low >> 32))); temp = 0xFF; } while (--cache_size != 0);
		cache = (uint8_t)(low >> 24);
	}
	++cache_size;
	low = (low & 0x00FFFFFFull) << 8;
}

void RangeEnc::bit(uint16_t &prob, int b)
{
	uint32_t bound = (range >> 11) * prob;
	if (!b) { range = bound; prob = (uint16_t)(prob + ((2048 - prob) >> 5)); }
	else { low += bound; range -= bound; prob = (uint16_t)(prob - (prob >> 5)); }
	while (range < (1u << 24)) { range <<= 8; shift_low(); }
}

void RangeEnc::direct(uint32_t v, int nbits)
{
	for (int i = nbits - 1; i >= 0; --i) {
		range >>= 1;
		if ((v >> i) & 1) low += range;
		while (range < (1u << 24)) { range <<= 8; shift_low(); }
	}
}

// ------------------------------------------------------------------ model
template <class T, size_t N> static void fill(T (&a)[N]) { for (size_t i = 0; i < N; ++i) a[i] = PROB_INIT; }
template <class T, size_t N, size_t M> static void fill2(T (&a)[N][M]) { for (size_t i = 0; i < N; ++i) for (size_t j = 0; j < M; ++j) a[i][j] = PROB_INIT; }

void LenModel::reset() { choice = choice2 = PROB_INIT; fill2(low); fill2(mid); fill(high); }

void LzmaModel::set_props(int lc_, int lp_, int pb_) { lc = lc_; lp = lp_; pb = pb_; }

void LzmaModel::reset_state()
{
	fill2(is_match); fill(is_rep); fill(is_rep0); fill(is_rep1); fill(is_rep2); fill2(is_rep0_long);
	fill2(dist_slot); fill(dist_special); fill(dist_align);
	len.reset(); rep_len.reset();
	literal.assign((size_t)0x300 << (lc + lp), PROB_INIT);
	state = 0;
	rep[0] = rep[1] = rep[2] = rep[3] = 0;
}

static unsigned state_after_literal(unsigned s) { return s < 4 ? 0 : s < 10 ? s - 3 : s - 6; }
static unsigned state_after_match(unsigned s) { return s < 7 ? 7 : 10; }
static unsigned state_after_rep(unsigned s) { return s < 7 ? 8 : 11; }
static unsigned state_after_shortrep(unsigned s) { return s < 7 ? 9 : 11; }

// bit trees
static unsigned tree_dec(RangeDec &rc, uint16_t *probs, int nbits)
{
	unsigned m = 1;
	for (int i = 0; i < nbits; ++i) m = (m << 1) | (unsigned)rc.bit(probs[m]);
	return m - (1u << nbits);
}
static void tree_enc(RangeEnc &rc, uint16_t *probs, int nbits, unsigned sym)
{
	unsigned m = 1;
	for (int i = nbits - 1; i >= 0; --i) { int b = (sym >> i) & 1; rc.bit(probs[m], b); m = (m << 1) | (unsigned)b; }
}
static unsigned rtree_dec(RangeDec &rc, uint16_t *probs, int nbits)
{
	unsigned m = 1, sym = 0;
	for (int i = 0; i < nbits; ++i) { unsigned b = (unsigned)rc.bit(probs[m]); m = (m << 1) | b; sym |= b << i; }
	return sym;
}
static void rtree_enc(RangeEnc &rc, uint16_t *probs, int nbits, unsigned sym)
{
	unsigned m = 1;
	for (int i = 0; i < nbits; ++i) { int b = (sym >> i) & 1; rc.bit(probs[m], b); m = (m << 1) | (unsigned)b; }
}

static unsigned len_dec(RangeDec &rc, LenModel &l, unsigned pos_state)
{
	if (!rc.bit(l.choice)) return tree_dec(rc, l.low[pos_state], 3);
	if (!rc.bit(l.choice2)) return 8 + tree_dec(rc, l.mid[pos_state], 3);
	return 16 + tree_dec(rc, l.high, 8);
}
static void len_enc(RangeEnc &rc, LenModel &l, unsigned pos_state, unsigned v)
{
	if (v < 8) { rc.bit(l.choice, 0); tree_enc(rc, l.low[pos_state], 3, v); }
	else if (v < 16) { rc.bit(l.choice, 1); rc.bit(l.choice2, 0); tree_enc(rc, l.mid[pos_state], 3, v - 8); }
	else { rc.bit(l.choice, 1); rc.bit(l.choice2, 1); tree_enc(rc, l.high, 8, v - 16); }
}

static uint32_t dist_dec(RangeDec &rc, LzmaModel &m, unsigned len_minus2)
{
	unsigned ls = len_minus2 < 3 ? len_minus2 : 3;
	unsigned slot = tree_dec(rc, m.dist_slot[ls], 6);
	if (slot < 4) return slot;
	int nd = (int)(slot >> 1) - 1;
	uint32_t dist = (2 | (slot & 1)) << nd;
	if (slot < 14) dist += rtree_dec(rc, m.dist_special + dist - slot, nd);
	else { dist += rc.direct(nd - 4) << 4; dist += rtree_dec(rc, m.dist_align, 4); }
	return dist;
}

static unsigned dist_slot_of(uint32_t dist)
{
	if (dist < 4) return dist;
	unsigned n = 31;
	while (!((dist >> n) & 1)) --n;
	return (n << 1) | ((dist >> (n - 1)) & 1);
}

static void dist_enc(RangeEnc &rc, LzmaModel &m, unsigned len_minus2, uint32_t dist)
{
	unsigned ls = len_minus2 < 3 ? len_minus2 : 3;
	unsigned slot = dist_slot_of(dist);
	tree_enc(rc, m.dist_slot[ls], 6, slot);
	if (slot < 4) return;
	int nd = (int)(slot >> 1) - 1;
	uint32_t base = (2 | (slot & 1)) << nd;
	uint32_t rest = dist - base;
	if (slot < 14) rtree_enc(rc, m.dist_special + base - slot, nd, rest);
	else { rc.direct(rest >> 4, nd - 4); rtree_enc(rc, m.dist_align, 4, rest & 15); }
}

// ---------------------------------------------------------------- decoder
LzmaStatus LzmaDecoder::decode(RangeDec &rc, uint64_t want, bool allow_marker, std::string &why)
{
	Bytes &o = *out;
	uint64_t produced = 0;
	bool known = want != UINT64_MAX;
	if (!rc.init_ok) { why = "range coder: first byte not zero or input too short"; return LZ_ERROR; }
	for (;;) {
		if (rc.overrun) { why = "input ends inside the LZMA data"; return LZ_ERROR; }
		if (known && produced == want) {
			if (!allow_marker) return LZ_OK;
			if (rc.finished_ok()) return LZ_OK;   // finished without end marker
		}
		uint64_t in_dict = o.size() - dict_start;
		uint64_t avail = in_dict < dict_size ? in_dict : dict_size;
		// positions are counted from the last dictionary reset
		size_t pos = o.size() - dict_start;
		unsigned ps = (unsigned)pos & ((1u << m.pb) - 1);
		if (!rc.bit(m.is_match[m.state][ps])) {
			if (known && produced == want) { why = "literal after the declared size"; return LZ_ERROR; }
			uint8_t prev = in_dict ? o.back() : 0;
			unsigned lit_state = (((unsigned)pos & ((1u << m.lp) - 1)) << m.lc) + (prev >> (8 - m.lc));
			uint16_t *probs = &m.literal[(size_t)0x300 * lit_state];
			unsigned sym = 1;
			if (m.state >= 7) {
				unsigned mb = o[o.size() - m.rep[0] - 1];
				do {
					unsigned mbit = (mb >> 7) & 1; mb <<= 1;
					unsigned b = (unsigned)rc.bit(probs[((1 + mbit) << 8) + sym]);
					sym = (sym << 1) | b;
					if (mbit != b) break;
				} while (sym < 0x100);
			}
			while (sym < 0x100) sym = (sym << 1) | (unsigned)rc.bit(probs[sym]);
			o.push_back((uint8_t)sym);
			++produced;
			m.state = state_after_literal(m.state);
			continue;
		}
		unsigned len;
		if (!rc.bit(m.is_rep[m.state])) {
			// simple match
			m.rep[3] = m.rep[2]; m.rep[2] = m.rep[1]; m.rep[1] = m.rep[0];
			len = len_dec(rc, m.len, ps);
			m.state = state_after_match(m.state);
			m.rep[0] = dist_dec(rc, m, len);
			if (m.rep[0] == 0xFFFFFFFFu) {
				if (!allow_marker) { why = "end marker where none is allowed"; return LZ_ERROR; }
				if (rc.overrun) { why = "input ends inside the end marker"; return LZ_ERROR; }
				if (!rc.finished_ok()) { why = "range coder not finished after the end marker"; return LZ_ERROR; }
				return LZ_END_MARKER;
			}
			if (known && produced == want) { why = "match after the declared size"; return LZ_ERROR; }
			if ((uint64_t)m.rep[0] >= avail) { why = "match distance beyond the dictionary"; return LZ_ERROR; }
			if (m.rep[0] + 1 > max_dist_seen) max_dist_seen = m.rep[0] + 1;
		} else {
			if (known && produced == want) { why = "repeated match after the declared size"; return LZ_ERROR; }
			if (in_dict == 0) { why = "repeated match with an empty dictionary"; return LZ_ERROR; }
			if (!rc.bit(m.is_rep0[m.state])) {
				if (!rc.bit(m.is_rep0_long[m.state][ps])) {
					if ((uint64_t)m.rep[0] >= avail) { why = "short rep distance beyond the dictionary"; return LZ_ERROR; }
					m.state = state_after_shortrep(m.state);
					o.push_back(o[o.size() - m.rep[0] - 1]);
					++produced;
					continue;
				}
			} else {
				uint32_t d;
				if (!rc.bit(m.is_rep1[m.state])) d = m.rep[1];
				else {
					if (!rc.bit(m.is_rep2[m.state])) d = m.rep[2];
					else { d = m.rep[3]; m.rep[3] = m.rep[2]; }
					m.rep[2] = m.rep[1];
				}
				m.rep[1] = m.rep[0];
				m.rep[0] = d;
			}
			len = len_dec(rc, m.rep_len, ps);
			m.state = state_after_rep(m.state);
			if ((uint64_t)m.rep[0] >= avail) { why = "rep distance beyond the dictionary"; return LZ_ERROR; }
		}
		len += LEN_MIN;
		if (rc.overrun) { why = "input ends inside a match"; return LZ_ERROR; }
		bool too_long = known && (uint64_t)len > want - produced;
		if (too_long) len = (unsigned)(want - produced);
		for (unsigned i = 0; i < len; ++i) o.push_back(o[o.size() - m.rep[0] - 1]);
		produced += len;
		if (too_long) { why = "match runs past the declared size"; return LZ_ERROR; }
	}
}

bool lzma2_dict_from_prop(uint8_t b, uint64_t &size)
{
	if (b > 40) return false;
	if (b == 40) { size = 0xFFFFFFFFull; return true; }
	size = (uint64_t)(2 | (b & 1)) << (b / 2 + 11);
	return true;
}

// the implementation documents that it raises tiny dictionaries to 4 KiB and
// rounds the size up to a multiple of 16 (lz_decoder.c); a too small declared
// dictionary is therefore tolerated to that extent
static uint64_t effective_dict(uint64_t declared)
{
	if (declared < 4096) declared = 4096;
	return (declared + 15) & ~(uint64_t)15;
}

static bool props_decode(uint8_t b, int &lc, int &lp, int &pb)
{
	if (b > (4 * 5 + 4) * 9 + 8) return false;
	pb = b / (9 * 5); b = (uint8_t)(b - pb * 9 * 5);
	lp = b / 9; lc = b - lp * 9;
	return true;
}

AloneResult decode_alone(const uint8_t *p, size_t n)
{
	AloneResult r;
	if (n < 13) { r.why = "shorter than the 13-byte header"; return r; }
	int lc, lp, pb;
	if (!props_decode(p[0], lc, lp, pb)) { r.why = "invalid properties byte"; return r; }
	if (lc + lp > 4) { r.why = "lc + lp > 4 (not supported by the implementation, documented)"; return r; }
	uint32_t dict = (uint32_t)p[1] | (uint32_t)p[2] << 8 | (uint32_t)p[3] << 16 | (uint32_t)p[4] << 24;
	uint64_t size = 0;
	for (int i = 0; i < 8; ++i) size |= (uint64_t)p[5 + i] << (8 * i);
	r.dict = dict; r.header_size = size;
	LzmaDecoder d;
	d.m.set_props(lc, lp, pb);
	d.m.reset_state();
	d.out = &r.out;
	d.dict_start = 0;
	d.dict_size = effective_dict(dict);
	RangeDec rc;
	rc.init(p, 13, n);
	bool known = size != UINT64_MAX;
	LzmaStatus st = d.decode(rc, known ? size : UINT64_MAX, true, r.why);
	if (st == LZ_ERROR) return r;
	if (known && r.out.size() != size) { r.why = "end marker before the declared uncompressed size was reached"; return r; }
	r.eopm_seen = st == LZ_END_MARKER;
	r.valid = true;
	r.consumed = rc.pos;
	return r;
}

bool alone_header_is_picky_plausible(const uint8_t *p, size_t n)
{
	// lzma-file-format.txt / alone_decoder.c "picky": dictionary size is
	// 2^n or 2^n + 2^(n-1), and a known uncompressed size is below 256 GiB
	if (n < 13) return false;
	int lc, lp, pb;
	if (!props_decode(p[0], lc, lp, pb)) return false;
	uint32_t dict = (uint32_t)p[1] | (uint32_t)p[2] << 8 | (uint32_t)p[3] << 16 | (uint32_t)p[4] << 24;
	if (dict != 0xFFFFFFFFu) {
		uint32_t d = dict - 1;
		d |= d >> 2; d |= d >> 3; d |= d >> 4; d |= d >> 8; d |= d >> 16;
		++d;
		if (d != dict) return false;
	}
	uint64_t size = 0;
	for (int i = 0; i < 8; ++i) size |= (uint64_t)p[5 + i] << (8 * i);
	if (size != UINT64_MAX && size >= ((uint64_t)1 << 38)) return false;
	return true;
}

Lzma2Result decode_lzma2(const uint8_t *p, size_t n, uint64_t dict_declared)
{
	Lzma2Result r;
	LzmaDecoder d;
	d.out = &r.out;
	d.dict_size = effective_dict(dict_declared);
	bool need_dict_reset = true, need_props = true;
	size_t pos = 0;
	for (;;) {
		if (pos >= n) { r.why = "input ends where a control byte is expected"; return r; }
		uint8_t c = p[pos++];
		if (c == 0x00) { r.valid = true; r.consumed = pos; r.max_dist = d.max_dist_seen; return r; }
		if (c >= 0xE0 || c == 0x01) { need_props = true; need_dict_reset = false; d.dict_start = r.out.size(); }
		else if (need_dict_reset) { r.why = "first chunk does not reset the dictionary"; return r; }
		if (c >= 0x80) {
			if (pos + 4 > n) { r.why = "input ends inside a chunk header"; return r; }
			uint64_t usize = ((uint64_t)(c & 0x1F) << 16) + ((uint64_t)p[pos] << 8) + p[pos + 1] + 1;
			uint64_t csize = ((uint64_t)p[pos + 2] << 8) + p[pos + 3] + 1;
			pos += 4;
			r.chunk_classes.push_back(c >> 5);
			if (c >= 0xC0) {
				if (pos >= n) { r.why = "input ends before the properties byte"; return r; }
				int lc, lp, pb;
				if (!props_decode(p[pos++], lc, lp, pb) || lc + lp > 4) { r.why = "invalid LZMA2 properties (lc + lp must be <= 4)"; return r; }
				d.m.set_props(lc, lp, pb);
				d.m.reset_state();
				need_props = false;
			} else if (need_props) { r.why = "LZMA chunk without properties where new properties are required"; return r; }
			else if (c >= 0xA0) d.m.reset_state();
			if (pos + csize > n) { r.why = "input ends inside an LZMA chunk"; return r; }
			RangeDec rc;
			rc.init(p, pos, pos + (size_t)csize);
			std::string why;
			LzmaStatus st = d.decode(rc, usize, false, why);
			if (st != LZ_OK) { r.why = "LZMA chunk: " + why; return r; }
			if (rc.overrun) { r.why = "LZMA chunk needs more input than its compressed size"; return r; }
			if (!rc.finished_ok()) { r.why = "range coder not finished at the end of the chunk"; return r; }
			if (rc.pos != pos + csize) { r.why = "LZMA chunk does not use its whole compressed size"; return r; }
			pos += (size_t)csize;
		} else {
			if (c > 2) { r.why = "invalid control byte"; return r; }
			if (pos + 2 > n) { r.why = "input ends inside a chunk header"; return r; }
			uint64_t size = ((uint64_t)p[pos] << 8) + p[pos + 1] + 1;
			pos += 2;
			r.chunk_classes.push_back(c == 1 ? 8 : 9);
			if (pos + size > n) { r.why = "input ends inside an uncompressed chunk"; return r; }
			r.out.insert(r.out.end(), p + pos, p + pos + size);
			pos += (size_t)size;
		}
	}
}

// ------------------------------------------------------ generative encoder
size_t LzmaSynth::emit(RangeEnc &rc, SynthRng &rng, size_t nsym, size_t max_out, unsigned *features)
{
	Bytes &o = *plain;
	size_t start = o.size();
	unsigned feat = 0;
	size_t illegal_k = (size_t)-1;
	if (rng.site(0)) illegal_k = rng.chance(400) ? 0 : (size_t)rng.below(nsym < 40 ? nsym : 40);
	for (size_t k = 0; k < nsym && o.size() - start < max_out; ++k) {
		size_t left = max_out - (o.size() - start);
		if (k == illegal_k && left >= 2) {
			uint64_t in_dict0 = o.size() - dict_start;
			uint64_t avail0 = in_dict0 < dict_size ? in_dict0 : dict_size;
			unsigned ps0 = (unsigned)in_dict0 & ((1u << m.pb) - 1);
			if (rng.chance(200) && k > 0) {
				// an end-of-payload marker before the declared size is reached; the data ends here
				emit_end_marker(rc);
				rng.eopm_extra = 1 + (unsigned)rng.below(30);
				++rng.illegal_emitted;
				break;
			}
			unsigned how = (unsigned)rng.below(3);   // 0 match, 1 short rep, 2 long rep0
			if (how != 0 && m.rep[0] < avail0) how = 0;   // the rep would be legal here
			uint32_t dist;
			unsigned len = 1;
			rc.bit(m.is_match[m.state][ps0], 1);
			if (how == 0) {
				dist = (uint32_t)(avail0 + (rng.chance(600) ? 0 : rng.chance(500) ? rng.below(3) : rng.below(300)));
				len = 2 + (unsigned)rng.below(6);
				if (len > left) len = (unsigned)left;
				rc.bit(m.is_rep[m.state], 0);
				m.rep[3] = m.rep[2]; m.rep[2] = m.rep[1]; m.rep[1] = m.rep[0]; m.rep[0] = dist;
				len_enc(rc, m.len, ps0, len - LEN_MIN);
				m.state = state_after_match(m.state);
				dist_enc(rc, m, len - LEN_MIN, dist);
			} else if (how == 1) {
				dist = m.rep[0];
				rc.bit(m.is_rep[m.state], 1); rc.bit(m.is_rep0[m.state], 0); rc.bit(m.is_rep0_long[m.state][ps0], 0);
				m.state = state_after_shortrep(m.state);
			} else {
				dist = m.rep[0];
				len = 2 + (unsigned)rng.below(6);
				if (len > left) len = (unsigned)left;
				rc.bit(m.is_rep[m.state], 1); rc.bit(m.is_rep0[m.state], 0); rc.bit(m.is_rep0_long[m.state][ps0], 1);
				len_enc(rc, m.rep_len, ps0, len - LEN_MIN);
				m.state = state_after_rep(m.state);
			}
			for (unsigned i = 0; i < len; ++i) {
				size_t at = o.size();
				o.push_back(at >= (size_t)dist + 1 && at - dist - 1 >= dict_start ? o[at - dist - 1] : 0);
			}
			++rng.illegal_emitted;
			continue;
		}
		uint64_t in_dict = o.size() - dict_start;
		uint64_t avail = in_dict < dict_size ? in_dict : dict_size;
		size_t pos = o.size() - dict_start;
		unsigned ps = (unsigned)pos & ((1u << m.pb) - 1);
		// choose the symbol kind among the legal ones
		int kind = 0;   // 0 literal, 1 match, 2 shortrep, 3..6 rep0..3
		unsigned r = (unsigned)rng.below(100);
		if (avail > 0 && left >= 2 && r >= 45) {
			if (r < 70) kind = 1;
			else if (r < 78 && m.rep[0] < avail) kind = 2;
			else {
				int i = (int)rng.below(4);
				if (m.rep[i] < avail) kind = 3 + i;
				else kind = 1;
			}
		} else if (avail > 0 && r >= 40 && m.rep[0] < avail) kind = 2;
		if (kind == 0) {
			rc.bit(m.is_match[m.state][ps], 0);
			uint8_t prev = in_dict ? o.back() : 0;
			unsigned lit_state = (((unsigned)pos & ((1u << m.lp) - 1)) << m.lc) + (prev >> (8 - m.lc));
			uint16_t *probs = &m.literal[(size_t)0x300 * lit_state];
			uint8_t byte = (uint8_t)rng.next();
			if (rng.chance(300)) byte = (uint8_t)rng.below(4);
			unsigned sym = 1;
			int i = 7;
			if (m.state >= 7) {
				// after a match the literal is coded against the byte at rep0; make
				// the two agree on a few leading bits now and then
				unsigned mb = o.size() >= (size_t)m.rep[0] + 1 ? o[o.size() - m.rep[0] - 1] : 0;   // (out of range only after a deliberately illegal symbol)
				if (rng.chance(400)) byte = (uint8_t)((mb & (0xFFu << rng.below(9))) | (byte & ~(0xFFu << rng.below(9))));
				feat |= SF_MATCHED_LITERAL;
				for (; i >= 0; --i) {
					unsigned mbit = (mb >> 7) & 1; mb <<= 1;
					unsigned b = (byte >> i) & 1;
					rc.bit(probs[((1 + mbit) << 8) + sym], (int)b);
					sym = (sym << 1) | b;
					if (mbit != b) { --i; break; }
				}
			}
			for (; i >= 0; --i) { unsigned b = (byte >> i) & 1; rc.bit(probs[sym], (int)b); sym = (sym << 1) | b; }
			o.push_back(byte);
			m.state = state_after_literal(m.state);
			feat |= SF_LITERAL;
			continue;
		}
		rc.bit(m.is_match[m.state][ps], 1);
		if (kind == 2) {
			rc.bit(m.is_rep[m.state], 1);
			rc.bit(m.is_rep0[m.state], 0);
			rc.bit(m.is_rep0_long[m.state][ps], 0);
			m.state = state_after_shortrep(m.state);
			o.push_back(o[o.size() - m.rep[0] - 1]);
			feat |= SF_SHORTREP;
			continue;
		}
		unsigned len = 2;
		switch (rng.below(6)) {
		case 0: len = 2; break;
		case 1: len = 2 + (unsigned)rng.below(8); break;
		case 2: len = 10 + (unsigned)rng.below(8); break;
		case 3: len = 18 + (unsigned)rng.below(256); break;
		case 4: len = 273; break;
		default: len = 2 + (unsigned)rng.below(40); break;
		}
		if (len > 273) len = 273;
		if (len > left) len = (unsigned)left;
		if (len >= 18) feat |= SF_LONG_LEN;
		if (kind == 1) {
			rc.bit(m.is_rep[m.state], 0);
			uint32_t dist;
			switch (rng.below(5)) {
			case 0: dist = (uint32_t)rng.below(avail < 4 ? avail : 4); break;
			case 1: dist = (uint32_t)rng.below(avail < 128 ? avail : 128); break;
			case 2: dist = (uint32_t)(avail - 1 - rng.below(avail < 4 ? avail : 4)); break;   // near the far end
			default: dist = (uint32_t)rng.below(avail); break;
			}
			if (dist >= 128) feat |= SF_FAR_DIST;
			if (dist_slot_of(dist) >= 14) feat |= SF_ALIGN_DIST;
			m.rep[3] = m.rep[2]; m.rep[2] = m.rep[1]; m.rep[1] = m.rep[0]; m.rep[0] = dist;
			len_enc(rc, m.len, ps, len - LEN_MIN);
			m.state = state_after_match(m.state);
			dist_enc(rc, m, len - LEN_MIN, dist);
			feat |= SF_MATCH;
		} else {
			rc.bit(m.is_rep[m.state], 1);
			int i = kind - 3;
			if (i == 0) { rc.bit(m.is_rep0[m.state], 0); rc.bit(m.is_rep0_long[m.state][ps], 1); feat |= SF_REP0; }
			else {
				rc.bit(m.is_rep0[m.state], 1);
				uint32_t d;
				if (i == 1) { rc.bit(m.is_rep1[m.state], 0); d = m.rep[1]; feat |= SF_REP1; }
				else {
					rc.bit(m.is_rep1[m.state], 1);
					if (i == 2) { rc.bit(m.is_rep2[m.state], 0); d = m.rep[2]; feat |= SF_REP2; }
					else { rc.bit(m.is_rep2[m.state], 1); d = m.rep[3]; m.rep[3] = m.rep[2]; feat |= SF_REP3; }
					m.rep[2] = m.rep[1];
				}
				m.rep[1] = m.rep[0];
				m.rep[0] = d;
			}
			len_enc(rc, m.rep_len, ps, len - LEN_MIN);
			m.state = state_after_rep(m.state);
		}
		for (unsigned j = 0; j < len; ++j) o.push_back(o[o.size() - m.rep[0] - 1]);
	}
	if (features) *features |= feat;
	return o.size() - start;
}

void LzmaSynth::emit_end_marker(RangeEnc &rc)
{
	size_t pos = plain->size() - dict_start;
	unsigned ps = (unsigned)pos & ((1u << m.pb) - 1);
	rc.bit(m.is_match[m.state][ps], 1);
	rc.bit(m.is_rep[m.state], 0);
	len_enc(rc, m.len, ps, 0);
	m.state = state_after_match(m.state);
	dist_enc(rc, m, 0, 0xFFFFFFFFu);
}

static uint8_t props_byte(int lc, int lp, int pb) { return (uint8_t)((pb * 5 + lp) * 9 + lc); }

Bytes synth_alone(SynthRng &rng, int lc, int lp, int pb, uint32_t dict, bool known_size, bool eopm, size_t nsym, Bytes &plain, unsigned *features)
{
	LzmaSynth s;
	s.m.set_props(lc, lp, pb);
	s.m.reset_state();
	plain.clear();
	s.plain = &plain;
	s.dict_size = dict ? dict : 1;   // the generator honours the declared size exactly
	RangeEnc rc;
	s.emit(rc, rng, nsym, (size_t)1 << 22, features);
	bool eopm_mid = rng.eopm_extra != 0;   // the data already ends with a (premature) marker
	if (!eopm_mid && (eopm || !known_size)) { s.emit_end_marker(rc); if (features) *features |= SF_EOPM; }
	rc.flush();
	Bytes out;
	out.push_back(props_byte(lc, lp, pb));
	for (int i = 0; i < 4; ++i) out.push_back((uint8_t)(dict >> (8 * i)));
	uint64_t size = known_size ? plain.size() + rng.eopm_extra : UINT64_MAX;
	rng.eopm_extra = 0;
	for (int i = 0; i < 8; ++i) out.push_back((uint8_t)(size >> (8 * i)));
	out.insert(out.end(), rc.out.begin(), rc.out.end());
	return out;
}

Bytes synth_lzma2(SynthRng &rng, uint32_t dict, size_t nchunks, Bytes &plain, unsigned *features, size_t preexisting)
{
	(void)preexisting;
	Bytes out;
	LzmaSynth s;
	s.plain = &plain;
	s.dict_start = plain.size();
	s.dict_size = dict ? dict : 1;
	bool need_dict_reset = true, need_props = true, have_props = false;
	unsigned feat = 0;
	// deliberately invalid chunk sequences (same switch as the illegal-distance
	// symbol): 1 = the first chunk does not reset the dictionary, 2 = an LZMA
	// chunk without properties where they are required, 3 = a reserved control byte
	int bad_grammar = 0;
	if (rng.site(1) && nchunks > 0) bad_grammar = 1 + (int)rng.below(3);
	size_t bad_chunk = bad_grammar == 1 ? 0 : (size_t)rng.below(nchunks ? nchunks : 1);
	for (size_t c = 0; c < nchunks; ++c) {
		bool uncompressed = rng.chance(200);
		int force_level = -1;
		if (bad_grammar == 3 && c == bad_chunk) {
			out.push_back((uint8_t)(3 + rng.below(0x7D)));
			for (int i = 0; i < 4; ++i) out.push_back((uint8_t)rng.next());
			++rng.illegal_emitted; bad_grammar = 0;
			continue;
		}
		if (bad_grammar == 1 && c == 0) {
			// pretend the dictionary had been reset already
			need_dict_reset = false;
			if (!uncompressed) { need_props = true; force_level = 2; }
			++rng.illegal_emitted; bad_grammar = 0;
		}
		if (bad_grammar == 2 && c == bad_chunk && need_props && !uncompressed) {
			// LZMA chunk with control 0x80/0xA0 although properties are due
			if (!have_props) { s.m.set_props(3, 0, 2); s.m.reset_state(); have_props = true; }
			need_props = false; force_level = (int)rng.below(2);
			++rng.illegal_emitted; bad_grammar = 0;
		}
		if (uncompressed) {
			bool reset = need_dict_reset || rng.chance(150);
			size_t n = 1 + (size_t)rng.below(rng.chance(100) ? 65536 : 300);
			out.push_back(reset ? 0x01 : 0x02);
			out.push_back((uint8_t)((n - 1) >> 8)); out.push_back((uint8_t)(n - 1));
			if (reset) { s.dict_start = plain.size(); need_props = true; if (!need_dict_reset) feat |= SF2_DICT_RESET_MID; need_dict_reset = false; }
			else feat |= SF2_UNCOMP_NO_DICT_RESET;
			for (size_t i = 0; i < n; ++i) { uint8_t b = (uint8_t)rng.next(); plain.push_back(b); out.push_back(b); }
			feat |= SF2_UNCOMPRESSED;
			continue;
		}
		// LZMA chunk: pick a legal reset level
		int level;   // 0 nothing, 1 state reset, 2 + new props, 3 + dict reset
		if (need_dict_reset) level = 3;
		else if (need_props) level = 2 + (int)rng.below(2);
		else level = (int)rng.below(4);
		if (force_level >= 0) level = force_level;
		if (level == 3) { s.dict_start = plain.size(); if (!need_dict_reset) feat |= SF2_DICT_RESET_MID; need_dict_reset = false; }
		if (level >= 2) {
			int lc = (int)rng.below(5), lp = (int)rng.below(5 - (unsigned)lc), pb = (int)rng.below(5);
			if (!have_props && rng.chance(300)) { lc = 3; lp = 0; pb = 2; }
			s.m.set_props(lc, lp, pb);
			s.m.reset_state();
			need_props = false; have_props = true;
			if (c > 0) feat |= SF2_NEW_PROPS;
		} else if (level == 1) { s.m.reset_state(); feat |= SF2_STATE_RESET; }
		else feat |= SF2_NO_RESET;
		RangeEnc rc;
		size_t before = plain.size();
		// keep the compressed size below 64 KiB: a symbol never costs more than ~6 bytes
		size_t nsym = 1 + (size_t)rng.below(rng.chance(100) ? 9000 : 400);
		size_t max_out = rng.chance(50) ? ((size_t)1 << 21) : 60000;
		s.emit(rc, rng, nsym, max_out, &feat);
		if (plain.size() == before) { // nothing could be emitted (cannot happen: a literal is always legal)
			continue;
		}
		rc.flush();
		size_t usize = plain.size() - before + rng.eopm_extra, csize = rc.out.size();
		rng.eopm_extra = 0;
		if (usize > (1u << 21)) usize = 1u << 21;
		out.push_back((uint8_t)(0x80 | (level << 5) | (((usize - 1) >> 16) & 0x1F)));
		out.push_back((uint8_t)((usize - 1) >> 8)); out.push_back((uint8_t)(usize - 1));
		out.push_back((uint8_t)((csize - 1) >> 8)); out.push_back((uint8_t)(csize - 1));
		if (level >= 2) out.push_back(props_byte(s.m.lc, s.m.lp, s.m.pb));
		out.insert(out.end(), rc.out.begin(), rc.out.end());
	}
	out.push_back(0x00);
	if (features) *features |= feat;
	return out;
}

}
