// refxz: .xz container parser/checker and writer, written from
// doc/xz-file-format.txt. It decodes Blocks with reflzma/refbcj, recomputes
// every stored field and produces a field map (byte range -> field name).
#pragma once
#include "reflzma.hpp"
#include <map>

namespace ref {

struct FilterSpec { uint64_t id = 0; Bytes props; };

struct XzBlock {
	size_t header_off = 0, header_size = 0;
	bool has_csize = false, has_usize = false;
	uint64_t csize_field = 0, usize_field = 0;
	std::vector<FilterSpec> filters;
	size_t header_padding = 0;
	size_t data_off = 0, data_len = 0, block_padding = 0, check_off = 0;
	uint64_t unpadded = 0, plain_size = 0;
	uint32_t max_dist = 0;
	uint64_t dict_declared = 0;
};

struct XzStream { int check = 0; std::vector<XzBlock> blocks; size_t start = 0, size = 0, padding_after = 0; };

enum XzVerdict { XZ_VALID = 0, XZ_INVALID = 1, XZ_UNSUPPORTED = 2, XZ_NOT_XZ = 3 };

struct XzField { size_t off, len; std::string name; };

struct XzResult {
	XzVerdict verdict = XZ_INVALID;
	Bytes out;                 // decoded data (complete when valid; the prefix decoded before the problem otherwise)
	std::string why;
	std::vector<XzStream> streams;
	std::vector<XzField> fields;
	size_t consumed = 0;       // bytes belonging to the accepted Streams (and padding)
	bool unsupported_check = false;
	unsigned features = 0;     // XF_* bits seen
};

enum { XF_MULTI_BLOCK = 1, XF_MULTI_STREAM = 2, XF_STREAM_PADDING = 4, XF_EMPTY_BLOCK = 8, XF_NO_SIZES = 16, XF_ONLY_CSIZE = 32, XF_ONLY_USIZE = 64,
	XF_BOTH_SIZES = 128, XF_HEADER_PADDING = 256, XF_FILTERS_2 = 512, XF_FILTERS_3 = 1024, XF_FILTERS_4 = 2048, XF_EMPTY_STREAM = 4096,
	XF_CHECK_NONE = 1 << 13, XF_CHECK_CRC32 = 1 << 14, XF_CHECK_CRC64 = 1 << 15, XF_CHECK_SHA256 = 1 << 16, XF_CHECK_OTHER = 1 << 17,
	XF_BCJ_START = 1 << 18 };

// concatenated: accept several Streams with Stream Padding (multiples of four).
// Without it, parsing stops after the first Stream (consumed tells where).
XzResult parse_xz(const uint8_t *p, size_t n, bool concatenated);

// ---- writer (used by the generative side) ------------------------------
unsigned vli_size(uint64_t v);
void put_vli(Bytes &b, uint64_t v);
struct BlockRecipe {
	std::vector<FilterSpec> filters;     // encoder order, last must be LZMA2
	Bytes payload;                        // the compressed data of the last filter (raw LZMA2 stream)
	uint64_t plain_size = 0;              // size of the data before the first filter
	bool write_csize = false, write_usize = false;
	unsigned extra_header_padding = 0;    // multiples of four extra zero bytes in the header
	uint8_t reserved_flag_bits = 0;       // OR-ed into the Block Flags (bits 2-5 are reserved)
	bool nonzero_header_padding = false;  // put a non-zero byte into the Header Padding (needs extra_header_padding)
};
void write_stream_header(Bytes &out, int check, uint8_t reserved_bits = 0);
// appends the Block; computes the Check over `plain`; returns the unpadded size
uint64_t write_block(Bytes &out, const BlockRecipe &r, int check, const Bytes &plain);
void write_index_and_footer(Bytes &out, const std::vector<std::pair<uint64_t, uint64_t>> &records, int check, uint8_t reserved_bits = 0,
		unsigned overlong = 0, unsigned overlong_extra = 0, bool as_if_minimal = false);

}
