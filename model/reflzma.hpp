// reflzma: reference LZMA / LZMA2 decoder and a *generative* encoder, written
// from doc/lzma-file-format.txt and the public LZMA specification (range
// coder, probability model, symbol grammar). It shares no code with liblzma.
//
// The probability model is one class (LzmaModel) used in two directions by a
// coder object: RangeDec reads bits, RangeEnc writes bits. The generative
// encoder (synth) does not search for matches: it draws a sequence of legal
// symbols and thereby *defines* the plaintext, so everything it emits is valid
// by construction and it knows the plaintext.
#pragma once
#include <cstddef>
#include <cstdint>
#include <string>
#include <vector>

namespace ref {

typedef std::vector<uint8_t> Bytes;

struct RangeDec {
	const uint8_t *p = nullptr;
	size_t pos = 0, end = 0;
	uint32_t range = 0, code = 0;
	bool overrun = false;      // tried to read beyond end
	bool init_ok = false;
	void init(const uint8_t *data, size_t start, size_t limit);
	uint8_t next() { if (pos >= end) { overrun = true; return 0; } return p[pos++]; }
	void normalize() { if (range < (1u << 24)) { range <<= 8; code = (code << 8) | next(); } }
	int bit(uint16_t &prob);
	uint32_t direct(int nbits);
	bool finished_ok() const { return code == 0; }
};

struct RangeEnc {
	Bytes out;
	uint64_t low = 0;
	uint32_t range = 0xFFFFFFFFu;
	uint8_t cache = 0;
	uint64_t cache_size = 1;
	void shift_low();
	void bit(uint16_t &prob, int b);
	void direct(uint32_t v, int nbits);
	void flush() { for (int i = 0; i < 5; ++i) shift_low(); }
};

struct LenModel {
	uint16_t choice, choice2, low[16][8], mid[16][8], high[256];
	void reset();
};

struct LzmaModel {
	int lc = 3, lp = 0, pb = 2;
	uint16_t is_match[12][16], is_rep[12], is_rep0[12], is_rep1[12], is_rep2[12], is_rep0_long[12][16];
	uint16_t dist_slot[4][64], dist_special[115], dist_align[16];
	LenModel len, rep_len;
	std::vector<uint16_t> literal;
	unsigned state = 0;
	uint32_t rep[4] = { 0, 0, 0, 0 };
	void set_props(int lc_, int lp_, int pb_);
	void reset_state();   // probabilities, state and reps ("state reset" of LZMA2)
};

// ---------------------------------------------------------------- decoder
enum LzmaStatus { LZ_OK = 0, LZ_END_MARKER, LZ_NEED_MORE_OUTPUT_DONE, LZ_ERROR };

struct LzmaDecoder {
	LzmaModel m;
	Bytes *out = nullptr;        // the whole output so far is the dictionary
	size_t dict_start = 0;       // index in *out where the current dictionary began (after the last dictionary reset)
	uint64_t dict_size = 0;      // effective dictionary size (distances must be < min(bytes since reset, dict_size))
	uint32_t max_dist_seen = 0;  // largest distance + 1 used by a match
	// Decode until `want` more bytes have been produced or an end marker is
	// met. allow_marker: an end-of-payload marker may appear.
	// Returns LZ_OK when `want` bytes were produced, LZ_END_MARKER, or LZ_ERROR.
	LzmaStatus decode(RangeDec &rc, uint64_t want, bool allow_marker, std::string &why);
};

// .lzma (LZMA_Alone): header + stream. status: 0 valid, 1 invalid
// picky: apply the documented plausibility test of the auto-detecting decoder
struct AloneResult { bool valid = false; Bytes out; size_t consumed = 0; std::string why; uint64_t header_size = 0; uint32_t dict = 0; bool eopm_seen = false; };
AloneResult decode_alone(const uint8_t *p, size_t n);
bool alone_header_is_picky_plausible(const uint8_t *p, size_t n);

// LZMA2 stream (the filter's raw stream): returns valid/invalid; consumed is
// the number of bytes up to and including the end control byte
struct Lzma2Result { bool valid = false; Bytes out; size_t consumed = 0; std::string why; uint32_t max_dist = 0; std::vector<int> chunk_classes; };
Lzma2Result decode_lzma2(const uint8_t *p, size_t n, uint64_t dict_size_declared);
// dictionary size from the one-byte LZMA2 property; false if invalid (> 40)
bool lzma2_dict_from_prop(uint8_t b, uint64_t &size);

// ------------------------------------------------------ generative encoder
struct SynthRng {
	uint64_t s;
	// Deliberately invalid streams: exactly one "site" of the artefact is made
	// illegal. Sites are counted as they are visited (every emit() call can
	// hold a symbol that refers to a byte just outside the dictionary - a match
	// or rep whose distance equals the number of bytes available, now and then a
	// little more; every LZMA2 stream can hold a chunk sequence the grammar
	// forbids). A first, fault-free pass counts the sites; the second pass sets
	// illegal_site_target. The plaintext gets what a decoder that forgot the
	// check would most plausibly produce (0 for a byte before the dictionary).
	long illegal_site_target = -1, site_counter[2] = { 0, 0 };
	int illegal_kind = 0;      // 0: distance sites (emit calls), 1: grammar sites (LZMA2 streams)
	unsigned illegal_emitted = 0;
	// set by emit() when the illegal symbol was an end-of-payload marker in the middle of the data:
	// the caller declares this many more bytes than were produced (a marker exactly at the declared
	// end is a different, separately checked case)
	unsigned eopm_extra = 0;
	bool site(int kind) { long n = site_counter[kind]++; return kind == illegal_kind && n == illegal_site_target; }
	explicit SynthRng(uint64_t seed) : s(seed * 0x9E3779B97F4A7C15ull + 0x1234567) {}
	uint64_t next() { s ^= s << 13; s ^= s >> 7; s ^= s << 17; return s * 0x2545F4914F6CDD1Dull; }
	uint64_t below(uint64_t n) { return n ? next() % n : 0; }
	bool chance(unsigned permille) { return below(1000) < permille; }
};

struct LzmaSynth {
	LzmaModel m;
	Bytes *plain = nullptr;      // plaintext produced so far (dictionary)
	size_t dict_start = 0;
	uint64_t dict_size = 4096;
	// Emit `nsym` random legal symbols (or until `max_out` bytes were produced)
	// into rc; returns bytes produced.
	size_t emit(RangeEnc &rc, SynthRng &rng, size_t nsym, size_t max_out, unsigned *features);
	void emit_end_marker(RangeEnc &rc);
};

// features bitmask reported by the synthesiser (which grammar features a stream contains)
enum { SF_LITERAL = 1, SF_MATCHED_LITERAL = 2, SF_MATCH = 4, SF_SHORTREP = 8, SF_REP0 = 16, SF_REP1 = 32, SF_REP2 = 64, SF_REP3 = 128,
	SF_LONG_LEN = 256, SF_FAR_DIST = 512, SF_ALIGN_DIST = 1024, SF_EOPM = 2048,
	SF2_UNCOMPRESSED = 1 << 12, SF2_STATE_RESET = 1 << 13, SF2_NEW_PROPS = 1 << 14, SF2_DICT_RESET_MID = 1 << 15, SF2_NO_RESET = 1 << 16,
	SF2_UNCOMP_NO_DICT_RESET = 1 << 17 };

// .lzma file: known/unknown size, with/without end marker
Bytes synth_alone(SynthRng &rng, int lc, int lp, int pb, uint32_t dict, bool known_size, bool eopm, size_t nsym, Bytes &plain, unsigned *features);
// raw LZMA2 stream with seed-chosen chunk structure
Bytes synth_lzma2(SynthRng &rng, uint32_t dict, size_t nchunks, Bytes &plain, unsigned *features, size_t preexisting_history = 0);

}
