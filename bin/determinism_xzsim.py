#!/usr/bin/env python3
"""Determinism of the xzsim engine: a sample of the cases of every xzsim check is executed three times
(different worker counts); exit status, standard output, final tree, event log and heap peak must be identical."""
import hashlib, multiprocessing, os, random, sys
V = os.path.dirname(os.path.dirname(os.path.abspath(__file__)))
sys.path.insert(0, os.path.join(V, "xzsim"))
import xzsim, xz_checks, xz_c19, xz_list, xz_mem, xz_flush


def fingerprint(case):
    r = xzsim.execute(case)
    h = hashlib.sha256()
    h.update(repr((r["rc"], xzsim.events_hash(r["events"]), r.get("heap_peak"), len(r["stdout"]))).encode())
    h.update(r["stdout"])
    for name in sorted(r["tree"]):
        e = r["tree"][name]
        h.update(repr((name, e["mode"], e["size"], e.get("link"))).encode())   # (timestamps of files the scene did not pin are wall-clock time)
        h.update(e.get("data", b""))
    return h.hexdigest()


def main():
    n = int(sys.argv[1]) if len(sys.argv) > 1 else 150
    seed = int(sys.argv[2]) if len(sys.argv) > 2 else 7
    if not xzsim.build():
        return 2
    rng = random.Random(seed)
    groups = {
        "C17 scenes (reference + single faults)": [],
        "C18": xz_checks.c18_cases(rng, n, False) + xz_checks.c18_roundtrip_cases(rng, n // 3) + xz_checks.c18_multi_cases(rng, n // 3),
        "C19": xz_c19.cases(rng, n, False),
        "C13 xz --list": xz_list.cases(rng, n // 2),
        "C09 xz --memlimit": xz_mem.cases(rng, n),
        "C12 xz --flush-timeout": xz_flush.cases(rng, n),
    }
    for sc in xz_checks.c17_scenes(rng, False):
        ref = xzsim.execute(dict(sc, faults=[]))
        groups["C17 scenes (reference + single faults)"] += [dict(sc, faults=[])] + xz_checks.c17_fault_cases(sc, ref["events"], rng, False)[:12]
    bad = 0
    for name, cases in groups.items():
        prints = []
        for jobs in (16, 3, 7):
            with multiprocessing.Pool(jobs) as pool:
                prints.append(pool.map(fingerprint, cases, chunksize=2))
        diff = sum(1 for a, b, c in zip(*prints) if not (a == b == c))
        print("%s: %d cases x 3 executions (16 / 3 / 7 workers): %s" % (name, len(cases), "identical" if diff == 0 else "%d DIFFERENT" % diff))
        bad += diff
    return 1 if bad else 0


if __name__ == "__main__":
    sys.exit(main())
