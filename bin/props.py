"""Per-property check configuration (legs, budgets, evidence texts)."""

LZ_REAL = ["liblzma built from /repo's working tree (asserts on, -DTUKAANI_PROJECT_XZ_VERIF)",
           "real pthreads created by liblzma, released one at a time by the simrt scheduler"]
LZ_STUB = ["pthread mutex/cond/create/join semantics (simrt, link-time --wrap)",
           "clock_gettime (simulated clock)",
           "memory allocator (lzma_allocator callbacks: counting, failing, poisoning)",
           "the application (simulated client: buffer slicing, stalls, early end)"]

PROPS = {
    "C07": {
        "level": "exploration",
        "legs": {
            "quick": [{"flavour": "asan", "runs": 6000, "seconds": 140},
                      {"flavour": "tsan", "runs": 2400, "seconds": 100}],
            "thorough": [{"flavour": "asan", "runs": 60000, "seconds": 1100},
                         {"flavour": "tsan", "runs": 24000, "seconds": 700}],
        },
        "level_text": "Seeded search over thread schedules (every lock/unlock/wait/signal/create/join of the real "
                      "threaded decoder is a choice point), timeouts, spurious wake-ups, client delivery, stored-byte faults, "
                      "memory limits, early end and re-init; each run compared with the single-threaded decoder; ASan+UBSan+asserts "
                      "leg and a ThreadSanitizer leg on the same deterministic schedules. Sampling, not proof.",
        "level_note": "Trusted: the simrt scheduler models POSIX mutex/cond semantics; pre-emption only at synchronisation "
                      "operations (TSan happens-before covers the rest); the single-threaded decoder is the reference.",
        "nontrivial": "features",
        "rule": "Each evaluation is one simulated run: a seed-derived plan (artefact recipe, stored-byte faults, "
                "decoder options, client delivery ops, scheduler parameters) executed against the real threaded "
                "decoder under the deterministic scheduler and compared with the single-threaded decoder. "
                "distinct_nontrivial counts distinct schedule trace hashes (thread, operation, object at every "
                "scheduling point) among runs whose file has >= 2 Blocks and that had >= 2 worker threads alive.",
        "assumptions": ["pre-emption only at synchronisation operations; code between them is covered by "
                        "ThreadSanitizer's happens-before analysis on the same deterministic schedules (tsan leg)",
                        "one build configuration (x86-64, clang 14)",
                        "NULL+0 pointer arithmetic (next_in == NULL with avail_in == 0) is not exercised"],
        "real": LZ_REAL, "stub": LZ_STUB,
    },

    "C08": {
        "level": "exploration",
        "legs": {
            "quick": [{"flavour": "asan", "runs": 7000, "seconds": 120},
                      {"flavour": "tsan", "runs": 3000, "seconds": 110}],
            "thorough": [{"flavour": "asan", "runs": 80000, "seconds": 1100},
                         {"flavour": "tsan", "runs": 30000, "seconds": 700}],
        },
        "nontrivial": "features",
        "level_text": "Seeded search over thread schedules of the real threaded encoder (every lock/unlock/wait/signal/"
                      "create/join is a choice point; timeouts, spurious wake-ups, starved workers), client action histories "
                      "(RUN slices, FULL_FLUSH, FULL_BARRIER at arbitrary offsets incl. offset 0 and back-to-back, "
                      "lzma_filters_update between Blocks, progress polling), early lzma_end and re-init with the same or a "
                      "different thread count. Oracles per run: round trip, one Stream, exact Block boundaries from the "
                      "flush/barrier history and block_size, flush durability (crash right after the acknowledged flush), "
                      "progress bounds and final equality, output identical to a one-thread one-shot encoding, fair-phase "
                      "termination, allocator balance; ASan+UBSan+assert leg and ThreadSanitizer leg. Sampling, not proof.",
        "level_note": "Trusted: simrt's model of POSIX mutex/cond semantics; liblzma's own single-threaded decoder and Index "
                      "reader as the judge of the produced Stream; pre-emption only at synchronisation operations.",
        "rule": "One evaluation = one simulated encoder session (plan = input recipe, options, action history with slices, "
                "scheduler parameters). distinct_nontrivial counts distinct schedule trace hashes among sessions that had "
                ">= 2 worker threads alive at the same time.",
        "assumptions": ["pre-emption only at synchronisation operations (TSan leg covers unsynchronised accesses between them)",
                        "inputs <= 100 KiB (quick) / 300 KiB (thorough), <= 8 threads, <= 250 Blocks per session"],
        "real": LZ_REAL, "stub": LZ_STUB,
    },
    "C12": {
        "level": "exploration",
        "legs": {
            "quick": [{"flavour": "asan", "runs": 12000, "seconds": 150}],
            "thorough": [{"flavour": "asan", "runs": 150000, "seconds": 1500},
                         {"flavour": "tsan", "runs": 10000, "seconds": 300}],
        },
        "xzsim_extra": {"what": "flush", "quick": 800, "thorough": 12000},
        "nontrivial": "features",
        "level_text": "Seeded search over action histories (SYNC_FLUSH / FULL_FLUSH / FULL_BARRIER at arbitrary offsets, no new "
                      "input, back-to-back; lzma_filters_update between Blocks and lc/lp/pb changes after a sync flush; refused "
                      "updates), buffer slicing, thread schedules for the threaded encoder, and the match-finder knob so that "
                      "flush, pending-byte replay and normalisation coincide. Oracle = crash after acknowledgement: at every "
                      "flush that returned LZMA_STREAM_END a fresh decoder given only the output so far must reproduce every "
                      "input byte given so far; the finished stream decodes to the whole input; Block boundaries exactly match "
                      "the full-flush history (no empty Block); chains that cannot sync-flush return LZMA_OPTIONS_ERROR and what "
                      "they emitted is a decodable prefix; a refused update leaves the session usable.",
        "level_note": "Trusted: liblzma's own decoders as the judge of decodability (the independent reference decoder of "
                      "C02/C03 is a separate check).",
        "rule": "One evaluation = one encoder session (stream, easy, threaded stream or raw encoder). distinct_nontrivial = "
                "distinct (plan text hash) sessions with >= 64 input bytes for single-threaded kinds, distinct schedule trace "
                "hashes with >= 2 workers alive for the threaded kind.",
        "assumptions": ["inputs <= 60 KiB (quick) / 200 KiB (thorough)"],
        "real": LZ_REAL, "stub": LZ_STUB,
    },

    "C10": {
        "level": "fault_enumeration",
        "legs": {
            "quick": [{"flavour": "asan", "runs": 16000, "seconds": 120},
                      {"flavour": "tsan", "runs": 3000, "seconds": 60}],
            "thorough": [{"flavour": "asan", "runs": 200000, "seconds": 900},
                         {"flavour": "tsan", "runs": 30000, "seconds": 400}],
        },
        "nontrivial": "features",
        "level_text": "Fault enumeration over the allocator seam: for each of 26 API flows (every public coder init + coding loop "
                      "incl. the threaded coders under the deterministic scheduler, lzma_index_* append/dup/cat/encode/decode, "
                      "filters copy/update, string conversions, Block Header and filter-flags decoding, single-call buffer API, "
                      "file-info) a fault-free run counts the N allocations, then allocation k fails for every k <= N (the sweep "
                      "index runs over consecutive values, so with the quick budget every k of every flow is hit several times), "
                      "plus 'from the k-th on each fails with probability p' and histories that reuse one handle for several "
                      "coders (some abandoned mid-stream) without lzma_end. Oracles: the affected call returns LZMA_MEM_ERROR/"
                      "NULL, nothing else does; a failed init leaves 0 bytes live; caller-owned objects unchanged (both operands "
                      "of a failed lzma_index_cat, destination of lzma_filters_copy, out-parameters); the handle can be "
                      "re-initialised without lzma_end and then produces the fault-free result; the encoder stays usable after a "
                      "failed lzma_filters_update; after lzma_end every byte is returned; free() never sees an unknown pointer; "
                      "ASan/UBSan/TSan clean.",
        "level_note": "Complete for single allocation failures of the listed flows at the fixed flow parameters (input, options); "
                      "sampled for failure subsets, reuse histories and thread schedules. Failing pthread_create/mutex_init/"
                      "cond_init is a separate configuration judged only on no crash/no leak.",
        "rule": "One evaluation = one flow executed with one fault plan. distinct_nontrivial counts distinct (flow, index of the "
                "failing allocation) pairs for single failures plus distinct plans for subset/history modes, counted only when at "
                "least one allocation failure actually fired.",
        "assumptions": ["flows use fixed small inputs (30 KB text, 3-Block/2-Stream .xz, .lzma, 2-member .lz)",
                        "for the threaded flows 'the k-th allocation' is defined under the seed's schedule"],
        "real": LZ_REAL, "stub": LZ_STUB,
    },

    "C11": {
        "level": "exploration",
        "legs": {
            "quick": [{"flavour": "asan", "runs": 30000, "seconds": 120},
                      {"flavour": "tsan", "runs": 3000, "seconds": 60}],
            "thorough": [{"flavour": "asan", "runs": 600000, "seconds": 1200},
                         {"flavour": "tsan", "runs": 40000, "seconds": 400}],
        },
        "nontrivial": "features",
        "level_text": "Seeded search over call histories of a simulated client on handles of eleven coder kinds (five encoders incl. "
                      "the threaded one, six decoders incl. the threaded one, under the deterministic scheduler): legal calls with "
                      "arbitrary slices, stalls (no input / no output space, repeated), out-of-range and unsupported actions, NULL "
                      "buffers with non-zero lengths, non-zero reserved fields, action or avail_in changed in the middle of a "
                      "flush/finish, use before initialisation, calls after the end and after a fatal error (decoders get corrupted "
                      "input for that). A reference model of the calling protocol written from the API documentation predicts per "
                      "call whether it must be refused instead of acting; refused calls must leave all six public fields and both "
                      "buffers untouched; LZMA_BUF_ERROR only on a second consecutive no-progress call and (single-threaded or "
                      "timeout 0) always then; exact accounting of next/avail/total on every acting call with exact-size heap "
                      "buffers under ASan; a session that ends reproduces the undisturbed result.",
        "level_note": "The model says nothing where the documentation is silent: whether a refused call kills the handle, which of "
                      "several simultaneous violations is reported, whether argument errors beat 'stream already ended'.",
        "rule": "One evaluation = one call history (<= 45 ops, each possibly many calls). distinct_nontrivial = distinct plans in "
                "which at least one call was refused or LZMA_BUF_ERROR was returned.",
        "assumptions": ["inputs <= 20 KB", "NULL+0 pointer arithmetic inside liblzma (next_in == NULL with avail_in == 0) is not exercised"],
        "real": LZ_REAL, "stub": LZ_STUB,
    },

    "C09": {
        "level": "exploration",
        "legs": {
            "quick": [{"flavour": "asan", "runs": 24000, "seconds": 150}],
            "thorough": [{"flavour": "asan", "runs": 300000, "seconds": 1500},
                         {"flavour": "tsan", "runs": 8000, "seconds": 300}],
        },
        "nontrivial": "features",
        "level_text": "The simulated allocator is the monitored resource: every byte liblzma obtains is counted (current and peak). "
                      "Decoders (stream, auto on .xz and .lzma, .lzma, .lz, threaded stream under the deterministic scheduler) "
                      "read files that declare dictionaries from 4 KiB to 1.5 GiB (declared, never touched: large requests are "
                      "mmap'ed without reserve) with limits at need-1, need, need+1, 1, need/2 and a random fraction; on "
                      "LZMA_MEMLIMIT_ERROR the client reads lzma_memusage(), raises the limit to exactly that and continues. "
                      "Oracles: allocated bytes <= limit + fixed allowance (32 KiB + 4 KiB per thread) after every call; "
                      "MEMLIMIT_ERROR iff the limit is below the need; the continued run equals the unlimited run; the reported "
                      "need is >= the peak of the unlimited run; threaded decoder: peak <= hard limit always and <= threading "
                      "limit whenever a single thread could work within it. Index decoder, lzma_index_buffer_decode and the "
                      "file-info decoder get the same treatment. Estimates: lzma_raw_encoder_memusage, "
                      "lzma_easy_encoder_memusage, lzma_stream_encoder_mt_memusage, lzma_raw_decoder_memusage, "
                      "lzma_easy_decoder_memusage >= measured peak of a real session for seeded option sets.",
        "xzsim_extra": {"what": "memlimit", "quick": 600, "thorough": 10000},
        "level_note": "The xz --memlimit clause: the xz tool itself runs under the system-call shim with malloc/calloc/realloc/free of "
                      "the whole process counted and its worker threads under the deterministic scheduler; compression and "
                      "decompression with --memlimit-compress / --memlimit-decompress / --memlimit-mt-decompress / -M at limits "
                      "from 1 MiB to 200 MiB, -T1..6, presets and explicit LZMA2 options, --no-adjust, --block-size: exit 0 "
                      "implies heap peak <= limit + 256 KiB and correct output; a refusal names the limit, writes nothing and is "
                      "not spurious; with only the threading limit set xz never fails and stays within max(limit, what one "
                      "thread needs). "
                      "Encoder estimates are compared for sessions of <= 400 Blocks because they do not cover the growing Index.",
        "rule": "One evaluation = one scenario run (decoder-limit, estimate or index-limit scenario; each executes the coder two to "
                "four times with different limits). distinct_nontrivial = distinct (coder kind, limit position, declared "
                "dictionary sizes, threading mode) tuples for limits, distinct (coder kind, chain, dict size, match finder, "
                "threads) tuples for estimates.",
        "assumptions": ["allowance fixed at 32 KiB + 4 KiB per thread"],
        "real": LZ_REAL, "stub": LZ_STUB,
    },

    "C06": {
        "level": "exploration",
        "legs": {
            "quick": [{"flavour": "asan", "runs": 20000, "seconds": 150},
                      {"flavour": "tsan", "runs": 1500, "seconds": 60, "scen": "encoder_determinism"}],
            "thorough": [{"flavour": "asan", "runs": 300000, "seconds": 1500},
                         {"flavour": "tsan", "runs": 20000, "seconds": 500, "scen": "encoder_determinism"}],
        },
        "nontrivial": "features",
        "level_text": "The classic simulation oracle 'the answer must not depend on delivery timing', applied to lzma_code(): the same "
                      "request is executed under several delivery schedules (one-shot; one byte in / one byte out; seeded random "
                      "slices with empty calls; every kind of two-piece split; slices of one byte around an aimed position) and, "
                      "for encoders, under different thread counts, timeouts and seeded thread schedules, and with the chain given "
                      "as a struct or through lzma_str_from_filters/lzma_str_to_filters. Decoders: stream, auto, .lzma, .lz, raw, "
                      "threaded; inputs: generated .xz/.lzma/.lz/raw artefacts and every file of tests/files, clean or with "
                      "stored-byte faults. Compared: concatenated output, final status, total_in, sequence of *_CHECK notices "
                      "(behind a BCJ filter on rejected input: status and total_in). Encoders: output bytes of the sliced / "
                      "threaded / scheduled session == one-thread one-shot session with the same action history.",
        "level_note": "Known findings (known_findings.json): on REJECTED input the amount of output delivered and of input consumed "
                      "when the error is reported depends on slicing (status does not; one output is a prefix of the other); the "
                      "threaded decoder's total_in at an error depends on timing. Valid input and all statuses are compared strictly.",
        "rule": "One evaluation = one request executed under 3-5 delivery schedules (decoders) or under the plan's schedule plus the "
                "canonical one (encoders). distinct_nontrivial = distinct (coder, artefact, status, fault, plan) tuples.",
        "assumptions": ["inputs <= 20 KiB (quick) / 60 KiB (thorough) for decoders, <= 60/200 KiB for encoders"],
        "real": LZ_REAL, "stub": LZ_STUB,
    },
    "C05": {
        "level": "fault_enumeration",
        "legs": {
            "quick": [{"flavour": "asan", "runs": 90000, "seconds": 160}],
            "thorough": [{"flavour": "asan", "runs": 400000, "seconds": 1200}],
        },
        "nontrivial": "features",
        "level_text": "Stored-byte faults on valid artefacts. Four fifths of the runs are a complete sweep: six small artefacts (.xz one "
                      "Block CRC32; three Blocks incl. an empty one, delta+LZMA2, SHA-256; two Streams with Stream Padding, CRC64; "
                      ".xz without check; .lzma; two-member .lz v1+v0) x every single-bit flip, every truncation length and every CRC-consistent rewrite of a non-payload field (check id in Stream Header or Footer, Backward Size, Block Header size fields +-1, Index record sizes +-1, swapped Index records - each with its CRC32 recomputed) x four "
                      "decoder variants (stream with and without LZMA_CONCATENATED, threaded, auto) x three delivery schedules; the "
                      "sweep index runs over consecutive values, so 14 000 runs cover every (artefact, bit or length) once per "
                      "decoder variant. One fifth are seeded multi-byte faults (flip, overwrite, insert, delete, truncate, "
                      "duplicate; 1-3 per file) on larger generated .xz/.lzma/.lz artefacts. A field map built by the artefact "
                      "writer (magic, Stream Flags, Block Header, payload, Block Padding, Check, Index, Footer, Stream Padding) says "
                      "which field each fault hits. Oracles: never LZMA_STREAM_END with output differing from the original when the "
                      "file has a check; in .xz a fault in any non-payload field of the part the decoder is asked to read => error; "
                      "a file that ends inside a stream is never complete.",
        "level_note": "Not flagged because the formats define it as valid: cutting at a Stream/member boundary or inside Stream Padding "
                      "at a multiple of four (a complete shorter file); in .lz, damage that makes a later member not start with the "
                      "ID string (the format calls the rest foreign trailing data), provided the delivered bytes are exactly the "
                      "verified leading members.",
        "rule": "One evaluation = one damaged artefact decoded once. distinct_nontrivial = distinct (artefact, decoder, fault position/"
                "bit or truncation length) tuples of the sweep plus distinct plans of the seeded part.",
        "assumptions": ["LZMA_IGNORE_CHECK is never set", "sweep artefacts are <= 420 bytes"],
        "real": LZ_REAL, "stub": LZ_STUB,
    },

    "C04": {
        "level": "exploration",
        "legs": {
            "quick": [{"flavour": "asan", "runs": 50000, "seconds": 160}],
            "thorough": [{"flavour": "asan", "runs": 800000, "seconds": 1500},
                         {"flavour": "tsan", "runs": 20000, "seconds": 300}],
        },
        "nontrivial": "features",
        "level_text": "Sixteen decoding/parsing entry points (stream, threaded stream under the deterministic scheduler, auto, .lzma, "
                      ".lz, MicroLZMA with hostile size parameters, raw, Block, Index, file-info with a simulated seekable file, "
                      "Block Header, Stream Header/Footer, filter flags and properties, filter strings, the single-call buffer "
                      "decoders, index hash) are fed artefacts matching the entry point with 0-4 stored-byte faults, every file of "
                      "tests/files with faults, valid prefixes with random tails and raw random bytes; delivery is seeded (1-byte, "
                      "random with empty calls, one-shot), memory limits from 1 byte to unlimited, and in half of the runs the "
                      "client stalls at a seeded call (no more input, no more output space, or neither). Oracles: ASan + UBSan + "
                      "enabled assert() + exact-size heap copies of every buffer and header; allocator balance after lzma_end; "
                      "only documented status codes; out-parameters not left set on failure; a stalled client gets LZMA_BUF_ERROR "
                      "or a terminal status within 2 calls (single-threaded) / within the fair-phase budget (threaded); per-run "
                      "call and step budgets and a 600 s wall-clock backstop for loops inside one call; no deadlock.",
        "level_note": "Mostly fault-aimed fuzzing; the simulation-specific parts are the stall/liveness oracle, the memory limits and "
                      "the threaded decoder. MSan is not usable for the whole library here (DESIGN.md section 9): allocations are "
                      "poison-filled instead so that reads of uninitialised memory give stable garbage that the comparison "
                      "oracles of C06/C07 would see.",
        "rule": "One evaluation = one entry point fed one hostile input under one delivery/stall plan. distinct_nontrivial = "
                "distinct plans (entry point, data source, faults, delivery, stall).",
        "assumptions": ["inputs <= 15 KB generated / <= 300 KB from tests/files"],
        "real": LZ_REAL, "stub": LZ_STUB,
    },

    "C17": {
        "engine": "xzsim",
        "level": "fault_enumeration",
        "rounds": {"quick": 3, "thorough": 25},
        "level_text": "Real xz processes on a scratch directory with a link-time system-call shim. For each seed-chosen scene "
                      "(compress / decompress, -T4, -k, -f over an existing target, --no-sync, --format=lzma, existing target "
                      "without -f, sparse output, corrupt or truncated input, two files with one bad, -c, stdin to stdout) a "
                      "fault-free run fixes the call history; then the single-fault space is enumerated completely: process "
                      "death (_exit) before every call and after the last; a termination signal (INT/TERM/HUP/PIPE) before "
                      "every call; for every (call, descriptor role, n-th) of the history each applicable errno (EIO, ENOSPC, "
                      "EPIPE, EACCES, EBUSY, EPERM, EINVAL...), a short count, and EINTR with a signal; plus seeded multi-fault "
                      "plans. Oracles on the directory afterwards and on the recorded call history: the source is intact or a "
                      "complete valid target exists (always); a self-terminating xz never leaves a partial target; a failing "
                      "data-path call => non-zero exit, source intact, target removed; metadata/unlink failures leave a complete "
                      "target; unlink(source) only after all target bytes were written, fchmod issued, fsync(target) and "
                      "fsync(directory) returned 0 (unless --no-sync) and close(target) returned 0; --keep/-c never remove the "
                      "source; an existing target is never overwritten without -f; benign short counts change nothing.",
        "level_note": "Complete for single faults of the chosen scenes (all 16 scene kinds, 3 content/size/schedule variants each per quick run, 25 in thorough). The kernel file system is real: power-loss semantics are judged from the call "
                      "history (fsync before unlink), not simulated. Targets are validated with Python's own lzma module.",
        "rule": "One evaluation = one xz run with one fault plan. distinct_nontrivial = distinct (scene, call, descriptor role, "
                "fault kind) tuples among faults that actually fired.",
        "assumptions": ["EINTR is injected only where a handled signal is unblocked and only on read/write/poll (xz blocks its "
                        "signals around open/fsync/close/unlink)", "tmpfs scratch directory under /dev/shm"],
    },
    "C18": {
        "engine": "xzsim",
        "level": "exploration",
        "runs": {"quick": [12000, 2500], "thorough": [150000, 30000]},
        "level_text": "xz -dc / -d / -t, xzdec and lzmadec run as real processes under the system-call shim and the deterministic "
                      "thread scheduler on valid, corrupted, truncated and concatenated inputs (texts, random data, zero runs "
                      "that start and end around the 8 KiB I/O buffer for the sparse-file path); sinks: pipe, new file via '>', "
                      "existing file opened at an offset, append mode; -T1..4; --no-sparse; --single-stream; with benign I/O "
                      "perturbation from the shim (short reads and writes at seeded calls). Oracle: a direct library decode done "
                      "by the checker (libdecode.c: lzma_code() on the whole file): standard output / the created file equals "
                      "the library's bytes (everything before an error, nothing after), exact final file size, a file is created "
                      "only when the library reports success, exit status fails exactly when the library reports an error "
                      "(unsupported check = warning). Plus round trips xz -z | library decode for seeded option sets.",
        "level_note": "The library reference is single-threaded lzma_auto_decoder/lzma_alone_decoder from the same tree.",
        "rule": "One evaluation = one tool run. distinct_nontrivial = distinct (tool, mode, sink, library status, content class, "
                "number of perturbations) tuples plus distinct round-trip option shapes.",
        "assumptions": ["inputs <= 400 KB"],
    },

    "C13": {
        "level": "exploration",
        "legs": {
            "quick": [{"flavour": "asan", "runs": 9000, "seconds": 150}],
            "thorough": [{"flavour": "asan", "runs": 150000, "seconds": 1500}],
        },
        "xzsim_extra": {"what": "list", "quick": 400, "thorough": 5000},
        "nontrivial": "features",
        "level_text": "(a) Seeded histories of lzma_index_* calls on up to three handles (append with sizes over the whole VLI range incl. "
                      "limit territory and long runs of small records that cross the group and tree boundaries, stream flags, "
                      "stream padding incl. invalid values, cat with an iterator kept across it, dup, encode + independent parse of "
                      "the encoded Index + decode) against IndexModel, a list-of-records model with 128-bit arithmetic written "
                      "from the .xz specification: after every operation that could change something every size/count/offset/"
                      "check query, a full iteration in all four modes and sampled lzma_index_iter_locate() calls are compared; "
                      "refused operations must leave both operands equal to the model's unchanged state. (b) lzma_file_info_"
                      "decoder over a simulated seekable file (1-4 Streams, 0-400 Blocks incl. empty ones, all check types, "
                      "Stream Padding 0-32): the simulator decides how many bytes each read returns (1 byte ... whole file) and "
                      "honours every LZMA_SEEK_NEEDED; oracles: seek_pos <= file size, the resulting index equals the model built "
                      "from the writer's field map, Blocks decoded at the returned offsets yield exactly plaintext[range). "
                      "(c) xz --list --robot -vv as a real process under the shim: every figure equals an independent Python parse "
                      "of the file.",
        "level_note": "memory use is compared with lzma_index_memusage(streams, blocks) (the documented relation), not with a "
                      "byte-exact model of the allocator.",
        "rule": "One evaluation = one history (<= 65 ops, up to thousands of appends) or one file-info session or one xz --list run. "
                "distinct_nontrivial = distinct plans.",
        "assumptions": ["files <= 250 KB"],
        "real": LZ_REAL, "stub": LZ_STUB + ["the file (simulated reads and seeks)"],
    },

    "C01": {
        "level": "exploration",
        "legs": {
            "quick": [{"flavour": "asan", "runs": 12000, "seconds": 160}],
            "thorough": [{"flavour": "asan", "runs": 200000, "seconds": 1500},
                         {"flavour": "tsan", "runs": 6000, "seconds": 300, "scen": "encoder_roundtrip"}],
        },
        "nontrivial": "features2",
        "level_text": "Encoder sessions (easy, stream, threaded stream under the deterministic scheduler, .lzma, raw with LZMA1 or LZMA2 "
                      "and BCJ/delta chains and preset dictionaries) with seeded option sets (preset 0-9 +-extreme, lc/lp/pb, match "
                      "finder, depth, nice_len, mode, dict 4 KiB-1.5 MiB, check, block size), delivery schedules and thread schedules; "
                      "the match-finder knob (hook H1) makes normalize(), move_window() and the position wrap happen within the "
                      "input instead of after 4 GiB. Single-call encoders and the output-size-limited MicroLZMA encoder are run "
                      "with seeded sizes and limits. Oracle: decoding with the matching liblzma decoder returns the input and "
                      "LZMA_STREAM_END; MicroLZMA: the decoded bytes equal input[0..total_in) and total_out <= limit.",
        "level_note": "Oracle-riding: the statement quantifies over inputs and configurations; what simulation adds is the delivery/"
                      "schedule/knob dimension. Seeded sampling, no claim of covering the input space.",
        "rule": "One evaluation = one encoder session or single-call encode. distinct_nontrivial = distinct (entry point, chain shape, "
                "input class, knob used, flush history present) tuples with input >= 64 bytes, plus distinct (api, chain, size "
                "class, input class) tuples for single-call runs.",
        "assumptions": ["inputs <= 100 KiB (quick) / 3 MiB (thorough)"],
        "real": LZ_REAL, "stub": LZ_STUB,
    },
    "C02": {
        "level": "exploration",
        "legs": {
            "quick": [{"flavour": "asan", "runs": 12000, "seconds": 160}],
            "thorough": [{"flavour": "asan", "runs": 200000, "seconds": 1500}],
        },
        "nontrivial": "features",
        "level_text": "The outputs of the encoder sessions of C01, C08 and C12 (all entry points, flush/barrier/update histories, "
                      "threaded under the scheduler) and of the single-call encoders are judged by an independent reference "
                      "implementation written from doc/xz-file-format.txt, doc/lzma-file-format.txt and the LZMA specification "
                      "(model/refxz, reflzma, refbcj, refcheck; no liblzma code): the bytes must parse as exactly one valid Stream "
                      "(or .lzma / raw LZMA2 stream), every stored field must be truthful (Block Header size fields, Index records "
                      "vs. real Block sizes, Backward Size, equal Stream Flags, every CRC32 and Check recomputed bit-at-a-time / "
                      "textbook SHA-256, zero padding, LZMA2 chunk sizes, declared dictionary >= farthest match distance seen by "
                      "the reference decoder) and the reference must recover the input. Bound clause: single-call encoders given "
                      "lzma_stream_buffer_bound()/lzma_block_buffer_bound() bytes never return LZMA_BUF_ERROR, for sizes around the "
                      "64 KiB chunk and 2 MiB LZMA2 limits and incompressible content.",
        "level_note": "Oracle-riding. RISC-V BCJ is not implemented by the reference: such chains are validated by liblzma's decoder only "
                      "(counted as oracle.ref_unsupported).",
        "rule": "One evaluation = one encoder session / single-call encode validated by the reference. distinct_nontrivial = "
                "distinct schedule trace hashes (threaded) or distinct plans.",
        "assumptions": ["the reference models are cross-validated against liblzma on valid-by-construction streams in C03"],
        "real": LZ_REAL, "stub": LZ_STUB + ["the judge: model/refxz, reflzma, refbcj, refcheck"],
    },
    "C03": {
        "level": "exploration",
        "legs": {
            "quick": [{"flavour": "asan", "runs": 40000, "seconds": 160}],
            "thorough": [{"flavour": "asan", "runs": 700000, "seconds": 1500}],
        },
        "nontrivial": "features",
        "level_text": "Valid-by-construction artefacts from a generative encoder (model/reflzma synth: draws legal LZMA symbols - "
                      "literal, matched literal, match with any length/distance slot, short rep, rep0-3 - and LZMA2 chunk sequences of "
                      "every control class: uncompressed with/without dictionary reset, LZMA chunks with no reset, state reset, new "
                      "properties for all lc/lp/pb, dictionary reset in mid-stream) wrapped by the reference .xz writer in every legal "
                      "layout the project's encoder never emits (Blocks with/without either size field, header padding, 1-4 filters "
                      "incl. delta and six BCJ filters with start offsets, empty Blocks and Streams, all 16 Check IDs, multiple Blocks "
                      "and Streams, Stream Padding) and files with reserved bits / unknown filter IDs / misplaced LZMA2 whose CRC32s "
                      "are right; plus stored-byte-fault variants. The real stream, auto, threaded and raw decoders read them under "
                      "seeded delivery. Oracle: liblzma succeeds exactly when the reference parser calls the bytes a valid supported "
                      "stream, the output equals the reference decoding, unsupported-but-well-formed input is refused, and "
                      "LZMA_UNSUPPORTED_CHECK appears exactly for Check IDs the build cannot verify.",
        "level_note": "Only success/failure and bytes are compared, not which error code. The documented relaxation (dictionary raised to "
                      "4 KiB and rounded up to a multiple of 16) is encoded in the reference; nothing else is. RISC-V BCJ not in the "
                      "reference.",
        "rule": "One evaluation = one artefact decoded by one decoder. distinct_nontrivial = distinct (set of container features, set of "
                "LZMA/LZMA2 grammar features, faulted?, reference verdict) tuples.",
        "assumptions": ["artefacts <= ~300 KB of plaintext"],
        "real": LZ_REAL, "stub": LZ_STUB + ["the judge: model/refxz, reflzma, refbcj, refcheck"],
    },
    "C16": {
        "level": "exploration",
        "legs": {
            "quick": [{"flavour": "asan", "runs": 40000, "seconds": 160}],
            "thorough": [{"flavour": "asan", "runs": 600000, "seconds": 1500}],
        },
        "nontrivial": "features",
        "level_text": "Generated .lzma files (every lc/lp/pb, eleven dictionary-size values incl. implausible ones, known/unknown size, "
                      "with/without end marker, optional bytes after the stream), .lz files (versions 0 and 1, every dictionary size "
                      "code, 1-3 members, foreign trailing data beginning with 0-4 bytes of the ID string) and concatenations of .xz "
                      "Streams with 0-9 bytes of padding, each also with stored-byte faults, are read by the .lzma, .lz, stream, "
                      "threaded-stream and auto-detecting decoders under seeded delivery aimed at the magic bytes and the end of the "
                      "first stream, with and without LZMA_CONCATENATED, with LZMA_RUN only or LZMA_FINISH. Oracle: reference "
                      "decoders written from the format documents decide valid/invalid and the content; auto == specific decoder for "
                      ".xz, .lz and plausible .lzma, LZMA_FORMAT_ERROR otherwise; padding must be a multiple of four; .lz trailing "
                      "data is left unread (input position within 3 bytes of the last member's end, as documented); .lzma followed "
                      "by anything is an error with LZMA_CONCATENATED; without it total_in is exactly the end of the first stream; "
                      "concatenated decoding never ends without LZMA_FINISH.",
        "level_note": "xz -dc --format / --single-stream / xzdec / lzmadec are exercised by C18's xzsim runs.",
        "rule": "One evaluation = one artefact read by two or three decoders. distinct_nontrivial = distinct (format variant, fault, "
                "tail kind, flags) tuples.",
        "assumptions": [],
        "real": LZ_REAL, "stub": LZ_STUB + ["the judge: model/reflzma, refxz and the reference .lz parser in scen_ref.cpp"],
    },

    "C15": {
        "level": "exploration",
        "legs": {
            "quick": [{"flavour": "asan", "runs": 40000, "seconds": 120}],
            "thorough": [{"flavour": "asan", "runs": 800000, "seconds": 1200}],
        },
        "nontrivial": "features",
        "level_text": "The streaming BCJ coders (held-back tail, x86 prev_mask carried across calls, end-of-input flush) and the delta "
                      "coder are driven through the public raw encoder/decoder under delivery schedules aimed at instruction "
                      "boundaries (1-byte, 1-9 byte, random, one byte at a time around an aimed offset), with instruction-dense "
                      "inputs generated per architecture, every start-offset class (none, small, near 2^32) and delta distance "
                      "1-256. The filtered bytes are extracted by decoding only the LZMA2 layer. Oracles: streaming encoder output == "
                      "model/refbcj whole-buffer transform (fixes the meaning of the transform, so a symmetric change is caught); "
                      "streaming decoder on arbitrary bytes == reference decode transform; decode(encode(x)) == x under another "
                      "delivery; length preserved; one-shot lzma_bcj_{x86,arm64,riscv}_{encode,decode} == streaming coder.",
        "level_note": "Oracle-riding: the transform-is-fixed clause is a pure-function clause, checked only as the oracle of the "
                      "streaming runs. RISC-V has no reference implementation here: for it only inverse, length, delivery "
                      "independence and one-shot == streaming are checked.",
        "rule": "One evaluation = one (filter, input, start offset, delivery) case run through four coder sessions. "
                "distinct_nontrivial = distinct (filter, start-offset used, delivery style, size bucket) tuples among cases where the "
                "filter changed at least one byte.",
        "assumptions": ["inputs <= 12 KB (quick) / 60 KB (thorough)"],
        "real": LZ_REAL, "stub": LZ_STUB + ["the judge: model/refbcj"],
    },

    "C19": {
        "engine": "xzsim",
        "level": "exploration",
        "runs": {"quick": [12000], "thorough": [150000]},
        "level_text": "Real xz processes on scratch directories (as root in the sandbox) with: hostile file names (spaces, leading dash, "
                      "newline, quotes and shell metacharacters, non-ASCII, names that already carry .xz/.txz/.lzma/.tlz/.lz, 160-byte "
                      "names) x formats xz/lzma x custom suffixes incl. dot-less ones, each compressed and then decompressed (two "
                      "steps in one case); existing targets with and without --force; directories, FIFOs, symbolic links, files "
                      "with two hard links and setuid/setgid/sticky files with no flag, -f, -k, -c; sources with 13 permission "
                      "patterns, foreign owner/group and old timestamps; shim faults: fchown(uid) / fchown(gid) / fchmod / futimens "
                      "returning EPERM and a simulated non-root effective uid (the only way to reach the restricted-permission "
                      "branch here); exit-status scenarios. Oracle: a model of the rules in the statement, written from xz(1), "
                      "evaluated on the directory before and after: target name and its inverse (with the documented precedence of "
                      "a longer built-in suffix), skip rules, never overwrite without --force, refusal of links/special files, mode "
                      "never broader than the source and without special bits (exact restricted formula when the group cannot be "
                      "set), owner/group/mtime copied when permitted, -k/-c keep the source, exit status 0/1/2.",
        "level_note": "Low simulation content: the naming clauses are a pure function of (name, suffix, format); simulation contributes the "
                      "metadata system-call failures and the simulated uid.",
        "rule": "One evaluation = one xz invocation (two for naming round trips). distinct_nontrivial = distinct (rule family, "
                "parameters) tuples: (name, format, suffix), (direction, force), (special kind, flag), (mode, owner, fault), ...",
        "assumptions": ["runs as root on tmpfs: chown to arbitrary ids works unless the shim says otherwise"],
    },
}
