"""Per-property check configuration (legs, budgets, evidence texts)."""

LZ_REAL = ["liblzma built from /repo's working tree (asserts on, -DTUKAANI_PROJECT_XZ_VERIF)",
           "real pthreads created by liblzma, released one at a time by the simrt scheduler"]
LZ_STUB = ["pthread mutex/cond/create/join semantics (simrt, link-time --wrap)",
           "clock_gettime (simulated clock)",
           "memory allocator (lzma_allocator callbacks: counting, failing, poisoning)",
           "the application (simulated client: buffer slicing, stalls, early end)"]

PROPS = {
    "C07": {
        "level": "exploration",
        "legs": {
            "quick": [{"flavour": "asan", "runs": 6000, "seconds": 140},
                      {"flavour": "tsan", "runs": 2400, "seconds": 100}],
            "thorough": [{"flavour": "asan", "runs": 60000, "seconds": 1100},
                         {"flavour": "tsan", "runs": 24000, "seconds": 700}],
        },
        "level_text": "Seeded search over thread schedules (every lock/unlock/wait/signal/create/join of the real "
                      "threaded decoder is a choice point), timeouts, spurious wake-ups, client delivery, stored-byte faults, "
                      "memory limits, early end and re-init; each run compared with the single-threaded decoder; ASan+UBSan+asserts "
                      "leg and a ThreadSanitizer leg on the same deterministic schedules. Sampling, not proof.",
        "level_note": "Trusted: the simrt scheduler models POSIX mutex/cond semantics; pre-emption only at synchronisation "
                      "operations (TSan happens-before covers the rest); the single-threaded decoder is the reference.",
        "nontrivial": "features",
        "rule": "Each evaluation is one simulated run: a seed-derived plan (artefact recipe, stored-byte faults, "
                "decoder options, client delivery ops, scheduler parameters) executed against the real threaded "
                "decoder under the deterministic scheduler and compared with the single-threaded decoder. "
                "distinct_nontrivial counts distinct schedule trace hashes (thread, operation, object at every "
                "scheduling point) among runs whose file has >= 2 Blocks and that had >= 2 worker threads alive.",
        "assumptions": ["pre-emption only at synchronisation operations; code between them is covered by "
                        "ThreadSanitizer's happens-before analysis on the same deterministic schedules (tsan leg)",
                        "one build configuration (x86-64, clang 14)",
                        "NULL+0 pointer arithmetic (next_in == NULL with avail_in == 0) is not exercised"],
        "real": LZ_REAL, "stub": LZ_STUB,
    },
}
