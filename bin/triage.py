#!/usr/bin/env python3
import json,collections,sys
d=json.load(open(sys.argv[1]+'/summary.json'))
c=collections.Counter((v['cls']) for v in d['violations'])
print(c)
seen=set()
n=int(sys.argv[2]) if len(sys.argv)>2 else 1200
for v in d['violations']:
    if v['cls'] in seen: continue
    seen.add(v['cls']); print(v['index'],v['cls'],v['msg'][:n]); print('---')
