#!/usr/bin/env python3
"""Writes seeded/SUMMARY.md from seeded/*/meta.json (what each independent sub-agent changed, what it needs,
and which classes of which check reported it in the last detection run)."""
import json, os
V = os.path.dirname(os.path.dirname(os.path.abspath(__file__)))
rows = []
for d in sorted(os.listdir(os.path.join(V, "seeded"))):
    p = os.path.join(V, "seeded", d, "meta.json")
    if not os.path.exists(p):
        continue
    m = json.load(open(p))
    det = m.get("detection", {})
    cells = []
    ok = False
    for prop, r in sorted(det.items()):
        cls = [l.split("class=")[1].split(" occurrences=")[0].replace(" flavour=", "/") + " x" + l.split("occurrences=")[1].split()[0] for l in r.get("lines", []) if "class=" in l]
        cells.append("%s: %s" % (prop, ", ".join(cls) if cls else ("rc %s" % r.get("rc"))))
        ok = ok or r.get("rc") == 1
    rows.append((d, m.get("property"), " ".join((m.get("summary") or "").split())[:260], "detected" if ok else "MISSED", "; ".join(cells)))
with open(os.path.join(V, "seeded", "SUMMARY.md"), "w") as f:
    f.write("# Seeded changes (independent sub-agents) and the last detection run of the quick tier\n\n")
    f.write("%d changes, %d detected.\n\n| id | property | change | result | reported classes |\n|---|---|---|---|---|\n" % (len(rows), sum(1 for r in rows if r[3] == "detected")))
    for r in rows:
        f.write("| %s | %s | %s | %s | %s |\n" % tuple(x.replace("|", "/") for x in r))
print("seeded/SUMMARY.md: %d rows" % len(rows))
