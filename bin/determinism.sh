#!/bin/sh
# Determinism protocol (DESIGN.md section 5): every property's scenarios are
# executed twice with different worker counts, once more with ASLR disabled,
# and (threaded properties) under the tsan and plain flavours against
# themselves; the per-run trace hashes and verdicts must be identical.
#   bin/determinism.sh [runs-per-property] [seed]
set -e
V=$(cd "$(dirname "$0")/.." && pwd)
N=${1:-1500}
SEED=${2:-7}
OUT=$(mktemp -d /dev/shm/vdet.XXXXXX)
trap 'rm -rf "$OUT"' EXIT
"$V/bin/build.sh" asan tsan plain
fail=0
for P in C01 C02 C03 C04 C05 C06 C07 C08 C09 C10 C11 C12 C13 C15 C16; do
  for F in asan; do
    B="$V/build/$F/lzsim-$F"
    "$B" run --prop $P --tier quick --seed $SEED --runs $N --jobs 16 --outdir "$OUT/a" > /dev/null || true
    "$B" run --prop $P --tier quick --seed $SEED --runs $N --jobs 3 --outdir "$OUT/b" > /dev/null || true
    setarch -R "$B" run --prop $P --tier quick --seed $SEED --runs $N --jobs 7 --outdir "$OUT/c" > /dev/null || true
    if cmp -s "$OUT/a/traces.txt" "$OUT/b/traces.txt" && cmp -s "$OUT/a/traces.txt" "$OUT/c/traces.txt"; then
      echo "$P $F: $(wc -l < "$OUT/a/traces.txt") runs x 3 executions (16 / 3 / 7 workers, ASLR on / on / off): identical"
    else
      echo "$P $F: DIFFERENT"; diff "$OUT/a/traces.txt" "$OUT/b/traces.txt" | head -5; diff "$OUT/a/traces.txt" "$OUT/c/traces.txt" | head -5; fail=1
    fi
  done
done
for P in C07 C08; do
  for F in tsan plain; do
    B="$V/build/$F/lzsim-$F"
    "$B" run --prop $P --tier quick --seed $SEED --runs $((N / 3)) --jobs 16 --outdir "$OUT/a" > /dev/null || true
    "$B" run --prop $P --tier quick --seed $SEED --runs $((N / 3)) --jobs 5 --outdir "$OUT/b" > /dev/null || true
    if cmp -s "$OUT/a/traces.txt" "$OUT/b/traces.txt"; then echo "$P $F: $(wc -l < "$OUT/a/traces.txt") runs x 2 executions: identical"; else echo "$P $F: DIFFERENT"; diff "$OUT/a/traces.txt" "$OUT/b/traces.txt" | head -5; fail=1; fi
  done
done
python3 "$V/bin/determinism_xzsim.py" 150 $SEED || fail=1
exit $fail
