#!/usr/bin/env python3
"""Regenerates MANIFEST.json from bin/props.py (claimed checks) and the
not-applicable table below."""
import json, os, sys
V = os.path.dirname(os.path.dirname(os.path.abspath(__file__)))
sys.path.insert(0, os.path.join(V, "bin"))
import props

NA = {
    "C14": "pure functions of (bytes, length, alignment, initial value): no schedule, clock, resource, fault or resumable state for a simulator to own; needs exhaustive/proof-style reasoning over inputs (DESIGN.md section 6, C14)",
    "C20": "behaviour of sh/sed/grep/diff scripts as a function of argv and file contents; nothing the simulator can place under its scheduler, clock or fault plan (DESIGN.md section 6, C20)",
}
PENDING = "check not built yet in this round (claimed in DESIGN.md; listed here until its check is registered)"

ALL = ["C%02d" % i for i in range(1, 21)]
hooks = json.load(open(os.path.join(V, "bin", "hooks.json")))
checks = []
for pid in ALL:
    if pid not in props.PROPS:
        continue
    c = props.PROPS[pid]
    checks.append({
        "property_id": pid,
        "quick_cmd": "bin/vcheck %s --tier quick" % pid,
        "thorough_cmd": "bin/vcheck %s --tier thorough" % pid,
        "evidence_file": "evidence/%s.json" % pid,
        "replay_cmd_template": "bin/vcheck replay {path}",
        "engine": c.get("engine", "lzsim"),
        "level_claimed": {"category": c["level"], "text": c["level_text"], "design_ref": "DESIGN.md section 6, " + pid},
        "level_note": c["level_note"],
        "technique": c.get("technique", "deterministic simulation with fault injection: seeded search over schedules, delivery and fault sequences; oracle checked per run"),
    })
na = []
for pid in ALL:
    if pid in props.PROPS:
        continue
    na.append({"property_id": pid, "reason": NA.get(pid, PENDING)})
m = {
    "version": 1,
    "setup_cmd": "bin/vcheck setup",
    "hooks": hooks,
    "engines": [
        {"name": "simrt", "path": "simrt/", "serves_properties": [c["property_id"] for c in checks],
         "kind_free_text": "deterministic runtime: real threads released one at a time at --wrap'ed pthread operations by a seeded scheduler, simulated clock"},
        {"name": "lzsim", "path": "lzsim/", "serves_properties": [c["property_id"] for c in checks if c["engine"] == "lzsim"],
         "kind_free_text": "in-process simulator of the liblzma API: seeded plans (ops + attached faults), simulated client and allocator, reference oracles, worker pool, minimiser and replay (bin/vlib.py)"},
        {"name": "xzsim", "path": "xzsim/", "serves_properties": [c["property_id"] for c in checks if c["engine"] == "xzsim"],
         "kind_free_text": "xz/xzdec/lzmadec processes with a link-time system-call shim (fault plan, event log) run on scratch directories by a Python driver"},
    ],
    "checks": checks,
    "not_applicable": na,
    "notes": "All checks rebuild from /repo's working tree (bin/build.sh, incremental cmake builds under /verif/build, guard on). VERIF_SEED selects the seed. Known findings: known_findings.json.",
}
json.dump(m, open(os.path.join(V, "MANIFEST.json"), "w"), indent=1)
print("MANIFEST.json: %d checks, %d not claimed" % (len(checks), len(na)))
