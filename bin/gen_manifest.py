#!/usr/bin/env python3
"""Regenerates MANIFEST.json from bin/props.py (claimed checks) and the
not-applicable table below."""
import json
# additions made while extending the checks against seeded changes (kept apart from the original texts in props.py)
ADD = {
 "C03": "Deliberately invalid artefacts: exactly one site per artefact (chosen among all sites counted by a fault-free probe pass) is made illegal - a match/rep whose distance reaches just outside the dictionary (first symbol, after a dictionary reset, after the window wrapped) or an LZMA2 chunk sequence the grammar forbids (first chunk without dictionary reset in any Block, LZMA chunk without properties where required, reserved control byte); notice flags (TELL_ANY_CHECK, TELL_NO_CHECK) varied.",
 "C04": "Field-level faults: a count or size field replaced by a boundary value (2^60, 2^63-1, 2^32, ...), in an Index the Number of Records; CRC32 of a damaged Block Header / Index recomputed now and then; the single-call decoders get artefacts of their own kind; Filter Flags artefacts; every value of the first properties byte of every filter, directly and as Filter Flags, with allocator balance after each. Poison differential (stands in for MSan): the single-threaded streaming decoders run twice, fresh allocations filled with 0xA5 and with zeros; delivered bytes and final status must be equal. Streams from the generative reference encoder with one illegal distance as hostile input. Every lzma_stream may have served another coder before (dirty handles).",
 "C05": "CRC-consistent rewrites now include every single bit of every CRC32-protected field (Stream Flags in header and footer, Backward Size, whole Block Headers, whole Index) flipped with the CRC32 recomputed; the independent reference parser decides whether the rewritten file is still valid (then the bytes must equal the specification's decoding) or must be rejected. The quick tier completes the sweep for the first five of the twelve decoder x delivery combinations, the thorough tier for all.",
 "C01": "Single-call encoders append at any *out_pos (0..8); the multi-call encoders are also driven with sync flushes a few bytes apart (BT/HC match finders, small nice_len, low-entropy data).",
 "C02": "Single-call encoders append at any *out_pos (0..8), the bytes before it must stay untouched.",
 "C07": "Artefacts with a Block whose header is well formed (right CRC32, known filters) but whose chain only lzma_block_decoder_init() refuses (unaligned BCJ start offset); a client that offers exactly the uncompressed size of output space and none afterwards; on rejected input the bytes delivered from the failing Block are compared up to the last Block that lies entirely before the first damaged byte (known findings KF-C07-1, KF-C07-5).",
 "C15": "(RISC-V has no reference transformation; it is covered by the inverse and the one-shot-equals-streaming oracles.)",
 "C17": "Scenes with several files in one run (compress two/three, decompress two) and with an operand that only earns a warning plus --no-warn.",
 "C19": "Timestamps are compared with nanosecond precision, access and modification time with different sub-second parts.",
 "C06": "Encoder determinism also on low-entropy data with long verbatim repeats, normal mode with nice_len 8..200, input arriving 1..64 bytes per call (look-ahead territory of the match finder).",
 "C08": "Re-initialisation also with another Block size; lzma_filters_update() with the chain in use between two lzma_code() calls of one segment (while all workers are busy); chains that must be refused offered at any moment (the threaded encoder's documented delayed refusal is accepted as a refusal).",
 "C09": "File-info limits over synthesised multi-Stream files with up to 20 000 Records per Stream; threaded decoder on big equal-sized Blocks with different declared dictionaries (threaded Block followed by a direct-mode Block).",
 "C10": "Re-initialisation sweep: coder A used (completed or abandoned part-way) on the handle, handle re-initialised for coder B (the same kind more often than not), the k-th allocation counted from B's init fails; lzma_filters_update() after a reported failure.",
 "C11": "The handle may have served another coder before (no lzma_end in between): nothing of that coder, in particular not its set of supported actions, may survive.",
 "C12": "Tool level: xz --flush-timeout under the system-call shim with a slow producer on standard input (read() returns EAGAIN at seeded calls, the following poll() times out and moves the simulated clock): when xz comes back for more input after a flush timeout, everything it has read so far must decode from what it has written so far (crash after acknowledgement), the whole output decodes to the whole input, and chains that cannot be sync-flushed (BCJ, LZMA1) are refused up front. Chains that must be refused (lc+lp>4, dict 100, unaligned BCJ start offset that passes the memory-usage validation and fails in the filter's init, delta dist 257, nice_len 1, unknown filter, LZMA2 twice) offered as the first call, between Blocks, right after an accepted change and mid-Block.",
 "C13": "Histories continue on decoded Indexes (encode -> decode -> append ...); file-info over files with Stream Padding around and beyond the decoder's 8 KiB window and over synthesised multi-Stream files whose Streams have exactly chosen sizes around multiples of 8 KiB.",
 "C16": "Notice flags (TELL_ANY_CHECK, TELL_NO_CHECK, TELL_UNSUPPORTED_CHECK; IGNORE_CHECK on undamaged artefacts) varied; one illegal distance site per .lzma file / .lz member.",
 "C18": "Inputs with every dictionary-size form (2^n, 2^n+2^(n-1), arbitrary) for .lzma and .xz and lc/lp/pb variants; compressed sizes at and next to multiples of the tools' 8 KiB buffers; the round trip is xz -k followed by the tool's own xz -dc of the file it wrote. On rejected input the reference is either library decode (one-shot or with the tools' 8 KiB buffers), see known finding KF-C06-2.",
}
import os, sys
V = os.path.dirname(os.path.dirname(os.path.abspath(__file__)))
sys.path.insert(0, os.path.join(V, "bin"))
import props

NA = {
    "C14": "pure functions of (bytes, length, alignment, initial value): no schedule, clock, resource, fault or resumable state for a simulator to own; needs exhaustive/proof-style reasoning over inputs (DESIGN.md section 6, C14)",
    "C20": "behaviour of sh/sed/grep/diff scripts as a function of argv and file contents; nothing the simulator can place under its scheduler, clock or fault plan (DESIGN.md section 6, C20)",
}
PENDING = "check not built yet in this round (claimed in DESIGN.md; listed here until its check is registered)"

ALL = ["C%02d" % i for i in range(1, 21)]
hooks = json.load(open(os.path.join(V, "bin", "hooks.json")))
checks = []
for pid in ALL:
    if pid not in props.PROPS:
        continue
    c = props.PROPS[pid]
    checks.append({
        "property_id": pid,
        "quick_cmd": "bin/vcheck %s --tier quick" % pid,
        "thorough_cmd": "bin/vcheck %s --tier thorough" % pid,
        "evidence_file": "evidence/%s.json" % pid,
        "replay_cmd_template": "bin/vcheck replay {path}",
        "engine": c.get("engine", "lzsim"),
        "level_claimed": {"category": c["level"], "text": c["level_text"] + (" " + ADD[pid] if pid in ADD else ""), "design_ref": "DESIGN.md section 6, " + pid},
        "level_note": c["level_note"],
        "technique": c.get("technique", "deterministic simulation with fault injection: seeded search over schedules, delivery and fault sequences; oracle checked per run"),
    })
na = []
for pid in ALL:
    if pid in props.PROPS:
        continue
    na.append({"property_id": pid, "reason": NA.get(pid, PENDING)})
m = {
    "version": 1,
    "setup_cmd": "bin/vcheck setup",
    "hooks": hooks,
    "engines": [
        {"name": "simrt", "path": "simrt/", "serves_properties": [c["property_id"] for c in checks],
         "kind_free_text": "deterministic runtime: real threads released one at a time at --wrap'ed pthread operations by a seeded scheduler, simulated clock"},
        {"name": "lzsim", "path": "lzsim/", "serves_properties": [c["property_id"] for c in checks if c["engine"] == "lzsim"],
         "kind_free_text": "in-process simulator of the liblzma API: seeded plans (ops + attached faults), simulated client and allocator, reference oracles, worker pool, minimiser and replay (bin/vlib.py)"},
        {"name": "xzsim", "path": "xzsim/", "serves_properties": [c["property_id"] for c in checks if c["engine"] == "xzsim"],
         "kind_free_text": "xz/xzdec/lzmadec processes with a link-time system-call shim (fault plan, event log) run on scratch directories by a Python driver"},
    ],
    "checks": checks,
    "not_applicable": na,
    "notes": "All checks rebuild from /repo's working tree (bin/build.sh, incremental cmake builds under /verif/build, guard on). VERIF_SEED selects the seed. Known findings: known_findings.json.",
}
json.dump(m, open(os.path.join(V, "MANIFEST.json"), "w"), indent=1)
print("MANIFEST.json: %d checks, %d not claimed" % (len(checks), len(na)))
