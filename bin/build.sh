#!/bin/sh
# build.sh <flavour>...   (asan | tsan | plain)
# Builds liblzma (and, for plain, the command line tools) from /repo's
# current working tree with the verification guard on, then the simulator.
# Incremental: cmake --build only recompiles what changed in /repo.
set -e
V=$(cd "$(dirname "$0")/.." && pwd)
REPO=${VERIF_REPO:-/repo}
for F in "$@"; do
  B=$V/build/$F
  mkdir -p "$B"
  (
    flock 9
    case $F in
      asan)  CC=clang; FLAGS="-O1 -g -fsanitize=address,undefined -fno-sanitize-recover=undefined -fno-omit-frame-pointer" ;;
      tsan)  CC=clang; FLAGS="-O1 -g -fsanitize=thread" ;;
      plain) CC=gcc;   FLAGS="-O2 -g" ;;
      *) echo "unknown flavour $F" >&2; exit 2 ;;
    esac
    if [ ! -f "$B/xz/build.ninja" ] || [ "$(cat "$B/xz/.repo_path" 2>/dev/null)" != "$REPO" ]; then
      rm -rf "$B/xz"
      cmake -G Ninja -S "$REPO" -B "$B/xz" -DCMAKE_BUILD_TYPE=None -DCMAKE_C_COMPILER=$CC \
        -DCMAKE_C_FLAGS="$FLAGS -DTUKAANI_PROJECT_XZ_VERIF" -DBUILD_TESTING=OFF -DBUILD_SHARED_LIBS=OFF \
        -DXZ_NLS=OFF -DXZ_SANDBOX=no -DXZ_DOC=OFF -DXZ_TOOL_SCRIPTS=OFF -DXZ_TOOL_SYMLINKS=OFF \
        -DXZ_TOOL_SYMLINKS_LZMA=OFF > "$B/cmake.log" 2>&1 || { cat "$B/cmake.log" >&2; exit 2; }
      echo "$REPO" > "$B/xz/.repo_path"
    fi
    if [ "$F" = plain ]; then TARGETS="liblzma xz xzdec lzmadec lzmainfo"; else TARGETS="liblzma"; fi
    cmake --build "$B/xz" --target $TARGETS -j16 > "$B/build.log" 2>&1 || { tail -50 "$B/build.log" >&2; exit 2; }
    make -s -C "$V/lzsim" FLAVOUR=$F -j16 > "$B/make.log" 2>&1 || { tail -50 "$B/make.log" >&2; exit 2; }
  ) 9> "$B/.lock"
done
