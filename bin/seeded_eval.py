#!/usr/bin/env python3
"""Confirm and evaluate seeded breaking changes.
  seeded_eval.py confirm <ID> <worktree>   re-verify the sub-agent's claim (tests pass with the change, demo fails with
                                           it and passes without) and copy the deliverables to /verif/seeded/<ID>/
  seeded_eval.py detect <seeded-dir> [PROP ...]   apply seeded/<dir>/patch.diff to /repo, run the quick checks, undo
"""
import json, os, shutil, subprocess, sys, time
V = os.path.dirname(os.path.dirname(os.path.abspath(__file__)))

def sh(cmd, cwd=None, timeout=1800):
    r = subprocess.run(cmd, shell=True, cwd=cwd, capture_output=True, timeout=timeout)
    return r.returncode, (r.stdout + r.stderr).decode("utf-8", "replace")

def confirm(pid, wt):
    sd = os.path.join(wt, "_seeded")
    meta = json.load(open(os.path.join(sd, "meta.json")))
    rc, d = sh("git diff -- src", wt)
    patch = open(os.path.join(sd, "patch.diff")).read()
    report = {"patch_matches_worktree": d.strip() == patch.strip()}
    if not report["patch_matches_worktree"]:
        # make the worktree match the patch
        sh("git checkout -- src", wt); rc, o = sh("git apply _seeded/patch.diff", wt); report["reapplied"] = rc == 0
    rc, o = sh("cmake --build _b -j8", wt); report["build_with_change"] = rc == 0
    rc, o = sh("ctest --test-dir _b -j8", wt); report["ctest_with_change"] = rc == 0; report["ctest_tail"] = o.strip().splitlines()[-3:]
    rc1, o1 = sh(meta["demo_cmd"], wt, timeout=600); report["demo_with_change_rc"] = rc1; report["demo_with_change_tail"] = o1.strip().splitlines()[-4:]
    sh("git apply -R _seeded/patch.diff", wt)
    rc, o = sh("cmake --build _b -j8", wt)
    rc2, o2 = sh(meta["demo_cmd"], wt, timeout=600); report["demo_without_change_rc"] = rc2; report["demo_without_change_tail"] = o2.strip().splitlines()[-3:]
    sh("git apply _seeded/patch.diff", wt)
    sh("cmake --build _b -j8", wt)
    ok = report["build_with_change"] and report["ctest_with_change"] and rc1 != 0 and rc2 == 0
    report["confirmed"] = ok
    print(json.dumps(report, indent=1))
    if ok:
        dst = os.path.join(V, "seeded", pid)
        os.makedirs(dst, exist_ok=True)
        for f in os.listdir(sd):
            p = os.path.join(sd, f)
            if os.path.isfile(p) and os.path.getsize(p) < 200000 and not os.access(p, os.X_OK) or f.endswith(".sh"):
                shutil.copy(p, dst)
        meta["confirmed_by_verifier"] = {"ran": ["cmake --build _b && ctest (19/19 with the change)", meta["demo_cmd"] + " (with the change: exit %d; without: exit %d)" % (rc1, rc2)],
                                         "date": time.strftime("%Y-%m-%d")}
        meta["origin"] = "independent sub-agent given only the property text and a scratch worktree"
        json.dump(meta, open(os.path.join(dst, "meta.json"), "w"), indent=1)
    return 0 if ok else 1

def detect(sdir, props):
    sd = os.path.join(V, "seeded", sdir)
    meta = json.load(open(os.path.join(sd, "meta.json")))
    if not props:
        props = [meta["property"]]
    rc, o = sh("git -C /repo status --short -- src", V)
    if o.strip():
        print("refusing: /repo has local changes"); return 2
    rc, o = sh("git -C /repo apply " + os.path.join(sd, "patch.diff"))
    if rc != 0:
        print("patch does not apply:", o); return 2
    results = {}
    try:
        for p in props:
            t0 = time.time()
            rc, o = sh(os.path.join(V, "bin", "vcheck") + " " + p, V, timeout=3600)
            lines = [l for l in o.splitlines() if l.startswith(("VIOLATION", "  class=", "KNOWN-FINDING"))]
            results[p] = {"rc": rc, "seconds": round(time.time() - t0), "lines": lines[:6]}
            print(p, "->", "DETECTED" if rc == 1 else "missed (rc %d)" % rc, "in %ds" % (time.time() - t0))
            for l in lines[:6]:
                print("   ", l[:300])
    finally:
        sh("git -C /repo checkout -- .")
        shutil.rmtree(os.path.join(V, "replays"), ignore_errors=True)
    meta.setdefault("detection", {}).update(results)
    json.dump(meta, open(os.path.join(sd, "meta.json"), "w"), indent=1)
    return 0

if __name__ == "__main__":
    if sys.argv[1] == "confirm":
        sys.exit(confirm(sys.argv[2], sys.argv[3]))
    sys.exit(detect(sys.argv[2], sys.argv[3:]))
