"""Shared machinery of vcheck: build, run legs, known findings, minimise,
replay gate, evidence."""
import json
import os
import re
import shutil
import signal
import subprocess
import sys
import tempfile
import time

V = os.path.dirname(os.path.dirname(os.path.abspath(__file__)))
JOBS = int(os.environ.get("VERIF_JOBS", str(min(16, os.cpu_count() or 4))))
SCRATCH_ROOT = "/dev/shm" if os.path.isdir("/dev/shm") else tempfile.gettempdir()

CRASH_KEYS = ["heap-use-after-free", "heap-buffer-overflow", "stack-buffer-overflow",
              "global-buffer-overflow", "double-free", "attempting free", "SEGV", "data race",
              "runtime error", "Assertion", "use-of-uninitialized", "lock-order-inversion",
              "negative-size-param", "memcpy-param-overlap", "stack-overflow",
              "requested allocation size"]


def log(*a):
    print(*a, flush=True)


def build(flavours):
    r = subprocess.run([os.path.join(V, "bin", "build.sh")] + sorted(set(flavours)), cwd=V)
    return r.returncode == 0


def setup():
    ok = build(["asan", "tsan", "plain"])
    if not ok:
        log("setup: build failed")
        return 2
    xs = os.path.join(V, "xzsim", "build.sh")
    if os.path.exists(xs):
        r = subprocess.run([xs], cwd=V)
        if r.returncode != 0:
            log("setup: xzsim build failed")
            return 2
    log("setup: ok")
    return 0


def lzsim_bin(flavour):
    return os.path.join(V, "build", flavour, "lzsim-" + flavour)


# ---------------------------------------------------------------- findings
def load_findings():
    p = os.path.join(V, "known_findings.json")
    if not os.path.exists(p):
        return []
    return json.load(open(p)).get("findings", [])


def match_finding(findings, prop, sig):
    for f in findings:
        if f.get("status") == "open" and f.get("property") == prop and f.get("sig") == sig:
            return f
    return None


# ------------------------------------------------------------- exec a plan
def crash_class(rc, err):
    if rc < 0:
        s = -rc
        kind = {signal.SIGABRT: "abort", signal.SIGSEGV: "segv", signal.SIGKILL: "hang"}.get(s, "signal%d" % s)
    elif rc == 77:
        kind = "sanitizer"
    elif rc == 78:
        kind = "tsan"
    else:
        kind = "exit%d" % rc
    for k in CRASH_KEYS:
        if k in err:
            kind += ":" + k
            break
    return "crash:" + kind


def exec_plan(flavour, plan_text, want_choices=False, timeout=700):
    """Run one plan in a fresh process. Returns dict(cls, sig, msg, trace, choices, rc)."""
    d = tempfile.mkdtemp(prefix="vplan_", dir=SCRATCH_ROOT)
    try:
        pf = os.path.join(d, "p.plan")
        with open(pf, "w") as f:
            f.write(plan_text)
        env = dict(os.environ)
        if want_choices:
            env["LZSIM_PRINT_CHOICES"] = "1"
        try:
            r = subprocess.run([lzsim_bin(flavour), "exec", "--plan", pf], capture_output=True, env=env,
                               timeout=timeout)
            rc, out, err = r.returncode, r.stdout.decode("utf-8", "replace"), r.stderr.decode("utf-8", "replace")
        except subprocess.TimeoutExpired:
            return {"cls": "crash:hang", "sig": "hang", "msg": "timeout", "trace": "", "choices": None, "rc": -9}
        res = {"cls": None, "sig": "", "msg": "", "trace": "", "choices": None, "rc": rc}
        for line in out.splitlines():
            if line.startswith("TRACE "):
                res["trace"] = line[6:].strip()
            elif line.startswith("CHOICES"):
                res["choices"] = line.split()[1:]
            elif line.startswith("VERDICT V "):
                f = line[10:].split("\t")
                res["cls"] = f[0]
                res["sig"] = f[1] if len(f) > 1 else ""
                res["msg"] = f[2] if len(f) > 2 else ""
        if res["cls"] is None and rc not in (0,):
            res["cls"] = crash_class(rc, err)
            res["sig"] = res["cls"]
            res["msg"] = err[-3000:]
        return res
    finally:
        shutil.rmtree(d, ignore_errors=True)


# -------------------------------------------------------------- minimiser
def split_plan(text):
    head, ops, choices = [], [], None
    for line in text.splitlines():
        if line.startswith("op "):
            ops.append(line)
        elif line.startswith("choices"):
            choices = line.split()[1:]
        elif line.strip():
            head.append(line)
    return head, ops, choices


def join_plan(head, ops, choices):
    t = "\n".join(head + ops) + "\n"
    if choices is not None:
        t += "choices " + " ".join(choices) + "\n"
    return t


def minimise(flavour, plan_text, cls, budget_s=60):
    """Shrink ops (ddmin), then numbers, then the schedule, while the same
    violation class persists. Returns (plan_text, steps_tried)."""
    t_end = time.time() + budget_s
    tried = [0]

    def fails(text):
        tried[0] += 1
        return exec_plan(flavour, text, timeout=60)["cls"] == cls

    head, ops, choices = split_plan(plan_text)
    # 1. ddmin over ops
    n = 2
    while len(ops) >= 1 and time.time() < t_end:
        chunk = max(1, len(ops) // n)
        removed = False
        i = 0
        while i < len(ops) and time.time() < t_end:
            cand = ops[:i] + ops[i + chunk:]
            if fails(join_plan(head, cand, None)):
                ops = cand
                removed = True
            else:
                i += chunk
        if not removed:
            if chunk == 1:
                break
            n = min(len(ops), n * 2)
        else:
            n = max(2, n - 1)
    # 2. shrink numbers in params and ops (towards 0 / 1 / half)
    def shrink_line(lines, idx, is_op):
        line = lines[idx]
        toks = line.split()
        changed = False
        rng = range(2, len(toks)) if is_op else [len(toks) - 1]
        for ti in rng:
            if time.time() >= t_end:
                break
            tok = toks[ti]
            if is_op:
                if "=" not in tok:
                    continue
                k, val = tok.split("=", 1)
            else:
                k, val = toks[1], tok
                if not line.startswith("param ") or k.startswith("sched_seed") or k.endswith("_seed"):
                    continue
            try:
                v = int(val)
            except ValueError:
                continue
            for c in ([0, 1, v // 2] if v > 1 else []):
                if c == v:
                    continue
                t2 = list(toks)
                t2[ti] = ("%s=%d" % (k, c)) if is_op else str(c)
                l2 = list(lines)
                l2[idx] = " ".join(t2)
                text = join_plan(l2, ops, None) if not is_op else join_plan(head, l2, None)
                if fails(text):
                    lines[idx] = l2[idx]
                    toks = t2
                    changed = True
                    break
        return changed

    for idx in range(len(head)):
        if time.time() >= t_end:
            break
        if head[idx].startswith("param "):
            shrink_line(head, idx, False)
    for idx in range(len(ops)):
        if time.time() >= t_end:
            break
        shrink_line(ops, idx, True)
    # 3. schedule: record the choice list, then cut its tail and zero entries
    text = join_plan(head, ops, None)
    r = exec_plan(flavour, text, want_choices=True, timeout=60)
    if r["cls"] == cls and r["choices"] is not None and len(r["choices"]) <= 200000:
        ch = r["choices"]
        if fails(join_plan(head, ops, ch)):
            lo, hi = 0, len(ch)
            while lo < hi and time.time() < t_end:      # shortest failing prefix
                mid = (lo + hi) // 2
                if fails(join_plan(head, ops, ch[:mid])):
                    hi = mid
                else:
                    lo = mid + 1
            if fails(join_plan(head, ops, ch[:hi])):
                ch = ch[:hi]
            size = max(1, len(ch) // 4)
            while size >= 1 and time.time() < t_end:
                i = 0
                while i < len(ch) and time.time() < t_end:
                    if any(c != "0" for c in ch[i:i + size]):
                        cand = ch[:i] + ["0"] * len(ch[i:i + size]) + ch[i + size:]
                        if fails(join_plan(head, ops, cand)):
                            ch = cand
                    i += size
                if size == 1:
                    break
                size //= 2
            return join_plan(head, ops, ch), tried[0]
    return text, tried[0]


# ------------------------------------------------------------------ replay
def write_replay(prop, flavour, seed, viol, plan_text, orig_plan_text, result):
    d = os.path.join(V, "replays")
    os.makedirs(d, exist_ok=True)
    name = "%s-%s-%s.json" % (prop, viol["runseed"], re.sub(r"[^A-Za-z0-9_.-]+", "_", viol["cls"])[:60])
    path = os.path.join(d, name)
    json.dump({
        "property": prop, "engine": "lzsim", "flavour": flavour, "seed": seed, "runseed": viol["runseed"],
        "violation": {"class": result["cls"], "sig": result["sig"], "message": result["msg"][:4000]},
        "trace_hash": result["trace"],
        "plan": plan_text.splitlines(),
        "original_plan": orig_plan_text.splitlines(),
        "replay_cmd": "bin/vcheck replay " + os.path.relpath(path, V),
    }, open(path, "w"), indent=1)
    return path


def replay_file(path):
    r = json.load(open(path))
    if r.get("engine") == "xzsim":
        sys.path.insert(0, os.path.join(V, "xzsim"))
        import xzsim
        return xzsim.replay(r)
    flavour = r["flavour"]
    if not build([flavour]):
        log("build failed")
        return 2
    res = exec_plan(flavour, "\n".join(r["plan"]) + "\n")
    want = r["violation"]["class"]
    if res["cls"] == want:
        log("REPRODUCED property=%s class=%s trace=%s" % (r["property"], res["cls"], res["trace"]))
        log(res["msg"][:2000])
        if r.get("trace_hash") and res["trace"] and r["trace_hash"] != res["trace"]:
            log("note: trace hash differs from the recorded one (%s)" % r["trace_hash"])
        return 1
    log("NOT REPRODUCED: expected class %s, got %s" % (want, res["cls"]))
    return 0


# -------------------------------------------------------------- run check
def run_leg(prop, leg, tier, seed, outdir):
    cmd = [lzsim_bin(leg["flavour"]), "run", "--prop", prop, "--tier", tier, "--seed", str(seed),
           "--runs", str(leg["runs"]), "--jobs", str(JOBS), "--seconds", str(leg.get("seconds", 600)),
           "--outdir", outdir]
    if leg.get("scen"):
        cmd += ["--scen", leg["scen"]]
    r = subprocess.run(cmd, cwd=V)
    sp = os.path.join(outdir, "summary.json")
    if not os.path.exists(sp):
        return None
    s = json.load(open(sp))
    s["rc"] = r.returncode
    return s


def merge_counters(dst, src):
    for k, v in src.items():
        if k.startswith("bits."):
            dst[k] = dst.get(k, 0) | v
        elif k.startswith("max."):
            dst[k] = max(dst.get(k, 0), v)
        else:
            dst[k] = dst.get(k, 0) + v


def run_check(prop, cfg, tier, seed):
    t0 = time.time()
    if cfg.get("engine") == "xzsim":
        sys.path.insert(0, os.path.join(V, "xzsim"))
        import xzsim
        return xzsim.run_check(prop, cfg, tier, seed)
    legs = cfg["legs"][tier]
    if not build([l["flavour"] for l in legs]):
        log("build failed")
        return 2
    findings = load_findings()
    scratch = tempfile.mkdtemp(prefix="vcheck_%s_" % prop, dir=SCRATCH_ROOT)
    rc = 0
    try:
        summaries = []
        violations = []   # (leg, viol)
        for li, leg in enumerate(legs):
            od = os.path.join(scratch, "leg%d" % li)
            s = run_leg(prop, leg, tier, seed + leg.get("seed_offset", 0), od)
            if s is None:
                log("lzsim produced no summary")
                return 2
            summaries.append((leg, s))
            for v in s["violations"]:
                violations.append((leg, v))

        known_hit = {}
        unknown = {}
        harness = []
        for leg, v in violations:
            if v["cls"] == "HARNESS-NONDETERMINISM" or v["cls"] == "harness":
                harness.append((leg, v))
                continue
            f = match_finding(findings, prop, v["sig"])
            if f is not None:
                known_hit.setdefault(f["id"], [f, 0, v])
                known_hit[f["id"]][1] += 1
                continue
            unknown.setdefault((leg["flavour"], v["cls"]), []).append((leg, v))

        for fid, (f, n, v) in sorted(known_hit.items()):
            log("KNOWN-FINDING: property=%s %s [%s, seen %d times in this run, e.g. runseed %s]" % (prop, f["what"], fid, n, v["runseed"]))

        if harness:
            for leg, v in harness[:5]:
                log("HARNESS-NONDETERMINISM flavour=%s runseed=%s: %s" % (leg["flavour"], v["runseed"], v["msg"][:600]))
            rc = 2

        reported = []
        for (flavour, cls), lst in sorted(unknown.items()):
            leg, v = lst[0]
            plan_path = v["plan"]
            if not os.path.exists(plan_path):
                log("missing plan for violation", v)
                rc = 2
                continue
            orig = open(plan_path).read()
            # gate: fresh-process reproduction of the original plan
            first = exec_plan(flavour, orig)
            # How ASan labels a wild heap access (overflow / use-after-free / unknown
            # address) depends on what happens to lie at that address, i.e. on the heap
            # history of the process - a long-lived worker and a fresh process differ.
            # Within the sanitizer-crash family the fresh-process label is the one that
            # replays, so it is the one reported.
            if first["cls"] != cls and cls.startswith("crash:sanitizer:") and first["cls"].startswith("crash:sanitizer:"):
                cls = first["cls"]
            if first["cls"] != cls:
                log("HARNESS-NONDETERMINISM: violation %s (runseed %s, %s) did not reproduce in a fresh process (got %s)" % (cls, v["runseed"], flavour, first["cls"]))
                rc = 2
                continue
            mini, tried = minimise(flavour, orig, cls, budget_s=cfg.get("minimise_s", 60))
            final = exec_plan(flavour, mini)
            if final["cls"] != cls:
                mini, final = orig, first
            path = write_replay(prop, flavour, seed, v, mini, orig, final)
            # gate: replaying the file in a fresh process reproduces it
            again = exec_plan(flavour, "\n".join(json.load(open(path))["plan"]) + "\n")
            if again["cls"] != cls:
                log("HARNESS-NONDETERMINISM: replay file %s does not reproduce" % path)
                rc = 2
                continue
            log("VIOLATION property=%s replay=%s" % (prop, path))
            log("  class=%s flavour=%s occurrences=%d minimised in %d re-runs" % (cls, flavour, len(lst), tried))
            log("  " + final["msg"][:1500].replace("\n", "\n  "))
            reported.append({"class": cls, "flavour": flavour, "replay": path, "occurrences": len(lst)})
            if rc == 0:
                rc = 1

        extra = None
        if cfg.get("xzsim_extra"):
            sys.path.insert(0, os.path.join(V, "xzsim"))
            import xz_checks
            erc, erep, ecnt, ecases, efeats = xz_checks.run_extra(prop, cfg["xzsim_extra"]["what"], cfg["xzsim_extra"][tier], seed)
            reported += erep
            if erc == 2 or (erc == 1 and rc == 0):
                rc = erc if rc != 2 else rc
            extra = {"cases": ecases, "distinct": efeats, "counters": ecnt}
        # A violation that passed every gate (same class twice in the worker, in a fresh process, and
        # from the written replay file) is a violation even if another candidate of the same run could
        # not be reproduced (e.g. a hang classified by a wall-clock watchdog on a loaded machine).
        if rc == 2 and reported:
            log("note: some candidates failed the reproduction gate (see HARNESS lines); %d violation(s) passed it" % len(reported))
            rc = 1
        write_evidence(prop, cfg, tier, seed, summaries, known_hit, reported, time.time() - t0, extra)
    finally:
        shutil.rmtree(scratch, ignore_errors=True)
    log("%s %s: %s (%.0fs)" % (prop, tier, {0: "held on everything explored", 1: "VIOLATION", 2: "MACHINERY FAILURE"}[rc], time.time() - t0))
    return rc


def write_evidence(prop, cfg, tier, seed, summaries, known_hit, reported, wall, extra=None):
    counters = {}
    runs = 0
    feats = 0
    feats2 = 0
    traces = 0
    samples = []
    per_leg = []
    per_scen = {}
    for leg, s in summaries:
        merge_counters(counters, s["counters"])
        runs += s["runs"]
        feats += s["distinct_features"]
        feats2 += s["distinct_features2"]
        traces += s["distinct_traces"]
        for k, v in s["per_scenario"].items():
            per_scen[k] = per_scen.get(k, 0) + v
        for smp in s["samples"][:2]:
            samples.append({"flavour": leg["flavour"], "plan": smp.splitlines()})
        per_leg.append({"flavour": leg["flavour"], "runs": s["runs"], "wall_s": round(s["wall_s"], 1),
                        "distinct_features": s["distinct_features"], "distinct_traces": s["distinct_traces"],
                        "violations": len(s["violations"])})
    which = cfg.get("nontrivial", "features")
    # legs of different flavours explore the same seeds; count the larger one
    # rather than the sum so that nothing is counted twice
    dn = 0
    for leg, s in summaries:
        dn = max(dn, s["distinct_features"] if which == "features" else s["distinct_features2"])
    faults = {k[6:]: v for k, v in counters.items() if k.startswith("fault.")}
    reach = {k[6:]: v for k, v in counters.items() if k.startswith("reach.")}
    tb = counters.get("bits.transitions", 0)
    ev = {
        "property_id": prop,
        "tier": tier,
        "seed": seed,
        "level": cfg["level"],
        "coverage": {
            "evaluations": runs,
            "distinct_nontrivial": dn,
            "rule": cfg["rule"],
            "samples": samples[:5],
            "exhaustive": False,
            "technique": "deterministic simulation with fault injection (seeded schedules, delivery, storage/allocation faults)",
            "runs_per_hour": int(runs / wall * 3600) if wall > 0 else 0,
            "sim_time_ns": counters.get("sim.time_ns", 0),
            "sched_steps": counters.get("sim.steps", 0),
            "context_switches": counters.get("sim.switches", 0),
            "interleavings_distinct_trace_hashes": max([s["distinct_traces"] for _, s in summaries] or [0]),
            "cross_thread_transition_classes": bin(tb).count("1"),
            "faults_fired": faults,
            "rare_conditions_reached": reach,
            "other_counters": {k: v for k, v in counters.items() if not k.startswith(("fault.", "reach.", "bits."))},
            "per_scenario_runs": per_scen,
            "legs": per_leg,
            "real_components": cfg.get("real", []),
            "stub_components": cfg.get("stub", []),
            "known_findings_hit": [{"id": fid, "count": n} for fid, (f, n, v) in sorted(known_hit.items())],
            "violations_reported": reported,
        },
        "assumptions": cfg.get("assumptions", []),
        "wall_s": round(wall, 1),
        "violations": len(reported),
    }
    if extra:
        ev["coverage"]["evaluations"] += extra["cases"]
        ev["coverage"]["xzsim_cases"] = extra
    os.makedirs(os.path.join(V, "evidence"), exist_ok=True)
    json.dump(ev, open(os.path.join(V, "evidence", prop + ".json"), "w"), indent=1)
